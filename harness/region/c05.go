package region

// C05 driver, framing half: G goroutines send batched and unbatched calls on
// one connection; the simulated server's independent decoder must see the
// preamble, the connection header and then whole frames only, with unique
// call ids and consistent lengths - on the in-memory net.Conn (no gather
// write: net.Buffers.WriteTo is one Write per buffer, as with any conn a
// proxy dialer returns) and on a loopback TCP socket.
//
// The forced schedule is the TLC counter-example of
// MC_RegionClient_c05_nonatomic: writer A is held between the two buffers of
// its frame while writer B writes a whole frame.  Holds are real-time sleeps
// (outside the synctest bubble): with a writer lock in place B simply waits.

import (
	"context"
	"fmt"
	"math/rand"
	"net"
	"os"
	"strconv"
	"sync"
	"testing"
	"time"

	"github.com/tsuna/gohbase/compression"
	"github.com/tsuna/gohbase/compression/snappy"
	"github.com/tsuna/gohbase/hrpc"
	"github.com/tsuna/gohbase/internal/verifsim"
)

// c05tcp runs the same server over a real loopback socket.
type c05tcpEnv struct {
	ln  net.Listener
	sc  *verifsim.ServerConn
	tr  *verifsim.Trace
	c   *client
	got chan *verifsim.Request
}

func c05answer(sc *verifsim.ServerConn, req *verifsim.Request) {
	// minimal well-formed answers so that callers complete
	switch req.Method {
	case "Multi":
		env := &rcEnv{tr: sc.Trace, sc: sc}
		env.respondMulti(req, multiPlan{})
	case "Get", "Mutate":
		env := &rcEnv{tr: sc.Trace, sc: sc}
		env.respondOK(req, 1, false)
	default:
		sc.SendException(req.CallID, "org.apache.hadoop.hbase.DoNotRetryIOException", "unsupported in harness")
	}
}

func TestVerifC05Framing(t *testing.T) {
	if os.Getenv("VERIF_OUT") == "" {
		t.Skip("VERIF_OUT not set")
	}
	seed, _ := strconv.ParseInt(os.Getenv("VERIF_SEED"), 10, 64)
	nrand, _ := strconv.Atoi(os.Getenv("VERIF_N"))
	o, done := rcOpen(t, "c05f_result.json")
	defer done()
	rep := o.rep

	run := func(name string, tcp bool, codec compression.Codec, q int, holdSecondBuffer bool, g int, perG int, rng *rand.Rand) {
		var env *rcEnv
		var held sync.Once
		hook := func(op verifsim.Op) *verifsim.Fault {
			// hold ONE writer right before the second buffer of a frame (a Write that does not start a frame)
			if holdSecondBuffer && op.Kind == verifsim.OpWrite && op.Index > 1 && !c05startsFrame(op.Data) {
				held.Do(func() { time.Sleep(30 * time.Millisecond) })
			}
			return nil
		}
		if tcp {
			ln, err := net.Listen("tcp", "127.0.0.1:0")
			if err != nil {
				panic(err)
			}
			defer ln.Close()
			tr := &verifsim.Trace{}
			scCh := make(chan *verifsim.ServerConn, 1)
			go func() {
				nc, err := ln.Accept()
				if err != nil {
					return
				}
				cc, ss := verifsim.Pipe("bridge-c", "bridge-s")
				// bridge the TCP socket to the harness server (bytes are forwarded untouched)
				go func() {
					buf := make([]byte, 64<<10)
					for {
						n, err := nc.Read(buf)
						if n > 0 {
							cc.Write(buf[:n])
						}
						if err != nil {
							cc.Close()
							return
						}
					}
				}()
				go func() {
					buf := make([]byte, 64<<10)
					for {
						n, err := cc.Read(buf)
						if n > 0 {
							nc.Write(buf[:n])
						}
						if err != nil {
							nc.Close()
							return
						}
					}
				}()
				scCh <- verifsim.Serve(ss, "rs:tcp", 1, verifsim.HandlerFunc(c05answer), tr)
			}()
			rc := NewClient(ln.Addr().String(), RegionClient, q, 100*time.Microsecond, "u", 30*time.Second, codec, nil, rcLogger)
			if err := rc.Dial(context.Background()); err != nil {
				panic(err)
			}
			env = &rcEnv{tr: tr, c: rc.(*client), stop: make(chan struct{})}
			env.reg = NewInfo(1, nil, []byte("t"), []byte("t,,1"), nil, []byte("m"))
			env.reg2 = NewInfo(2, nil, []byte("t"), []byte("t,m,2"), []byte("m"), nil)
			env.sc = <-scCh
		} else {
			env = newRCEnv(rcOpts{queueSize: q, flushInterval: 100 * time.Microsecond, codec: codec, hook: hook,
				auto: func(e *rcEnv, req *verifsim.Request) { c05answer(e.sc, req) }})
		}
		var wg sync.WaitGroup
		var mu sync.Mutex
		var calls []*rcCall
		for gi := 0; gi < g; gi++ {
			wg.Add(1)
			seedg := rng.Int63()
			go func(gi int) {
				defer wg.Done()
				r := rand.New(rand.NewSource(seedg))
				for k := 0; k < perG; k++ {
					kind := []string{"get", "put"}[r.Intn(2)]
					if holdSecondBuffer && gi == 0 {
						kind = "put"
					}
					batch := q > 1 && r.Intn(2) == 0
					tag := fmt.Sprintf("%c%d-%d", "an"[r.Intn(2)], gi, k)
					c := env.newCall(tag, kind, batch)
					mu.Lock()
					calls = append(calls, c)
					mu.Unlock()
					if holdSecondBuffer && gi > 0 {
						time.Sleep(5 * time.Millisecond) // arrive while writer 0 is held
					}
					env.c.QueueRPC(c.call)
					// wait for the result like the gohbase client does
					deadline := time.After(5 * time.Second)
					for c.count() == 0 {
						select {
						case <-deadline:
							return
						case <-env.c.done:
							time.Sleep(time.Millisecond)
							if c.count() == 0 {
								return
							}
						default:
							time.Sleep(50 * time.Microsecond)
						}
					}
				}
			}(gi)
		}
		wg.Wait()
		for _, p := range env.sc.GetProblems() {
			rep.bad("wire-malformed", "%s: the server's decoder rejects the byte stream: %s", name, p)
		}
		if len(env.sc.GetProblems()) == 0 {
			for _, c := range calls {
				if r, ok := c.first(); !ok || r.Error != nil {
					rep.bad("call-failed-on-healthy-conn", "%s: call %s did not succeed on a healthy connection: %v", name, c.tag, r.Error)
					break
				}
			}
		}
		rep.Scenarios++
		rep.Distinct++
		if len(rep.Samples) < 3 {
			rep.Samples = append(rep.Samples, map[string]any{"scenario": name, "requests_decoded": env.sc.NReq})
		}
		env.gates.releaseAll()
		env.c.Close()
		if env.srv != nil {
			env.srv.Close()
		} else {
			env.sc.Close()
		}
		close(env.stop)
		env.wg.Wait()
		rcSetHook(nil)
	}

	// real parallelism on one connection: every frame the server decodes carries its own call id (and is well formed)
	for k := 0; k < 3; k++ {
		_, wire := rcStress(16, 4000)
		for i, p := range wire {
			if i < 3 {
				rep.bad("wire-malformed", "stress/%d (16 concurrent unbatched senders x 4000 requests on one connection): the server's decoder rejects the byte stream: %s", k, p)
			}
		}
		rep.Scenarios++
		rep.Distinct++
	}
	rng := rand.New(rand.NewSource(seed))
	// forced: writer held between the two buffers of its frame, second writer arrives
	for _, codec := range []compression.Codec{nil, snappy.New()} {
		for _, q := range []int{1, 2} {
			run(fmt.Sprintf("forced/mem/codec=%v/q=%d", codec != nil, q), false, codec, q, true, 2, 1, rng)
		}
	}
	// free-running concurrent senders on both kinds of connection
	for k := 0; k < nrand; k++ {
		var codec compression.Codec
		if rng.Intn(2) == 0 {
			codec = snappy.New()
		}
		q := 1 + rng.Intn(4)
		g := 2 + rng.Intn(6)
		run(fmt.Sprintf("free/mem/%d/codec=%v/q=%d/g=%d", k, codec != nil, q, g), false, codec, q, false, g, 6, rng)
		run(fmt.Sprintf("free/tcp/%d/codec=%v/q=%d/g=%d", k, codec != nil, q, g), true, codec, q, false, g, 6, rng)
	}
	_ = hrpc.SkipBatch
}

// c05startsFrame: does this buffer begin with a 4-byte length followed by a delimited RequestHeader
// that carries a call id? (Used only to recognise "second buffer of a frame" for the hold.)
func c05startsFrame(b []byte) bool {
	if len(b) < 6 {
		return false
	}
	_, err := verifsim.DecodeRequestPrefix(b[4:])
	return err == nil
}
