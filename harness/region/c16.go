package region

// C16 conformance driver (overlaid into package region by /verif/bin/check).
//
// B1: reads the scope's names sorted by the specification's tuple order
// (written by TLC, Gen_RegionName) and checks region.Compare on every pair
// against the positions.  B2: draws random well-formed names and search keys,
// records the observed sign of Compare, and writes them for TLC to validate
// against TupleCmp (Trace_RegionName).

import (
	"bufio"
	"encoding/json"
	"fmt"
	"math/rand"
	"os"
	"sort"
	"strconv"
	"testing"
)

type c16Name struct {
	Table []int `json:"table"`
	Start []int `json:"start"`
	ID    []int `json:"id"`
}

func (n c16Name) flat() []byte {
	var b []byte
	for _, x := range n.Table {
		b = append(b, byte(x))
	}
	b = append(b, ',')
	for _, x := range n.Start {
		b = append(b, byte(x))
	}
	b = append(b, ',')
	for _, x := range n.ID {
		b = append(b, byte(x))
	}
	return b
}

func c16sign(n int) int {
	if n < 0 {
		return -1
	} else if n > 0 {
		return 1
	}
	return 0
}

func c16ints(b []byte) []int {
	out := make([]int, len(b))
	for i, x := range b {
		out[i] = int(x)
	}
	return out
}

type c16Result struct {
	Evaluations int      `json:"evaluations"`
	Names       int      `json:"names"`
	RandomPairs int      `json:"random_pairs"`
	Violations  []string `json:"violations"`
	Samples     []any    `json:"samples"`
}

func c16compare(a, b []byte) (r int, panicked any) {
	defer func() {
		if p := recover(); p != nil {
			panicked = p
		}
	}()
	return Compare(a, b), nil
}

func TestVerifC16(t *testing.T) {
	in := os.Getenv("VERIF_IN")
	out := os.Getenv("VERIF_OUT")
	if in == "" || out == "" {
		t.Skip("VERIF_IN / VERIF_OUT not set")
	}
	seed, _ := strconv.ParseInt(os.Getenv("VERIF_SEED"), 10, 64)
	nrand, _ := strconv.Atoi(os.Getenv("VERIF_N"))
	res := c16Result{}
	viol := func(f string, a ...any) {
		if len(res.Violations) < 50 {
			res.Violations = append(res.Violations, fmt.Sprintf(f, a...))
		}
	}

	// ---- B1: spec-sorted scope
	var names []c16Name
	fh, err := os.Open(in + "/c16_sorted.ndjson")
	if err != nil {
		t.Fatal(err)
	}
	sc := bufio.NewScanner(fh)
	sc.Buffer(make([]byte, 1<<20), 1<<20)
	for sc.Scan() {
		var n c16Name
		if err := json.Unmarshal(sc.Bytes(), &n); err != nil {
			t.Fatal(err)
		}
		names = append(names, n)
	}
	fh.Close()
	res.Names = len(names)
	flats := make([][]byte, len(names))
	for i, n := range names {
		flats[i] = n.flat()
	}
	for i := range flats {
		for j := range flats {
			got, p := c16compare(flats[i], flats[j])
			res.Evaluations++
			if p != nil {
				viol("Compare(%q,%q) panicked: %v", flats[i], flats[j], p)
				continue
			}
			if c16sign(got) != c16sign(i-j) {
				viol("Compare(%q,%q)=%d but the tuple order says %d", flats[i], flats[j], got, c16sign(i-j))
			}
		}
	}
	// sorting with Compare must reproduce the specification's order
	perm := rand.New(rand.NewSource(seed)).Perm(len(flats))
	shuffled := make([][]byte, len(flats))
	for i, p := range perm {
		shuffled[i] = flats[p]
	}
	func() {
		defer func() {
			if p := recover(); p != nil {
				viol("sort with Compare panicked: %v", p)
			}
		}()
		sort.SliceStable(shuffled, func(i, j int) bool { return Compare(shuffled[i], shuffled[j]) < 0 })
		for i := range shuffled {
			if string(shuffled[i]) != string(flats[i]) {
				viol("sort by Compare puts %q at position %d, the tuple order puts %q there", shuffled[i], i, flats[i])
				break
			}
		}
	}()
	if len(names) > 2 {
		res.Samples = append(res.Samples, map[string]any{"sorted_scope_first": string(flats[0]),
			"sorted_scope_mid": strconv.Quote(string(flats[len(flats)/2])), "sorted_scope_last": strconv.Quote(string(flats[len(flats)-1]))})
	}

	// ---- B2: random well-formed names, observed sign, for TLC
	rng := rand.New(rand.NewSource(seed*7919 + 13))
	w, err := os.Create(out + "/c16_pairs.ndjson")
	if err != nil {
		t.Fatal(err)
	}
	bw := bufio.NewWriter(w)
	tableAlpha := []byte("abAZ09_.-")
	randTable := func() []byte {
		n := 1 + rng.Intn(3)
		b := make([]byte, n)
		for i := range b {
			b[i] = tableAlpha[rng.Intn(len(tableAlpha))]
		}
		if b[0] == '.' || b[0] == '-' {
			b[0] = 'a'
		}
		if rng.Intn(4) == 0 {
			b = append([]byte("n:"), b...)
		}
		return b
	}
	keyBias := []byte{0, 1, '+', ',', '-', '.', ':', '9', 0xfe, 0xff}
	randKey := func() []byte {
		n := rng.Intn(5)
		b := make([]byte, n)
		for i := range b {
			if rng.Intn(3) == 0 {
				b[i] = byte(rng.Intn(256))
			} else {
				b[i] = keyBias[rng.Intn(len(keyBias))]
			}
		}
		return b
	}
	randID := func() []byte {
		if rng.Intn(5) == 0 {
			return []byte(":") // a search key
		}
		n := 1 + rng.Intn(4)
		b := make([]byte, n)
		for i := range b {
			b[i] = byte('0' + rng.Intn(10))
		}
		if rng.Intn(3) == 0 {
			b = append(b, []byte(".5f.")...)
		}
		return b
	}
	mutate := func(n c16Name) c16Name { // a near neighbour: same table, related key
		m := c16Name{Table: n.Table, Start: append([]int{}, n.Start...), ID: n.ID}
		switch rng.Intn(5) {
		case 0:
			m.Start = append(m.Start, int(keyBias[rng.Intn(len(keyBias))]))
		case 1:
			if len(m.Start) > 0 {
				m.Start = m.Start[:len(m.Start)-1]
			}
		case 2:
			if len(m.Start) > 0 {
				m.Start[rng.Intn(len(m.Start))] = int(keyBias[rng.Intn(len(keyBias))])
			}
		case 3:
			m.ID = c16ints(randID())
		case 4:
			m.Table = c16ints(append(append([]byte{}, n.flat()[:len(n.Table)]...), tableAlpha[rng.Intn(len(tableAlpha))]))
		}
		return m
	}
	for k := 0; k < nrand; k++ {
		a := c16Name{Table: c16ints(randTable()), Start: c16ints(randKey()), ID: c16ints(randID())}
		var b c16Name
		if rng.Intn(3) > 0 {
			b = mutate(a)
		} else {
			b = c16Name{Table: c16ints(randTable()), Start: c16ints(randKey()), ID: c16ints(randID())}
		}
		got, p := c16compare(a.flat(), b.flat())
		res.Evaluations++
		res.RandomPairs++
		if p != nil {
			viol("Compare(%q,%q) panicked: %v", a.flat(), b.flat(), p)
			continue
		}
		line, _ := json.Marshal(map[string]any{"a": a, "b": b, "cmp": c16sign(got)})
		bw.Write(line)
		bw.WriteByte('\n')
		if k < 3 {
			res.Samples = append(res.Samples, map[string]any{"a": strconv.Quote(string(a.flat())), "b": strconv.Quote(string(b.flat())), "cmp": c16sign(got)})
		}
	}
	bw.Flush()
	w.Close()
	rb, _ := json.Marshal(res)
	os.WriteFile(out+"/c16_result.json", rb, 0o644)
}
