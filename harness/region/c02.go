package region

// C02 driver: each caller receives the response to its own request.
//
//  A. enumerated multi answers: for every multi of 1..3 calls over 2 regions,
//     every permutation of the results inside a region, results in protobuf
//     or in the shared cellblock, 0..2 cells per call, a per-action exception
//     at every position and of every class, a per-region exception on either
//     region;
//  B. many concurrent callers (up to 48) with queue sizes 1..6, requests
//     answered out of order, random cell counts / placements / exceptions.
//
// Every caller's result is logged with the row and number of cells it carries
// and validated by TLC (Trace_RegionClient: OwnResponse, OwnException).

import (
	"github.com/tsuna/gohbase/compression/snappy"
	"github.com/tsuna/gohbase/hrpc"
	"runtime"
	"runtime/debug"
	"context"
	"fmt"
	"math/rand"
	"os"
	"strconv"
	"testing"
	"time"

	"github.com/tsuna/gohbase/internal/verifsim"
)

var c02classes = []string{
	"org.apache.hadoop.hbase.CallQueueTooBigException",
	"org.apache.hadoop.hbase.exceptions.RegionOpeningException",
	"org.apache.hadoop.hbase.RegionTooBusyException",
	"org.apache.hadoop.hbase.NotServingRegionException",
	"org.apache.hadoop.hbase.exceptions.RegionMovedException",
	"org.apache.hadoop.hbase.DoNotRetryIOException",
	"org.apache.hadoop.hbase.regionserver.NoSuchColumnFamilyException",
	"java.io.IOException",
}

func c02perms(n int) [][]int {
	if n == 0 {
		return [][]int{{}}
	}
	var out [][]int
	var rec func(cur []int, used []bool)
	rec = func(cur []int, used []bool) {
		if len(cur) == n {
			out = append(out, append([]int{}, cur...))
			return
		}
		for i := 0; i < n; i++ {
			if !used[i] {
				used[i] = true
				rec(append(cur, i), used)
				used[i] = false
			}
		}
	}
	rec(nil, make([]bool, n))
	return out
}

func TestVerifC02(t *testing.T) {
	if os.Getenv("VERIF_OUT") == "" {
		t.Skip("VERIF_OUT not set")
	}
	seed, _ := strconv.ParseInt(os.Getenv("VERIF_SEED"), 10, 64)
	nrand, _ := strconv.Atoi(os.Getenv("VERIF_N"))
	o, done := rcOpen(t, "c02_result.json")
	defer done()
	rep := o.rep

	// ---- A. enumerated answers to one multi
	// rows starting with a..l live in region 1, m..z in region 2
	layouts := [][]string{{"a1"}, {"a1", "a2"}, {"a1", "n1"}, {"a1", "a2", "a3"}, {"a1", "n1", "a2"}, {"n1", "a1", "n2"}}
	type plan struct {
		name string
		p    multiPlan
	}
	for li, rows := range layouts {
		var plans []plan
		for pi, perm := range c02perms(len(rows)) {
			for _, inCB := range []bool{false, true} {
				for nc := 0; nc <= 2; nc++ {
					nc := nc
					plans = append(plans, plan{fmt.Sprintf("perm%d/cb=%v/cells=%d", pi, inCB, nc),
						multiPlan{perm: perm, inCB: inCB, ncells: func(row string) int { return (nc + len(row) + int(row[1])) % 3 }}})
				}
			}
		}
		for _, row := range rows {
			for ci, cls := range c02classes {
				plans = append(plans, plan{fmt.Sprintf("actionExc/%s/%d", row, ci), multiPlan{inCB: ci%2 == 0, actionExc: map[string]string{row: cls}}})
			}
		}
		for ri := 0; ri < 2; ri++ {
			for ci, cls := range c02classes[:5] {
				plans = append(plans, plan{fmt.Sprintf("regionExc/%d/%d", ri, ci), multiPlan{inCB: true, regionExc: map[int]string{ri: cls}}})
			}
		}
		for _, pl := range plans {
			name := fmt.Sprintf("A/layout%d/%s", li, pl.name)
			verifsim.Bubble(t, func(t *testing.T) {
				env := newRCEnv(rcOpts{queueSize: len(rows), flushInterval: time.Millisecond})
				var cs []*rcCall
				for i, r := range rows {
					cs = append(cs, env.newCall(r, []string{"get", "put"}[i%2], true))
				}
				env.goQueueBatch(context.Background(), cs...)
				rcSettle()
				select {
				case req := <-env.reqs:
					env.respondMulti(req, pl.p)
				default:
					rep.bad("multi-not-sent", "%s: no multi request reached the server", name)
				}
				rcSettle()
				env.quiesce()
				o.flush(name, env)
				env.finish()
			})
			rep.Distinct++
		}
	}

	// ---- P. the batch objects are pooled across connections. A connection that dies while its batcher is between starting a
	// flush and registering the multi (its write then fails and the batcher itself completes the calls) must leave the pool in
	// a state in which the callers of ANOTHER, healthy connection still get their own responses: right afterwards a second
	// connection has one multi in flight while its batcher fills the next one. (The garbage collector empties sync.Pool, and
	// pools are per P: both are pinned for this class only.)
	oldGC := debug.SetGCPercent(-1)
	oldP := runtime.GOMAXPROCS(1)
	for k := 0; k < 12; k++ {
		name := fmt.Sprintf("P/%d/connection-closed-while-the-batcher-serialises-its-multi", k)
		verifsim.Bubble(t, func(t *testing.T) {
			env := newRCEnv(rcOpts{queueSize: 2, flushInterval: time.Millisecond})
			c1 := env.newCall(fmt.Sprintf("p%02d", k), "get", true)
			serialising, goOn := make(chan struct{}), make(chan struct{})
			c1.call = &c03gatedGet{Get: c1.call.(*hrpc.Get), gate: func() { close(serialising); <-goOn }}
			env.goQueue(c1)
			<-serialising // the batcher is inside toProto: past the done check, not yet registered
			env.c.Close() // runs completely: nothing is registered yet
			close(goOn)   // the batcher registers, its write fails on the closed socket, it completes the call itself
			rcSettle()
			env.quiesce()
			o.flush(name, env)
			env.finish()
			// the healthy connection
			name2 := name + "/then-a-healthy-connection"
			env2 := newRCEnv(rcOpts{queueSize: 2, flushInterval: time.Hour})
			var cs []*rcCall
			for i, r := range []string{"a1", "n1", "a2", "n2"} {
				cs = append(cs, env2.newCall(fmt.Sprintf("%s%02d", r, k), []string{"get", "put"}[(i+k)%2], true))
			}
			env2.goQueue(cs[0])
			env2.goQueue(cs[1])
			rcSettle()
			var reqs []*verifsim.Request
			take := func() {
				select {
				case r := <-env2.reqs:
					reqs = append(reqs, r)
				default:
				}
			}
			take() // first multi in flight
			env2.goQueue(cs[2])
			env2.goQueue(cs[3])
			rcSettle()
			take() // second multi in flight
			for _, r := range reqs {
				env2.respondMulti(r, multiPlan{ncells: func(row string) int { return 1 }})
				rcSettle()
			}
			env2.quiesce()
			if p := env2.pendingLive(); len(p) > 0 && !env2.isDone() {
				rep.bad("caller-never-answered", "%s: %d callers got no result although every request was answered: %v", name2, len(p), p)
			}
			o.flush(name2, env2)
			env2.finish()
		})
		rep.Distinct++
	}
	runtime.GOMAXPROCS(oldP)
	debug.SetGCPercent(oldGC)

	// ---- S. real parallelism: many senders on one connection at once (windows between two senders that no hook sits in)
	for k := 0; k < 3; k++ {
		var wrong []string
		if k == 2 {
			wrong, _ = rcStressWith(12, 2000, snappy.New(), true) // the same over compressed cellblocks (pooled buffers)
		} else {
			wrong, _ = rcStress(16, 4000)
		}
		for _, w := range wrong {
			rep.bad("stress:not-the-callers-response", "S/%d (16 concurrent unbatched senders x 4000 requests on one connection): %s", k, w)
		}
		rep.Distinct++
		rep.Scenarios++
	}

	// ---- B. concurrent callers, out-of-order answers
	for k := 0; k < nrand; k++ {
		rng := rand.New(rand.NewSource(seed*104729 + int64(k)))
		q := 1 + rng.Intn(6)
		g := 2 + rng.Intn(47)
		name := fmt.Sprintf("B/%d/q=%d/g=%d", k, q, g)
		verifsim.Bubble(t, func(t *testing.T) {
			env := newRCEnv(rcOpts{queueSize: q, flushInterval: []time.Duration{0, 500 * time.Microsecond}[rng.Intn(2)]})
			for i := 0; i < g; i++ {
				row := fmt.Sprintf("%c%03d", "agnt"[rng.Intn(4)], i)
				c := env.newCall(row, []string{"get", "put"}[rng.Intn(2)], q > 1 && rng.Intn(4) > 0)
				env.goQueue(c)
				if rng.Intn(7) == 0 {
					env.cancelCall(c) // a call whose context ends before the flush leaves a hole in the multi
				}
				if rng.Intn(3) == 0 {
					time.Sleep(time.Duration(rng.Intn(700)) * time.Microsecond)
				}
			}
			var pend []*verifsim.Request
			for round := 0; round < 200; round++ {
				rcSettle()
			drain:
				for {
					select {
					case r := <-env.reqs:
						pend = append(pend, r)
					default:
						break drain
					}
				}
				if len(pend) == 0 {
					break
				}
				rng.Shuffle(len(pend), func(i, j int) { pend[i], pend[j] = pend[j], pend[i] })
				n := 1 + rng.Intn(len(pend))
				for _, req := range pend[:n] {
					if req.Method == "Multi" {
						p := multiPlan{inCB: rng.Intn(2) == 0, ncells: func(row string) int { return int(row[3]) % 3 }, regionRev: rng.Intn(2) == 0}
						tags := rcTags(req)
						p.perm = rng.Perm(len(tags))
						if rng.Intn(4) == 0 && len(tags) > 0 {
							p.actionExc = map[string]string{tags[rng.Intn(len(tags))]: c02classes[rng.Intn(len(c02classes))]}
						}
						if rng.Intn(8) == 0 {
							p.regionExc = map[int]string{rng.Intn(2): c02classes[rng.Intn(5)]}
						}
						env.respondMulti(req, p)
					} else if rng.Intn(6) == 0 {
						env.respondExc(req, c02classes[rng.Intn(len(c02classes))])
					} else {
						env.respondOK(req, rng.Intn(3), rng.Intn(2) == 0)
					}
				}
				pend = pend[n:]
			}
			rcSettle()
			env.quiesce()
			if p := env.pendingLive(); len(p) > 0 && !env.isDone() {
				rep.bad("caller-never-answered", "%s: %d callers got no result although every request was answered: %v", name, len(p), p)
			}
			o.flush(name, env)
			if k < 2 {
				rep.Samples = append(rep.Samples, map[string]any{"scenario": name, "events": env.tr.Len()})
			}
			env.finish()
		})
		rep.Distinct++
	}
}
