package region

// C11 driver: the malformation cases enumerated by TLC (Gen_Malform) are turned
// into concrete frames / cellblocks / meta cells and handed to the real
// reader (client.receive on a client whose sent map holds the outstanding
// call), with a watchdog and recover() so that a panic, a spin or a blocked
// delivery is observed instead of killing the run; plus seeded byte-level
// mutations of valid frames. The oracle is Malform.tla's Orderly.

import (
	"bytes"
	"context"
	"encoding/binary"
	"encoding/json"
	"fmt"
	"math/rand"
	"os"
	"runtime"
	"strconv"
	"strings"
	"testing"
	"time"

	"github.com/tsuna/gohbase/hrpc"
	"github.com/tsuna/gohbase/internal/verifsim"
	"github.com/tsuna/gohbase/pb"
	"google.golang.org/protobuf/encoding/protowire"
	"google.golang.org/protobuf/proto"
)

type c11Case struct{ Kind, Field, Op string }

type c11Outcome struct {
	panicked  string
	spun      bool
	connFail  bool
	stillReg  bool
	completed map[string]int
	calls     []string
	err       error
	frameLen  int
	alloc     uint64 // bytes allocated while the frame was decoded
}

func (o c11Outcome) orderly() string {
	if o.panicked != "" {
		return "panic: " + o.panicked
	}
	if o.spun {
		return "the reader did not come back (spin, or blocked for ever delivering a second result)"
	}
	if o.alloc > 512<<20 {
		return fmt.Sprintf("decoding a frame of %d bytes made the client allocate %d bytes: a count in the frame is taken at its word "+
			"(a slightly larger one is a fatal out-of-memory error, which no caller can handle)", o.frameLen, o.alloc)
	}
	for _, c := range o.calls {
		if o.completed[c] > 1 {
			return fmt.Sprintf("call %s completed %d times", c, o.completed[c])
		}
	}
	all := true
	for _, c := range o.calls {
		if o.completed[c] != 1 {
			all = false
		}
	}
	if o.connFail {
		if !o.stillReg && !all {
			return fmt.Sprintf("connection failed but the request was already unregistered and %v were not all completed", o.completed)
		}
		return ""
	}
	if !all {
		return fmt.Sprintf("no error reported, yet not every affected caller got a result or an error: %v", o.completed)
	}
	return ""
}

// c11valid builds the outstanding item and a VALID response for it; parts lets the caller edit before encoding.
type c11parts struct {
	header    *pb.ResponseHeader
	msg       proto.Message
	cells     [][]byte // encoded cells, concatenated into the cellblock
	omitBody  bool
	rawBody   []byte // if non-nil replaces the delimited message
	rawHeader []byte // if non-nil replaces the delimited header (already delimited)
	cbLen     *uint32
}

func c11cell(row string, i int) []byte {
	return verifsim.EncodeKV(nil, verifsim.KV{Row: []byte(row), Family: []byte("f"), Qualifier: []byte{byte('a' + i)}, Timestamp: 5, Type: 4, Value: []byte("v" + row)})
}

func (p *c11parts) encode() []byte {
	var cb []byte
	for _, c := range p.cells {
		cb = append(cb, c...)
	}
	h := proto.Clone(p.header).(*pb.ResponseHeader)
	if len(cb) > 0 && h.CellBlockMeta == nil {
		h.CellBlockMeta = &pb.CellBlockMeta{Length: proto.Uint32(uint32(len(cb)))}
	}
	if p.cbLen != nil {
		h.CellBlockMeta = &pb.CellBlockMeta{Length: p.cbLen}
	}
	var body []byte
	if p.rawHeader != nil {
		body = append(body, p.rawHeader...)
	} else {
		hb, _ := proto.Marshal(h)
		body = protowire.AppendBytes(body, hb)
	}
	if p.rawBody != nil {
		body = append(body, p.rawBody...)
	} else if !p.omitBody && p.msg != nil {
		mb, _ := proto.Marshal(p.msg)
		body = protowire.AppendBytes(body, mb)
	}
	body = append(body, cb...)
	out := make([]byte, 4, 4+len(body))
	binary.BigEndian.PutUint32(out, uint32(len(body)))
	return append(out, body...)
}

type c11item struct {
	call  hrpc.Call
	calls map[string]hrpc.Call // tag -> call whose result channel is watched
	multi *multi
}

func c11newItem(kind string) (*c11item, *c11parts) {
	reg := NewInfo(1, nil, []byte("t"), []byte("t,,1"), nil, []byte("m"))
	reg2 := NewInfo(2, nil, []byte("t"), []byte("t,m,2"), []byte("m"), nil)
	it := &c11item{calls: map[string]hrpc.Call{}}
	p := &c11parts{header: &pb.ResponseHeader{CallId: proto.Uint32(1)}}
	switch kind {
	case "get":
		g, _ := hrpc.NewGet(context.Background(), []byte("t"), []byte("r1"))
		g.SetRegion(reg)
		it.call, it.calls["r1"] = g, g
		p.msg = &pb.GetResponse{Result: &pb.Result{AssociatedCellCount: proto.Int32(2)}}
		p.cells = [][]byte{c11cell("r1", 0), c11cell("r1", 1)}
	case "mutate":
		m, _ := hrpc.NewApp(context.Background(), []byte("t"), []byte("r1"), map[string]map[string][]byte{"f": {"a": []byte("x")}})
		m.SetRegion(reg)
		it.call, it.calls["r1"] = m, m
		p.msg = &pb.MutateResponse{Result: &pb.Result{AssociatedCellCount: proto.Int32(2)}, Processed: proto.Bool(true)}
		p.cells = [][]byte{c11cell("r1", 0), c11cell("r1", 1)}
	case "scan":
		s, _ := hrpc.NewScanStr(context.Background(), "t")
		s.SetRegion(reg)
		it.call, it.calls["scan"] = s, s
		p.msg = &pb.ScanResponse{CellsPerResult: []uint32{2, 1}, PartialFlagPerResult: []bool{false, false}, ScannerId: proto.Uint64(7),
			MoreResultsInRegion: proto.Bool(true), MoreResults: proto.Bool(true)}
		p.cells = [][]byte{c11cell("r1", 0), c11cell("r1", 1), c11cell("r2", 0)}
	case "multi":
		m := newMulti(4)
		ctxDone, cancel := context.WithCancel(context.Background())
		cancel()
		g1, _ := hrpc.NewGet(context.Background(), []byte("t"), []byte("a1"))
		g1.SetRegion(reg)
		hole, _ := hrpc.NewGet(ctxDone, []byte("t"), []byte("a2")) // dropped at serialisation: index 2 is a hole
		hole.SetRegion(reg)
		p3, _ := hrpc.NewApp(context.Background(), []byte("t"), []byte("n3"), map[string]map[string][]byte{"f": {"a": []byte("x")}})
		p3.SetRegion(reg2)
		g4, _ := hrpc.NewGet(context.Background(), []byte("t"), []byte("a4"))
		g4.SetRegion(reg)
		m.add([]hrpc.Call{g1, hole, p3, g4})
		m.toProto(true, nil) // fixes m.regions (map order) and drops the hole
		it.call, it.multi = m, m
		it.calls["a1"], it.calls["n3"], it.calls["a4"] = g1, p3, g4
		// answer in the order the request listed its regions
		mr := &pb.MultiResponse{}
		for _, r := range m.regions {
			rar := &pb.RegionActionResult{}
			if r == reg {
				rar.ResultOrException = []*pb.ResultOrException{
					{Index: proto.Uint32(1), Result: &pb.Result{AssociatedCellCount: proto.Int32(1)}},
					{Index: proto.Uint32(4), Result: &pb.Result{AssociatedCellCount: proto.Int32(1)}}}
				p.cells = append(p.cells, c11cell("a1", 0), c11cell("a4", 0))
			} else {
				rar.ResultOrException = []*pb.ResultOrException{{Index: proto.Uint32(3), Result: &pb.Result{AssociatedCellCount: proto.Int32(1)}}}
				p.cells = append(p.cells, c11cell("n3", 0))
			}
			mr.RegionActionResult = append(mr.RegionActionResult, rar)
		}
		p.msg = mr
	}
	return it, p
}

// c11feed hands the frame to the real reader and observes.
func c11feed(it *c11item, frame []byte) c11Outcome {
	c := &client{sent: map[uint32]hrpc.Call{1: it.call}, done: make(chan struct{}), logger: rcLogger, rpcs: make(chan []hrpc.Call)}
	cc, ss := verifsim.Pipe("c", "s")
	defer ss.Close()
	c.conn = cc
	c.inFlight = 1
	out := c11Outcome{completed: map[string]int{}}
	for tag := range it.calls {
		out.calls = append(out.calls, tag)
	}
	type res struct {
		err   error
		panic string
		alloc uint64
	}
	done := make(chan res, 1)
	go func() {
		var r res
		defer func() {
			if p := recover(); p != nil {
				r.panic = fmt.Sprint(p)
			}
			done <- r
		}()
		var m0, m1 runtime.MemStats
		runtime.ReadMemStats(&m0)
		defer func() {
			runtime.ReadMemStats(&m1)
			r.alloc = m1.TotalAlloc - m0.TotalAlloc
		}()
		r.err = c.receive(bytes.NewReader(frame))
	}()
	select {
	case r := <-done:
		out.err, out.panicked, out.alloc, out.frameLen = r.err, r.panic, r.alloc, len(frame)
	case <-time.After(2 * time.Second):
		out.spun = true
	}
	// a second delivery may be in progress in a still blocked reader: give it a moment, then count
	for tag, call := range it.calls {
		for k := 0; k < 3; k++ {
			select {
			case <-call.ResultChan():
				out.completed[tag]++
				time.Sleep(time.Millisecond)
				continue
			default:
			}
			break
		}
	}
	if out.spun {
		// unblock a reader stuck on a full result channel so that it does not linger
		for i := 0; i < 5; i++ {
			for _, call := range it.calls {
				select {
				case <-call.ResultChan():
				default:
				}
			}
			time.Sleep(time.Millisecond)
		}
	}
	_, out.connFail = out.err.(ServerError)
	c.sentM.Lock()
	_, out.stillReg = c.sent[1]
	c.sentM.Unlock()
	return out
}

func c11setU32(b []byte, off int, f func(uint32) uint32) {
	binary.BigEndian.PutUint32(b[off:], f(binary.BigEndian.Uint32(b[off:])))
}

// c11apply edits the valid parts according to the case; returns frames to feed (usually one).
func c11apply(cs c11Case, it *c11item, p *c11parts) [][]byte {
	inc := func(x uint32) uint32 { return x + 1 }
	dec := func(x uint32) uint32 { return x - 1 }
	max := func(uint32) uint32 { return 0xffffffff }
	zero := func(uint32) uint32 { return 0 }
	cell0 := func(off int, f func(uint32) uint32) {
		if len(p.cells) > 0 {
			c11setU32(p.cells[0], off, f)
		}
	}
	switch cs.Field + "/" + cs.Op {
	case "header/truncated":
		hb, _ := proto.Marshal(p.header)
		p.rawHeader = protowire.AppendVarint(nil, uint64(len(hb)+40))
		p.rawHeader = append(p.rawHeader, hb...)
		p.omitBody, p.cells = true, nil
	case "header/garbage":
		p.rawHeader = []byte{5, 0xff, 0xff, 0xff, 0xff, 0xff}
	case "callId/missing":
		p.header.CallId = nil
	case "callId/unknown":
		p.header.CallId = proto.Uint32(99)
	case "cellblockLen/minus1", "cellblockLen/plus1", "cellblockLen/frameSize", "cellblockLen/beyondFrame", "cellblockLen/huge", "cellblockLen/missing":
		n := 0
		for _, c := range p.cells {
			n += len(c)
		}
		full := len(p.encode()) - 4
		v := uint32(n)
		switch cs.Op {
		case "minus1":
			v--
		case "plus1":
			v++
		case "frameSize":
			v = uint32(full)
		case "beyondFrame":
			v = uint32(full + 7)
		case "huge":
			v = 0xfffffff0
		case "missing":
			p.header.CellBlockMeta = nil
			frame := p.encode() // encode() would add the meta back: strip it by hand
			h := proto.Clone(p.header).(*pb.ResponseHeader)
			hb, _ := proto.Marshal(h)
			var body []byte
			body = protowire.AppendBytes(body, hb)
			mb, _ := proto.Marshal(p.msg)
			body = protowire.AppendBytes(body, mb)
			for _, c := range p.cells {
				body = append(body, c...)
			}
			out := make([]byte, 4)
			binary.BigEndian.PutUint32(out, uint32(len(body)))
			_ = frame
			return [][]byte{append(out, body...)}
		}
		p.cbLen = &v
	case "exception/noClass":
		p.header.Exception = &pb.ExceptionResponse{StackTrace: proto.String("st")}
		p.omitBody, p.cells = true, nil
	case "exception/noStack":
		p.header.Exception = &pb.ExceptionResponse{ExceptionClassName: proto.String("org.apache.hadoop.hbase.DoNotRetryIOException")}
		p.omitBody, p.cells = true, nil
	case "exception/noBoth":
		p.header.Exception = &pb.ExceptionResponse{}
		p.omitBody, p.cells = true, nil
	case "body/truncated":
		mb, _ := proto.Marshal(p.msg)
		p.rawBody = protowire.AppendVarint(nil, uint64(len(mb)+50))
		p.rawBody = append(p.rawBody, mb...)
		p.cells = nil
	case "body/garbage":
		p.rawBody = []byte{4, 0xff, 0xff, 0xff, 0xff}
	case "body/empty":
		p.rawBody = []byte{0}
	case "body/missingDelimiter":
		p.omitBody = true
	case "cell.kvLen/zero":
		cell0(0, zero)
	case "cell.kvLen/minus1":
		cell0(0, dec)
	case "cell.kvLen/plus1":
		cell0(0, inc)
	case "cell.kvLen/max":
		cell0(0, max)
	case "cell.keyLen/zero":
		cell0(4, zero)
	case "cell.keyLen/plus1":
		cell0(4, inc)
	case "cell.keyLen/max":
		cell0(4, max)
	case "cell.valLen/plus1":
		cell0(8, inc)
	case "cell.valLen/max":
		cell0(8, max)
	case "cell.keyValLen/keyMinusK_valPlusK": // two wrong length fields that compensate: the total stays right
		cell0(4, func(x uint32) uint32 { return x - 3 })
		cell0(8, func(x uint32) uint32 { return x + 3 })
	case "cell.keyValLen/keyPlusK_valMinusK":
		cell0(4, func(x uint32) uint32 { return x + 2 })
		cell0(8, func(x uint32) uint32 { return x - 2 })
	case "cell.rowLen/plus1":
		if len(p.cells) > 0 {
			p.cells[0][13]++
		}
	case "cell.rowLen/max":
		if len(p.cells) > 0 {
			p.cells[0][12], p.cells[0][13] = 0xff, 0xff
		}
	case "cell.famLen/plus1":
		if len(p.cells) > 0 {
			p.cells[0][14+2]++
		}
	case "cell.famLen/max":
		if len(p.cells) > 0 {
			p.cells[0][14+2] = 0xff
		}
	case "cellblock/everyPrefix":
		var cb []byte
		for _, c := range p.cells {
			cb = append(cb, c...)
		}
		var frames [][]byte
		for n := 0; n < len(cb); n++ {
			q := *p
			q.cells = [][]byte{cb[:n]}
			if n == 0 {
				q.cells = nil
			}
			frames = append(frames, q.encode())
		}
		return frames
	case "cellblock/trailingGarbage":
		p.cells = append(p.cells, []byte{1, 2, 3})
	case "cellCount/plus1", "cellCount/minus1", "cellCount/huge", "cellCount/wrap8", "cellCount/wrap16", "cellCount/wrap24", "cellCount/wrap32", "cellCount/wrap48",
		"cellCount/neg1", "cellCount/neg3", "cellCount/minInt":
		f := func(x int32) int32 {
			switch cs.Op {
			case "plus1":
				return x + 1
			case "minus1":
				return x - 1
			case "wrap8":
				return (1<<32 + 8) / 8
			case "wrap16":
				return (1<<32 + 16) / 16
			case "wrap24":
				return (1<<32 + 8) / 24
			case "wrap32":
				return (1<<32 + 32) / 32
			case "wrap48":
				return (1<<32 + 32) / 48
			case "neg1":
				return -1
			case "neg3":
				return -3
			case "minInt":
				return -1 << 31
			}
			return 0x7fffffff
		}
		switch m := p.msg.(type) {
		case *pb.GetResponse:
			m.Result.AssociatedCellCount = proto.Int32(f(m.Result.GetAssociatedCellCount()))
		case *pb.MutateResponse:
			m.Result.AssociatedCellCount = proto.Int32(f(m.Result.GetAssociatedCellCount()))
		case *pb.ScanResponse:
			m.CellsPerResult[0] = uint32(f(int32(m.CellsPerResult[0])))
		case *pb.MultiResponse:
			r := m.RegionActionResult[0].ResultOrException[0].Result
			r.AssociatedCellCount = proto.Int32(f(r.GetAssociatedCellCount()))
		}
	case "partialFlags/shorter":
		m := p.msg.(*pb.ScanResponse)
		m.PartialFlagPerResult = m.PartialFlagPerResult[:1]
	case "partialFlags/longer":
		m := p.msg.(*pb.ScanResponse)
		m.PartialFlagPerResult = append(m.PartialFlagPerResult, true, false)
	case "partialFlags/missing":
		p.msg.(*pb.ScanResponse).PartialFlagPerResult = nil
	case "excIndex/zero", "excIndex/missing", "excIndex/outOfRange", "excIndex/hole", "excIndex/duplicate", "excIndex/serverFatalClass",
		"excIndexLast/zero", "excIndexLast/missing", "excIndexLast/outOfRange", "excIndexLast/hole", "excIndexLast/duplicate", "excIndexLast/serverFatalClass":
		mr := p.msg.(*pb.MultiResponse)
		var rar *pb.RegionActionResult
		for _, x := range mr.RegionActionResult {
			if len(x.ResultOrException) >= 2 {
				rar = x
			}
		}
		if rar == nil {
			rar = mr.RegionActionResult[0]
		}
		pos, other := 0, len(rar.ResultOrException)-1
		if cs.Field == "excIndexLast" {
			pos, other = other, 0
		}
		roe := rar.ResultOrException[pos]
		roe.Result = nil
		class := "org.apache.hadoop.hbase.DoNotRetryIOException"
		switch cs.Op {
		case "zero":
			roe.Index = proto.Uint32(0)
		case "missing":
			roe.Index = nil
		case "outOfRange":
			roe.Index = proto.Uint32(7)
		case "hole":
			roe.Index = proto.Uint32(2)
		case "duplicate":
			roe.Index = rar.ResultOrException[other].Index
		case "serverFatalClass":
			class = "org.apache.hadoop.hbase.regionserver.RegionServerStoppedException"
		}
		roe.Exception = &pb.NameBytesPair{Name: proto.String(class), Value: []byte("x")}
		p.cells = c11multiCells(it, mr)
	case "index/zero":
		p.msg.(*pb.MultiResponse).RegionActionResult[0].ResultOrException[0].Index = proto.Uint32(0)
	case "index/outOfRange":
		p.msg.(*pb.MultiResponse).RegionActionResult[0].ResultOrException[0].Index = proto.Uint32(9)
	case "index/hole":
		p.msg.(*pb.MultiResponse).RegionActionResult[0].ResultOrException[0].Index = proto.Uint32(2)
	case "index/duplicate":
		mr := p.msg.(*pb.MultiResponse)
		var first *pb.ResultOrException
		for _, rar := range mr.RegionActionResult {
			for _, roe := range rar.ResultOrException {
				if first == nil {
					first = roe
				} else {
					roe.Index = first.Index
				}
			}
		}
	case "result/omitted":
		mr := p.msg.(*pb.MultiResponse)
		for _, rar := range mr.RegionActionResult {
			if len(rar.ResultOrException) == 2 {
				rar.ResultOrException = rar.ResultOrException[:1]
				p.cells = p.cells[:len(p.cells)-1]
				// the dropped cell may not be the last one: rebuild in order
			}
		}
		p.cells = c11multiCells(it, mr)
	case "result/both":
		roe := p.msg.(*pb.MultiResponse).RegionActionResult[0].ResultOrException[0]
		roe.Exception = &pb.NameBytesPair{Name: proto.String("java.io.IOException"), Value: []byte("x")}
	case "result/neither":
		roe := p.msg.(*pb.MultiResponse).RegionActionResult[0].ResultOrException[0]
		roe.Result = nil
		p.cells = c11multiCells(it, p.msg.(*pb.MultiResponse))
	case "regionResults/extra":
		mr := p.msg.(*pb.MultiResponse)
		mr.RegionActionResult = append(mr.RegionActionResult, &pb.RegionActionResult{Exception: &pb.NameBytesPair{Name: proto.String("org.apache.hadoop.hbase.NotServingRegionException"), Value: []byte("x")}})
	case "regionResults/fewer":
		mr := p.msg.(*pb.MultiResponse)
		mr.RegionActionResult = mr.RegionActionResult[:1]
		p.cells = c11multiCells(it, mr)
	case "regionResults/exceptionWithResults":
		p.msg.(*pb.MultiResponse).RegionActionResult[0].Exception = &pb.NameBytesPair{Name: proto.String("org.apache.hadoop.hbase.NotServingRegionException"), Value: []byte("x")}
	case "regionResults/exceptionNoName":
		rar := p.msg.(*pb.MultiResponse).RegionActionResult[0]
		rar.ResultOrException = nil
		rar.Exception = &pb.NameBytesPair{Value: []byte("x")}
		p.cells = c11multiCells(it, p.msg.(*pb.MultiResponse))
	case "actionException/noName":
		roe := p.msg.(*pb.MultiResponse).RegionActionResult[0].ResultOrException[0]
		roe.Result = nil
		roe.Exception = &pb.NameBytesPair{Value: []byte("x")}
		p.cells = c11multiCells(it, p.msg.(*pb.MultiResponse))
	default:
		return nil
	}
	return [][]byte{p.encode()}
}

// c11multiCells rebuilds the cellblock for the results still present, in response order.
func c11multiCells(it *c11item, mr *pb.MultiResponse) [][]byte {
	rows := map[uint32]string{1: "a1", 3: "n3", 4: "a4"}
	var cells [][]byte
	for _, rar := range mr.RegionActionResult {
		if rar.Exception != nil {
			continue
		}
		for _, roe := range rar.ResultOrException {
			if roe.Result != nil && roe.Exception == nil {
				for i := 0; i < int(roe.Result.GetAssociatedCellCount()); i++ {
					cells = append(cells, c11cell(rows[roe.GetIndex()], i))
				}
			}
		}
	}
	return cells
}

func c11regionInfo(op string) (res *hrpc.Result) {
	ri := &pb.RegionInfo{RegionId: proto.Uint64(5), TableName: &pb.TableName{Namespace: []byte("default"), Qualifier: []byte("t")},
		StartKey: []byte("a"), EndKey: []byte("b")}
	val := func() []byte { b, _ := proto.Marshal(ri); return append([]byte("PBUF"), b...) }
	cells := []*hrpc.Cell{{Row: []byte("t,a,5"), Family: []byte("info"), Qualifier: []byte("regioninfo"), Value: val()},
		{Row: []byte("t,a,5"), Family: []byte("info"), Qualifier: []byte("server"), Value: []byte("h:1")}}
	switch op {
	case "empty":
		cells[0].Value = nil
	case "len1":
		cells[0].Value = []byte("P")
	case "len3":
		cells[0].Value = []byte("PBU")
	case "badMagic":
		cells[0].Value = append([]byte("PBUX"), cells[0].Value[4:]...)
	case "badProto":
		cells[0].Value = []byte("PBUF\xff\xff\xff")
	case "noTableName":
		ri.TableName = nil
		cells[0].Value = val()
	case "noCells":
		cells = nil
	case "empty-server":
		cells[1].Value = nil
	}
	return &hrpc.Result{Cells: cells}
}

func TestVerifC11(t *testing.T) {
	in, out := os.Getenv("VERIF_IN"), os.Getenv("VERIF_OUT")
	if in == "" || out == "" {
		t.Skip("VERIF_IN / VERIF_OUT not set")
	}
	seed, _ := strconv.ParseInt(os.Getenv("VERIF_SEED"), 10, 64)
	nmut, _ := strconv.Atoi(os.Getenv("VERIF_N"))
	rep := &rcReport{}
	defer func() {
		b, _ := json.Marshal(rep)
		os.WriteFile(out+"/c11_result.json", b, 0o644)
	}()
	cases := c05read[c11Case](in + "/c11_cases.ndjson")
	site := func(o c11Outcome) string {
		return c11site(o.panicked)
	}
	for _, cs := range cases {
		name := cs.Kind + "/" + cs.Field + "/" + cs.Op
		if cs.Kind == "regioninfo" {
			op := cs.Op
			if cs.Field == "row" {
				op = "noCells"
			} else if cs.Field == "server" {
				op = "empty-server"
			}
			rep.Scenarios++
			rep.Distinct++
			func() {
				defer func() {
					if p := recover(); p != nil {
						rep.bad("panic:regioninfo:"+cs.Field+"/"+cs.Op, "%s: ParseRegionInfo panicked: %v", name, p)
					}
				}()
				reg, addr, err := ParseRegionInfo(c11regionInfo(op))
				if err == nil && (reg == nil || addr == "") {
					rep.bad("regioninfo-nil", "%s: ParseRegionInfo returned neither an error nor a usable region", name)
				}
			}()
			continue
		}
		it, p := c11newItem(cs.Kind)
		frames := c11apply(cs, it, p)
		if frames == nil {
			continue // not applicable to this kind (e.g. no cells)
		}
		for fi, frame := range frames {
			if fi > 0 {
				it, _ = c11newItem(cs.Kind)
			}
			o := c11feed(it, frame)
			rep.Scenarios++
			if why := o.orderly(); why != "" {
				sig := "disorderly:" + name
				if o.panicked != "" {
					sig = "panic:" + site(o) + ":" + cs.Field + "/" + cs.Op
				} else if o.spun {
					sig = "hang:" + name
				}
				rep.bad(sig, "%s (frame %d): %s [receive returned %v]", name, fi, why, o.err)
			}
		}
		rep.Distinct++
	}
	// seeded byte-level mutations of valid frames
	rng := rand.New(rand.NewSource(seed))
	kinds := []string{"get", "mutate", "scan", "multi"}
	for i := 0; i < nmut; i++ {
		kind := kinds[rng.Intn(4)]
		it, p := c11newItem(kind)
		frame := p.encode()
		body := append([]byte{}, frame[4:]...)
		for k := 0; k < 1+rng.Intn(3); k++ {
			switch rng.Intn(5) {
			case 0:
				body[rng.Intn(len(body))] ^= byte(1 << rng.Intn(8))
			case 1:
				body[rng.Intn(len(body))] = byte(rng.Intn(256))
			case 2:
				body = body[:rng.Intn(len(body)+1)]
			case 3:
				a := rng.Intn(len(body) + 1)
				body = append(body[:a:a], body[rng.Intn(len(body)+1):]...)
			case 4:
				j := rng.Intn(len(body))
				body[j] = []byte{0, 0x7f, 0x80, 0xff}[rng.Intn(4)]
			}
			if len(body) == 0 {
				body = []byte{0}
			}
		}
		f2 := make([]byte, 4, 4+len(body))
		binary.BigEndian.PutUint32(f2, uint32(len(body)))
		f2 = append(f2, body...)
		o := c11feed(it, f2)
		rep.Scenarios++
		if why := o.orderly(); why != "" {
			sig := "mutation-disorderly"
			if o.panicked != "" {
				sig = "panic:" + site(o) + ":byte-mutation"
			} else if o.spun {
				sig = "hang:byte-mutation"
			}
			rep.bad(sig, "%s frame %x: %s [receive returned %v]", kind, f2, why, o.err)
		}
	}
	rep.Samples = append(rep.Samples, map[string]any{"structured_cases": len(cases), "byte_mutations": nmut})
}

// c11site reduces a panic message to a stable site label.
func c11site(msg string) string {
	switch {
	case strings.Contains(msg, "slice bounds out of range"):
		return "slice-bounds"
	case strings.Contains(msg, "index out of range"):
		return "index-range"
	case strings.Contains(msg, "nil pointer"):
		return "nil-deref"
	case strings.Contains(msg, "makeslice") || strings.Contains(msg, "len out of range"):
		return "alloc"
	case strings.Contains(msg, "index cannot be 0"):
		return "multi-index-zero"
	}
	if len(msg) > 40 {
		msg = msg[:40]
	}
	return msg
}
