package region

// C18 driver: silent servers are detected within the read timeout of the last
// request; an idle connection is never torn down by that timeout.
//
//  A. forced schedule (TLC counter-example of MC_RegionClient_c18_pinned):
//     the response is processed between the request's write and the arming
//     of the read deadline.
//  B. silent server: outstanding requests fail exactly readTimeout after the
//     last request sent; timeouts {1ms, 1s, 30s}.
//  C. seeded random interleavings of sends / responses / cancellations with
//     virtual-time jitter at the send and receive hook points; quiescent
//     observations; 10 x timeout idle; final request must work.
//
// All in the synctest bubble; every scenario's events go to rc_trace.ndjson
// for TLC (Trace_RegionClient).

import (
	"context"
	"encoding/json"
	"fmt"
	"math/rand"
	"os"
	"strconv"
	"strings"
	"sync"
	"sync/atomic"
	"testing"
	"testing/synctest"
	"time"

	"github.com/tsuna/gohbase/hrpc"
	"github.com/tsuna/gohbase/internal/verifsim"
)

type rcReport struct {
	Scenarios  int              `json:"scenarios"`
	Events     int              `json:"events"`
	Violations []map[string]any `json:"violations"`
	Samples    []any            `json:"samples"`
	Distinct   int              `json:"distinct"`
}

func (r *rcReport) bad(sig, f string, a ...any) {
	if len(r.Violations) < 40 {
		r.Violations = append(r.Violations, map[string]any{"sig": sig, "desc": fmt.Sprintf(f, a...)})
	}
	if !strings.HasPrefix(sig, "harness:") {
		verifsim.SetStallVerdict(sig, fmt.Sprintf(f, a...)) // (reported should a later scenario never end)
	}
}

type rcOut struct {
	w   *verifsim.NDJSONWriter
	rep *rcReport
}

func (o *rcOut) flush(name string, env *rcEnv) {
	o.w.Write(map[string]any{"ev": "reset", "scenario": name})
	for _, e := range env.tr.Events() {
		// the contract spec only reads these events
		switch e["ev"] {
		case "submit", "cancel", "srvreq", "srvresp", "result", "connClosed", "quiesce":
			o.w.Write(e)
		}
	}
	o.rep.Scenarios++
	for _, p := range env.sc.GetProblems() {
		if strings.HasSuffix(name, "/w0-soft") || strings.HasSuffix(name, "/whalf-soft") {
			// (the harness tore a frame in two and left the socket open: what another sender wrote before the client closed the
			// socket follows half a frame - noise to the server by the harness's doing, not the client's)
			continue
		}
		o.rep.bad("wire-malformed", "%s: server-side decoder: %s", name, p)
	}
}

func rcOpen(t *testing.T, file string) (*rcOut, func()) {
	out := os.Getenv("VERIF_OUT")
	w, err := verifsim.NewNDJSON(out + "/rc_trace.ndjson")
	if err != nil {
		t.Fatal(err)
	}
	o := &rcOut{w: w, rep: &rcReport{}}
	verifsim.OnStall(func() { // a stalled scenario: what was found so far is still written
		b, _ := json.Marshal(o.rep)
		os.WriteFile(out+"/"+file, b, 0o644)
	})
	return o, func() {
		o.rep.Events = w.Count()
		w.Close()
		b, _ := json.Marshal(o.rep)
		os.WriteFile(out+"/"+file, b, 0o644)
	}
}

// idleThenUse is the end-to-end statement of "idle connections are left alone":
// stay idle for 10x the timeout, then a request must succeed on this connection.
func c18idleThenUse(env *rcEnv, rep *rcReport, name string, rt time.Duration, settle func()) {
	time.Sleep(10 * rt)
	settle()
	env.quiesce()
	if env.isDone() {
		rep.bad("idle-conn-torn-down", "%s: connection with nothing outstanding was torn down after idling 10 x %v", name, rt)
		return
	}
	last := env.newCall("zlast", "get", false)
	env.goQueue(last)
	settle()
	select {
	case req := <-env.reqs:
		env.respondOK(req, 1, false)
	default:
		rep.bad("idle-conn-unusable", "%s: request after idle period never reached the server", name)
		return
	}
	settle()
	if r, ok := last.first(); !ok || r.Error != nil {
		rep.bad("idle-conn-unusable", "%s: request after idle period did not succeed: %v", name, r.Error)
	}
	env.quiesce()
}

// rcSettle lets every jitter sleep and flush timer run out (a goroutine asleep in a jitter hook counts as
// blocked for synctest.Wait, so quiescence needs virtual time to pass as well).
func rcSettle() {
	time.Sleep(20 * time.Millisecond)
	synctest.Wait()
}

func TestVerifC18(t *testing.T) {
	if os.Getenv("VERIF_OUT") == "" {
		t.Skip("VERIF_OUT not set")
	}
	seed, _ := strconv.ParseInt(os.Getenv("VERIF_SEED"), 10, 64)
	nrand, _ := strconv.Atoi(os.Getenv("VERIF_N"))
	o, done := rcOpen(t, "c18_result.json")
	defer done()
	rep := o.rep

	// ---- A. forced: response processed between write and arm (both unbatched and via a multi)
	for _, rt := range []time.Duration{time.Millisecond, time.Second, 30 * time.Second} {
		for bi := 0; bi < 4; bi++ {
			batched, dump := bi%2 == 1, bi >= 2
			name := fmt.Sprintf("A/rt=%v/batched=%v", rt, batched)
			if dump { // ... with the client's debug state read in that window (DebugState / MarshalJSON only LOOK at the connection)
				name += "/debug-state-read-in-the-window"
			}
			verifsim.Bubble(t, func(t *testing.T) {
				q := 1
				if batched {
					q = 2
				}
				env := newRCEnv(rcOpts{queueSize: q, readTimeout: rt})
				defer env.finish()
				g := env.gates.arm("send.written")
				c1 := env.newCall("a1", "get", batched)
				env.goQueue(c1)
				<-g.parked // the request is on the wire, the sender has not returned from send yet
				req := <-env.reqs
				if batched {
					env.respondMulti(req, multiPlan{})
				} else {
					env.respondOK(req, 1, false)
				}
				synctest.Wait() // the reader consumes the response while the sender is parked
				if dump {
					if _, err := env.c.MarshalJSON(); err != nil {
						rep.bad("harness:c18-dump", "%s: MarshalJSON failed: %v", name, err)
					}
				}
				close(g.release)
				synctest.Wait()
				env.quiesce()
				if r, ok := c1.first(); !ok || r.Error != nil {
					rep.bad("forced-request-failed", "%s: the request itself did not succeed: %v", name, r.Error)
				}
				c18idleThenUse(env, rep, name, rt, synctest.Wait)
				o.flush(name, env)
			})
			rep.Distinct++
		}
	}

	// ---- A'. forced, in real time (the reader is held inside the connection's SetReadDeadline, i.e. under the client's mutex
	// in the code as it is - that would stall a bubble): the reader has just counted the last outstanding response down to
	// zero and is about to clear the deadline while another request is sent. Afterwards one request is outstanding: the
	// deadline must be armed, and a silent server must be detected (the TLC counter-example of MC_RegionClient_c18_nonatomicdown).
	for _, batched := range []bool{false, true} {
		rcClearRacesWithSend(fmt.Sprintf("A2/clear-deadline-races-with-next-send/batched=%v", batched), batched, rep, o, "silent-server-not-detected")
		rep.Distinct++
	}

	// ---- D. a connection dialled under a context with a deadline (the client dials under its lookup timeout) and then left
	// idle: the deadline belongs to the dial, not to the connection - whether or not a request completed before it passed
	for _, warm := range []bool{false, true} {
		for _, rt := range []time.Duration{time.Second, 30 * time.Second} {
			name := fmt.Sprintf("D/dialled-under-a-deadline-then-idle/rt=%v/request-before-the-deadline=%v", rt, warm)
			verifsim.Bubble(t, func(t *testing.T) {
				dctx, dcancel := context.WithTimeout(context.Background(), 3*time.Second)
				defer dcancel()
				env := newRCEnv(rcOpts{queueSize: 1, readTimeout: rt, dialCtx: dctx})
				defer env.finish()
				if env.dialErr != nil {
					rep.bad("harness:c18-dial", "%s: dial failed: %v", name, env.dialErr)
					return
				}
				if warm {
					c1 := env.newCall("d1", "get", false)
					env.goQueue(c1)
					synctest.Wait()
					env.respondOK(<-env.reqs, 1, false)
					synctest.Wait()
				}
				time.Sleep(5 * time.Second) // the dial's deadline passes
				synctest.Wait()
				env.quiesce()
				if env.isDone() {
					rep.bad("idle-conn-torn-down", "%s: the idle connection was torn down when the deadline of the context it was dialled under passed", name)
					return
				}
				c18idleThenUse(env, rep, name, rt, synctest.Wait)
				o.flush(name, env)
			})
			rep.Distinct++
		}
	}

	// ---- B. silent server
	for _, rt := range []time.Duration{time.Millisecond, time.Second, 30 * time.Second} {
		name := fmt.Sprintf("B/rt=%v", rt)
		verifsim.Bubble(t, func(t *testing.T) {
			env := newRCEnv(rcOpts{queueSize: 1, readTimeout: rt})
			defer env.finish()
			c1 := env.newCall("b1", "get", false)
			c2 := env.newCall("b2", "put", false)
			env.goQueue(c1)
			synctest.Wait()
			time.Sleep(rt / 3)
			env.goQueue(c2) // the last request sent: the timeout runs from here
			synctest.Wait()
			env.quiesce()
			start := time.Now()
			time.Sleep(rt - rt/1000 - time.Nanosecond)
			synctest.Wait()
			if env.isDone() || c1.count() > 0 {
				rep.bad("timeout-too-early", "%s: requests failed %v after the last send, before the read timeout", name, time.Since(start))
			}
			time.Sleep(rt/1000 + 2*time.Nanosecond)
			synctest.Wait()
			env.quiesce()
			for _, c := range []*rcCall{c1, c2} {
				r, ok := c.first()
				if !ok {
					rep.bad("silent-server-not-detected", "%s: %s still waiting %v after the last request was sent", name, c.tag, time.Since(start))
				} else if _, isSrv := r.Error.(ServerError); !isSrv {
					rep.bad("silent-server-wrong-error", "%s: %s completed with %v, not a connection-level error", name, c.tag, r.Error)
				}
			}
			o.flush(name, env)
		})
		rep.Distinct++
	}

	// ---- B2. the server answers ONE of several outstanding requests some time after the last one was sent, then goes silent:
	// the timeout still runs from the last request SENT - an answer is no reason to wait longer for the others
	for _, rt := range []time.Duration{time.Second, 30 * time.Second} {
		for _, batched := range []bool{false, true} {
			name := fmt.Sprintf("B2/one-answer-then-silence/rt=%v/batched=%v", rt, batched)
			verifsim.Bubble(t, func(t *testing.T) {
				opts := rcOpts{queueSize: 1, readTimeout: rt}
				if batched {
					opts = rcOpts{queueSize: 2, flushInterval: time.Millisecond, readTimeout: rt}
				}
				env := newRCEnv(opts)
				defer env.finish()
				c1 := env.newCall("b1", "get", false)
				c2 := env.newCall("b2", "put", false)
				c3 := env.newCall("b3", "get", false)
				env.goQueue(c1)
				synctest.Wait()
				req1 := <-env.reqs
				time.Sleep(rt / 10)
				env.goQueue(c2)
				synctest.Wait()
				time.Sleep(rt / 10)
				env.goQueue(c3) // the last request sent: the timeout runs from here
				synctest.Wait()
				start := time.Now()
				time.Sleep(rt * 3 / 4)
				env.respondOK(req1, 1, false) // b1 is answered three quarters of the timeout later ...
				synctest.Wait()
				time.Sleep(rt/4 - rt/1000) // ... and nothing else ever
				synctest.Wait()
				if env.isDone() {
					rep.bad("timeout-too-early", "%s: the connection was failed %v after the last send, before the read timeout", name, time.Since(start))
				}
				time.Sleep(rt/1000 + 2*time.Nanosecond)
				synctest.Wait()
				env.quiesce()
				for _, c := range []*rcCall{c2, c3} {
					r, ok := c.first()
					if !ok {
						rep.bad("silent-server-not-detected", "%s: %s still waiting %v after the last request was sent (the server answered another request "+
							"%v after it and has been silent since)", name, c.tag, time.Since(start), rt*3/4)
					} else if _, isSrv := r.Error.(ServerError); !isSrv {
						rep.bad("silent-server-wrong-error", "%s: %s completed with %v, not a connection-level error", name, c.tag, r.Error)
					}
				}
				time.Sleep(2 * rt)
				synctest.Wait()
				o.flush(name, env)
			})
			rep.Distinct++
		}
	}

	// ---- E. a request that cannot be serialised (no row key: a required field) fails alone - nothing was sent, nothing is
	// outstanding, the connection stays. The request after it is watched like any other: a silent server is detected one
	// timeout after it was sent.
	for _, batched := range []bool{false, true} {
		name := fmt.Sprintf("E/unserialisable-request-then-silence/batched=%v", batched)
		verifsim.Bubble(t, func(t *testing.T) {
			rt := time.Second
			opts := rcOpts{queueSize: 1, readTimeout: rt}
			if batched {
				opts = rcOpts{queueSize: 2, flushInterval: time.Millisecond, readTimeout: rt}
			}
			env := newRCEnv(opts)
			defer env.finish()
			var bo []func(hrpc.Call) error
			if !batched {
				bo = append(bo, hrpc.SkipBatch())
			}
			bad, err := hrpc.NewGet(context.Background(), []byte("t"), nil, bo...)
			if err != nil {
				rep.bad("harness:c18-e", "%s: %v", name, err)
				return
			}
			bad.SetRegion(env.regionFor("x"))
			go env.c.QueueRPC(bad)
			time.Sleep(10 * time.Millisecond)
			synctest.Wait()
			select {
			case r := <-bad.ResultChan():
				if r.Error == nil {
					rep.bad("harness:c18-e", "%s: the request without a row key was accepted", name)
				}
			default:
				rep.bad("harness:c18-e", "%s: the request without a row key got no result", name)
			}
			if env.isDone() {
				return // (a client that gives the connection up over it is within its rights)
			}
			c2 := env.newCall("e2", "get", batched)
			env.goQueue(c2)
			synctest.Wait()
			start := time.Now()
			time.Sleep(rt + rt/100)
			synctest.Wait()
			env.quiesce()
			if r, ok := c2.first(); !ok {
				rep.bad("silent-server-not-detected", "%s: e2 still waiting %v after it was sent to a silent server (a request that could not be serialised "+
					"had been refused on that connection before)", name, time.Since(start))
			} else if _, isSrv := r.Error.(ServerError); !isSrv {
				rep.bad("silent-server-wrong-error", "%s: e2 completed with %v, not a connection-level error", name, r.Error)
			}
			time.Sleep(2 * rt)
			synctest.Wait()
			o.flush(name, env)
		})
		rep.Distinct++
	}

	// ---- F. the caller of a request gives up while the request is being written: the request is sent all the same and the
	// server answers it (nobody waits for the answer any more) - request and answer count like any other pair. The connection
	// then lies idle and is left alone; a request sent later, which the server never answers, is detected one timeout after
	// it was sent.
	for _, second := range []string{"get", "put"} {
		name := fmt.Sprintf("F/caller-gone-while-its-request-is-written-then-silence/second=%s", second)
		verifsim.Bubble(t, func(t *testing.T) {
			rt := time.Second
			var f1 *rcCall
			var envp atomic.Pointer[rcEnv]
			var once atomic.Bool
			env := newRCEnv(rcOpts{queueSize: 1, readTimeout: rt, onHook: func(point string, arg any) {
				if e := envp.Load(); e != nil && point == "send.written" && once.CompareAndSwap(false, true) {
					e.cancelCall(f1)
				}
			}})
			defer env.finish()
			f1 = env.newCall("f1", "get", false)
			envp.Store(env)
			env.goQueue(f1)
			synctest.Wait()
			select {
			case req := <-env.reqs:
				env.respondOK(req, 1, false)
			default:
				rep.bad("harness:c18-f", "%s: f1 did not reach the server", name)
				return
			}
			synctest.Wait()
			time.Sleep(3 * rt)
			synctest.Wait()
			if env.isDone() {
				rep.bad("idle-connection-killed", "%s: the connection was given up while it lay idle (its only request had been answered)", name)
				return
			}
			f2 := env.newCall("f2", second, false)
			env.goQueue(f2)
			synctest.Wait()
			start := time.Now()
			time.Sleep(rt + rt/100)
			synctest.Wait()
			env.quiesce()
			if r, ok := f2.first(); !ok {
				rep.bad("silent-server-not-detected", "%s: f2 still waiting %v after it was sent to a silent server (the caller of the request before it "+
					"had given up while that request was written; the server answered it)", name, time.Since(start))
			} else if _, isSrv := r.Error.(ServerError); !isSrv {
				rep.bad("silent-server-wrong-error", "%s: f2 completed with %v, not a connection-level error", name, r.Error)
			}
			time.Sleep(2 * rt)
			synctest.Wait()
			o.flush(name, env)
		})
		rep.Distinct++
	}

	// ---- C. random interleavings
	for k := 0; k < nrand; k++ {
		rng := rand.New(rand.NewSource(seed*1000003 + int64(k)))
		rt := []time.Duration{time.Second, 5 * time.Second, 30 * time.Second}[rng.Intn(3)]
		q := 1 + rng.Intn(3)
		fi := []time.Duration{0, time.Microsecond * 200}[rng.Intn(2)]
		name := fmt.Sprintf("C/%d/rt=%v/q=%d/fi=%v", k, rt, q, fi)
		verifsim.Bubble(t, func(t *testing.T) {
			jrng := rand.New(rand.NewSource(seed*7777 + int64(k)))
			var jmu sync.Mutex
			jitter := func(point string, arg any) { // outside every lock: send.* and recv.* hook points
				switch point {
				case "send.written", "send.registered", "recv.unregistered":
					jmu.Lock()
					d := time.Duration(0)
					if jrng.Intn(2) == 0 {
						d = time.Duration(jrng.Intn(300)) * time.Microsecond
					}
					jmu.Unlock()
					time.Sleep(d)
				}
			}
			env := newRCEnv(rcOpts{queueSize: q, flushInterval: fi, readTimeout: rt, onHook: jitter})
			defer env.finish()
			var pendingReqs []*verifsim.Request
			drain := func() {
				for {
					select {
					case r := <-env.reqs:
						pendingReqs = append(pendingReqs, r)
					default:
						return
					}
				}
			}
			nops := 4 + rng.Intn(10)
			ncall := 0
			var live []*rcCall
			for op := 0; op < nops && !env.isDone(); op++ {
				switch x := rng.Intn(10); {
				case x < 5: // submit
					ncall++
					c := env.newCall(fmt.Sprintf("c%02d", ncall), []string{"get", "put"}[rng.Intn(2)], q > 1 && rng.Intn(3) > 0)
					live = append(live, c)
					env.goQueue(c)
				case x < 8: // answer one pending request, any order
					drain()
					if len(pendingReqs) > 0 {
						j := rng.Intn(len(pendingReqs))
						req := pendingReqs[j]
						pendingReqs = append(pendingReqs[:j], pendingReqs[j+1:]...)
						if req.Method == "Multi" {
							env.respondMulti(req, multiPlan{inCB: rng.Intn(2) == 0, ncells: func(string) int { return rng.Intn(3) }})
						} else {
							env.respondOK(req, rng.Intn(3), rng.Intn(2) == 0)
						}
					}
				case x < 9 && len(live) > 0: // end a context
					env.cancelCall(live[rng.Intn(len(live))])
				}
				if rng.Intn(2) == 0 {
					time.Sleep(time.Duration(rng.Intn(400)) * time.Microsecond)
				}
			}
			// answer everything that is still unanswered, then the connection must be idle
			rcSettle()
			if !env.isDone() {
				drain()
				for _, req := range pendingReqs {
					if req.Method == "Multi" {
						env.respondMulti(req, multiPlan{})
					} else {
						env.respondOK(req, 1, false)
					}
				}
				pendingReqs = nil
				rcSettle()
				drain()
				for _, req := range pendingReqs { // requests flushed meanwhile
					if req.Method == "Multi" {
						env.respondMulti(req, multiPlan{})
					} else {
						env.respondOK(req, 1, false)
					}
				}
				rcSettle()
			}
			if env.isDone() {
				rep.bad("conn-died-with-responsive-server", "%s: the connection failed although every request was answered within the read timeout", name)
			} else {
				env.quiesce()
				c18idleThenUse(env, rep, name, rt, rcSettle)
			}
			o.flush(name, env)
			if k < 2 {
				rep.Samples = append(rep.Samples, map[string]any{"scenario": name, "events": env.tr.Len()})
			}
		})
		rep.Distinct++
	}
	_ = context.Background
}

// rcClearRacesWithSend forces, in real time, the TLC counter-example of MC_RegionClient_c18_nonatomicdown: the reader has
// just counted the last outstanding response down to zero and is about to clear the read deadline while another request
// is sent; the server then stays silent. The request that is outstanding must be completed by the read timeout (sig names
// the violation for the property on whose behalf the schedule runs).
func rcClearRacesWithSend(name string, batched bool, rep *rcReport, o *rcOut, sig string) {
	rt := 400 * time.Millisecond
	var hold atomic.Bool
	held, release := make(chan struct{}), make(chan struct{})
	hook := func(op verifsim.Op) *verifsim.Fault {
		if op.Kind == verifsim.OpReadDeadline && op.Time.IsZero() && hold.CompareAndSwap(true, false) {
			close(held)
			<-release
		}
		return nil
	}
	opts := rcOpts{queueSize: 1, readTimeout: rt, hook: hook}
	if batched {
		opts = rcOpts{queueSize: 2, flushInterval: time.Millisecond, readTimeout: rt, hook: hook}
	}
	env := newRCEnv(opts)
	c1 := env.newCall("r1", "get", batched)
	env.goQueue(c1)
	var req *verifsim.Request
	select {
	case req = <-env.reqs:
	case <-time.After(5 * time.Second):
		rep.bad("harness:a2", "%s: the first request never reached the server", name)
		return
	}
	time.Sleep(20 * time.Millisecond) // the sender is through inFlightUp
	hold.Store(true)
	if batched {
		env.respondMulti(req, multiPlan{})
	} else {
		env.respondOK(req, 1, false)
	}
	select {
	case <-held:
	case <-time.After(5 * time.Second):
		rep.bad("harness:a2", "%s: the reader never cleared the deadline", name)
		return
	}
	c2 := env.newCall("r2", "get", batched)
	env.goQueue(c2) // written; its inFlightUp waits for the mutex (or, without one, arms the deadline right away)
	time.Sleep(100 * time.Millisecond)
	close(release)
	time.Sleep(100 * time.Millisecond)
	select {
	case <-env.reqs: // r2 is at the server, which stays silent
	default:
	}
	env.quiesce() // r2 outstanding: the deadline must be armed
	t0 := time.Now()
	for time.Since(t0) < 10*rt && c2.count() == 0 {
		time.Sleep(10 * time.Millisecond)
	}
	if c2.count() == 0 {
		rep.bad(sig, "%s: r2 is outstanding on a silent server and was not failed after %v (read timeout %v)", name, time.Since(t0), rt)
	}
	o.flush(name, env)
	env.c.Close()
	env.srv.Close()
	close(env.stop)
}
