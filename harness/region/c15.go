package region

// C15 conformance driver: TLC-generated block-stream vectors (Gen_BlockStream)
// replayed into the real compressor with the specification's mock codec, and a
// structure / round-trip check with the real snappy codec at real chunk size.

import (
	"bufio"
	"bytes"
	"encoding/binary"
	"encoding/json"
	"errors"
	"fmt"
	"math/rand"
	"net"
	"os"
	"strconv"
	"testing"

	gsnappy "github.com/golang/snappy"
	"github.com/tsuna/gohbase/compression/snappy"
)

// c15mock is BlockStream.tla's codec: tag byte 200+|x|, then every byte + 1.
type c15mock struct{ k uint32 }

func (m c15mock) Encode(src, dst []byte) ([]byte, uint32) {
	dst = append(dst, byte(200+len(src)))
	for _, b := range src {
		dst = append(dst, b+1)
	}
	return dst, uint32(len(src) + 1)
}
func (m c15mock) Decode(src, dst []byte) ([]byte, uint32, error) {
	if len(src) < 1 || src[0] != byte(200+len(src)-1) {
		return nil, 0, errors.New("mock codec: bad tag")
	}
	for _, b := range src[1:] {
		dst = append(dst, b-1)
	}
	return dst, uint32(len(src) - 1), nil
}
func (m c15mock) ChunkLen() uint32                 { return m.k }
func (m c15mock) CellBlockCompressorClass() string { return "mock" }

func c15b(x []int) []byte {
	b := make([]byte, len(x))
	for i, v := range x {
		b[i] = byte(v)
	}
	return b
}

func c15read[T any](path string) []T {
	fh, err := os.Open(path)
	if err != nil {
		panic(err)
	}
	defer fh.Close()
	var out []T
	sc := bufio.NewScanner(fh)
	sc.Buffer(make([]byte, 1<<20), 1<<24)
	for sc.Scan() {
		var v T
		if err := json.Unmarshal(sc.Bytes(), &v); err != nil {
			panic(err)
		}
		out = append(out, v)
	}
	return out
}

// hadoopRead is the harness's own reader of the block-compressed stream
// format, parameterised by a chunk decoder. It also returns the structure.
type c15block struct {
	RawLen int
	Chunks []int // decoded sizes
}

func hadoopRead(b []byte, dec func([]byte) ([]byte, error)) ([]byte, []c15block, error) {
	var out []byte
	var blocks []c15block
	for len(b) > 0 {
		if len(b) < 4 {
			return nil, nil, errors.New("truncated block length")
		}
		raw := int(binary.BigEndian.Uint32(b))
		b = b[4:]
		blk := c15block{RawLen: raw}
		got := 0
		for got < raw {
			if len(b) < 4 {
				return nil, nil, errors.New("truncated chunk length")
			}
			cl := int(binary.BigEndian.Uint32(b))
			b = b[4:]
			if cl > len(b) {
				return nil, nil, errors.New("truncated chunk")
			}
			d, err := dec(b[:cl])
			if err != nil {
				return nil, nil, err
			}
			b = b[cl:]
			out = append(out, d...)
			got += len(d)
			blk.Chunks = append(blk.Chunks, len(d))
		}
		if got != raw {
			return nil, nil, errors.New("block decodes to more than announced")
		}
		blocks = append(blocks, blk)
	}
	return out, blocks, nil
}

func TestVerifC15(t *testing.T) {
	in, out := os.Getenv("VERIF_IN"), os.Getenv("VERIF_OUT")
	if in == "" || out == "" {
		t.Skip("VERIF_IN / VERIF_OUT not set")
	}
	seed, _ := strconv.ParseInt(os.Getenv("VERIF_SEED"), 10, 64)
	nrand, _ := strconv.Atoi(os.Getenv("VERIF_N"))
	rng := rand.New(rand.NewSource(seed))
	var viol []map[string]any
	evals, distinct := 0, 0
	var samples []any
	bad := func(sig, f string, a ...any) {
		if len(viol) < 40 {
			viol = append(viol, map[string]any{"sig": sig, "desc": fmt.Sprintf(f, a...)})
		}
	}
	mockDec := func(k uint32) func([]byte) ([]byte, error) {
		return func(c []byte) ([]byte, error) { d, _, err := c15mock{k}.Decode(c, nil); return d, err }
	}

	// ---- 1. writer vectors: exact bytes, for 1..3 buffers
	type wv struct {
		K       int
		Payload []int
		Stream  []int
	}
	for _, v := range c15read[wv](in + "/c15_writer.ndjson") {
		distinct++
		p := c15b(v.Payload)
		want := c15b(v.Stream)
		comp := &compressor{Codec: c15mock{uint32(v.K)}}
		for split := 0; split < 4; split++ {
			var bufs net.Buffers
			switch {
			case split == 0 || len(p) < 2:
				bufs = net.Buffers{append([]byte{}, p...)}
			case split == 1:
				bufs = net.Buffers{append([]byte{}, p[:1]...), append([]byte{}, p[1:]...)}
			case split == 2:
				h := len(p) / 2
				bufs = net.Buffers{append([]byte{}, p[:h]...), {}, append([]byte{}, p[h:]...)}
			default:
				a, b := len(p)/3, 2*len(p)/3
				bufs = net.Buffers{append([]byte{}, p[:a]...), append([]byte{}, p[a:b]...), append([]byte{}, p[b:]...)}
			}
			evals++
			func() {
				defer func() {
					if r := recover(); r != nil {
						bad("compress-panic", "compressCellblocks panicked for K=%d payload %d bytes: %v", v.K, len(p), r)
					}
				}()
				got := comp.compressCellblocks(bufs, uint32(len(p)))
				if !bytes.Equal(got, want) {
					bad("compress-bytes", "K=%d payload=%v in %d buffers: stream %v, specification says %v", v.K, p, len(bufs), got, want)
				}
				back, err := comp.decompressCellblocks(append([]byte{}, got...))
				if err != nil || !bytes.Equal(back, p) {
					bad("roundtrip", "K=%d payload=%v: client reads back %v (err %v)", v.K, p, back, err)
				}
				ind, _, err := hadoopRead(got, mockDec(uint32(v.K)))
				if err != nil || !bytes.Equal(ind, p) {
					bad("roundtrip-independent", "K=%d payload=%v: independent reader gets %v (err %v) from the client's stream", v.K, p, ind, err)
				}
			}()
		}
	}

	// ---- 2. reader vectors: verdict for verdict
	type rv struct {
		Stream []int
		Ok     bool
		Out    []int
	}
	rvs := c15read[rv](in + "/c15_reader.ndjson")
	hugeRun := 0
	hugeBlock := func(s []byte) bool { // would the reader meet a block length >= 64 MiB?
		for len(s) >= 4 {
			bl := int(binary.BigEndian.Uint32(s))
			if bl >= 1<<26 {
				return true
			}
			s = s[4:]
			for got := 0; got < bl; {
				if len(s) < 4 {
					return false
				}
				cl := int(binary.BigEndian.Uint32(s))
				s = s[4:]
				if cl > len(s) || cl == 0 {
					return false
				}
				got += cl - 1
				s = s[cl:]
			}
		}
		return false
	}
	for i, v := range rvs {
		distinct++
		evals++
		s := c15b(v.Stream)
		comp := &compressor{Codec: c15mock{3}}
		if hugeBlock(s) {
			// a damaged block length >= 64 MiB makes the reader reserve that much memory (slow, not a verdict
			// this property asks for); three such vectors are enough to see the error path
			if hugeRun++; hugeRun > 3 {
				continue
			}
		}
		func() {
			defer func() {
				if r := recover(); r != nil {
					bad("decompress-panic", "decompressCellblocks panicked on %v: %v", s, r)
				}
			}()
			got, err := comp.decompressCellblocks(append([]byte{}, s...))
			if v.Ok {
				if err != nil {
					bad("reader-rejects-conforming", "stream %v is a conforming stream of %v but the client reports %v", s, c15b(v.Out), err)
				} else if !bytes.Equal(got, c15b(v.Out)) {
					bad("reader-wrong-data", "stream %v decodes to %v, specification says %v", s, got, c15b(v.Out))
				}
			} else if err == nil {
				bad("reader-accepts-corrupt", "stream %v is not a conforming stream but the client returns %v without error", s, got)
			}
			// the harness's own reader must agree with the specification too
			ind, _, ierr := hadoopRead(s, mockDec(3))
			if v.Ok != (ierr == nil) || (v.Ok && !bytes.Equal(ind, c15b(v.Out))) {
				panic(fmt.Sprintf("harness reader disagrees with the specification on %v: %v %v", s, ind, ierr))
			}
		}()
		if i%997 == 0 && len(samples) < 4 {
			samples = append(samples, map[string]any{"stream": v.Stream, "ok": v.Ok, "out": v.Out})
		}
	}

	// ---- 2b. the codec in the connection: concurrent senders and a pooled stream buffer. What the server decompresses for
	// every request must be that request's cells; what the client decompresses must be that caller's cells.
	for k := 0; k < 2; k++ {
		wrong, wire := rcStressWith(12, 1500, snappy.New(), true)
		for _, w := range wire {
			bad("compressed-stream-on-the-wire", "12 concurrent senders x 1500 requests (puts and gets) on one snappy connection: %s", w)
		}
		for _, w := range wrong {
			bad("compressed-stream-to-the-caller", "12 concurrent senders x 1500 requests (puts and gets) on one snappy connection: %s", w)
		}
		distinct++
		evals++
	}

	// ---- 3. real snappy: structure at real chunk size, both directions
	type sv struct {
		Len, BlockLen int
		Chunks        []int
	}
	snapDec := func(c []byte) ([]byte, error) { return gsnappy.Decode(nil, c) }
	comp := &compressor{Codec: snappy.New()}
	structs := c15read[sv](in + "/c15_struct.ndjson")
	lens := []sv{}
	lens = append(lens, structs...)
	K := int(snappy.New().ChunkLen())
	for i := 0; i < nrand; i++ { // random sizes: the expected structure follows the same rule
		l := rng.Intn(3*K + 100)
		e := sv{Len: l, BlockLen: l}
		for r := l; r > 0; r -= K {
			if r < K {
				e.Chunks = append(e.Chunks, r)
			} else {
				e.Chunks = append(e.Chunks, K)
			}
		}
		lens = append(lens, e)
	}
	for _, v := range lens {
		distinct++
		evals++
		p := make([]byte, v.Len)
		if rng.Intn(2) == 0 {
			rng.Read(p)
		} else {
			for i := range p {
				p[i] = byte(i / 7)
			}
		}
		a := 0
		if v.Len > 0 {
			a = rng.Intn(v.Len)
		}
		bufs := net.Buffers{append([]byte{}, p[:a]...), append([]byte{}, p[a:]...)}
		got := comp.compressCellblocks(bufs, uint32(len(p)))
		ind, blocks, err := hadoopRead(got, snapDec)
		if err != nil || !bytes.Equal(ind, p) {
			bad("snappy-roundtrip-independent", "len=%d: independent Hadoop reader cannot read the client's stream back: %v", v.Len, err)
			continue
		}
		if len(blocks) > 1 || (len(blocks) == 1 && (blocks[0].RawLen != v.BlockLen || fmt.Sprint(blocks[0].Chunks) != fmt.Sprint(v.Chunks))) ||
			(len(blocks) == 0 && (v.Len != 0 || len(got) != 4)) {
			bad("snappy-structure", "len=%d: stream structure %v, specification says one block of %d with chunks %v", v.Len, blocks, v.BlockLen, v.Chunks)
		}
		back, err := comp.decompressCellblocks(append([]byte{}, got...))
		if err != nil || !bytes.Equal(back, p) {
			bad("snappy-roundtrip", "len=%d: client cannot read its own stream back: %v", v.Len, err)
		}
		// a conforming server's stream: several blocks, arbitrary chunk sizes
		var srv []byte
		rest := p
		for first := true; len(rest) > 0 || first; first = false {
			bl := len(rest)
			if bl > 0 && rng.Intn(2) == 0 {
				bl = 1 + rng.Intn(len(rest))
			}
			srv = binary.BigEndian.AppendUint32(srv, uint32(bl))
			blk := rest[:bl]
			rest = rest[bl:]
			for len(blk) > 0 {
				cl := len(blk)
				if rng.Intn(2) == 0 {
					cl = 1 + rng.Intn(len(blk))
				}
				// the server's chunk limit is its own (Hadoop: buffer size minus the codec's overhead - 218 422 bytes for the
				// default 256 KiB buffer, more for a larger one), not the client's
				if srvMax := []int{K + 1, 2*K + 3, 1 << 30}[(v.Len+len(srv))%3]; cl > srvMax {
					cl = srvMax
				}
				enc := gsnappy.Encode(nil, blk[:cl])
				srv = binary.BigEndian.AppendUint32(srv, uint32(len(enc)))
				srv = append(srv, enc...)
				blk = blk[cl:]
			}
		}
		back, err = comp.decompressCellblocks(srv)
		if err != nil || !bytes.Equal(back, p) {
			bad("snappy-server-stream", "len=%d: client cannot read a conforming multi-block server stream: %v", v.Len, err)
		}
		if v.Len > K {
			// ... and the whole payload as ONE chunk of a server whose buffer is large enough (for K+1: Hadoop's default)
			enc := gsnappy.Encode(nil, p)
			one := binary.BigEndian.AppendUint32(nil, uint32(len(p)))
			one = binary.BigEndian.AppendUint32(one, uint32(len(enc)))
			one = append(one, enc...)
			back, err = comp.decompressCellblocks(one)
			if err != nil || !bytes.Equal(back, p) {
				bad("snappy-server-stream", "len=%d: client cannot read a conforming server stream whose single chunk holds %d bytes: %v", v.Len, v.Len, err)
			}
		}
		// truncations / corruptions of the length fields: error or the same payload, never other data
		if len(got) > 8 {
			for k := 0; k < 6; k++ {
				c := append([]byte{}, got...)
				switch k % 3 {
				case 0:
					c = c[:rng.Intn(len(c))]
				case 1:
					c[3]++ // block length + 1
				case 2:
					c[7]-- // first chunk length - 1
				}
				evals++
				func() {
					defer func() {
						if r := recover(); r != nil {
							bad("decompress-panic", "decompressCellblocks panicked on a damaged snappy stream (len %d, damage %d): %v", v.Len, k%3, r)
						}
					}()
					back, err := comp.decompressCellblocks(c)
					if err == nil && !bytes.Equal(back, p) && !(k%3 == 0 && len(c) == 0) {
						if _, _, ierr := hadoopRead(c, snapDec); ierr != nil {
							bad("snappy-accepts-corrupt", "len=%d damage=%d: non-conforming stream accepted with wrong data", v.Len, k%3)
						}
					}
				}()
			}
		}
	}
	if len(structs) > 0 {
		samples = append(samples, map[string]any{"snappy_len": structs[len(structs)-1].Len, "chunks": structs[len(structs)-1].Chunks})
	}
	res := map[string]any{"evaluations": evals, "distinct": distinct, "violations": viol, "samples": samples,
		"reader_vectors": len(rvs), "huge_skipped": hugeRun - 3, "struct_vectors": len(structs), "random_sizes": nrand}
	rb, _ := json.Marshal(res)
	os.WriteFile(out+"/c15_result.json", rb, 0o644)
}
