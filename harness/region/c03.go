package region

// C03 driver: a failing connection completes every outstanding request
// exactly once with a connection-level error; later requests are refused.
//
//  A. forced schedules taken from TLC behaviours of RegionClient.tla:
//     A1 (counter-example of MC_RegionClient_c03 on the pinned design):
//        Close() lands between the reader's unregister and its inFlightDown;
//     A2 fail() by the reader while a sender sits between register and write;
//     A3 fail() by Close while a sender's write has failed but it has not yet
//        unregistered (the "who completes the call" hand-over).
//  B. fault enumeration: for each workload the fault-free run is measured,
//     then the k-th operation on the connection fails, for every k and every
//     fault flavour (write failing after 0 / half of the bytes, read EOF, read
//     reset, deadline error, external Close at that point, server cutting the
//     connection in the middle of a response frame).
//  C. other ways to die: read timeout, undecodable frame, unknown call id,
//     server-fatal exception.
//  D. seeded random fault positions with jitter.

import (
	"bytes"
	"errors"
	"fmt"
	"math/rand"
	"os"
	"runtime"
	"strconv"
	"strings"
	"sync"
	"sync/atomic"
	"testing"
	"testing/synctest"
	"time"

	"github.com/tsuna/gohbase/hrpc"
	"github.com/tsuna/gohbase/internal/verifsim"
	"google.golang.org/protobuf/proto"
)

type c03workload struct {
	name  string
	q     int
	calls []c03spec // submitted in order, `gap` apart
	late  int       // how many further calls are submitted after the fault was seen
}
type c03spec struct {
	kind  string
	batch bool
	gap   time.Duration
}

var c03workloads = []c03workload{
	{"single-get", 1, []c03spec{{"get", false, 0}}, 1},
	{"single-put", 1, []c03spec{{"put", false, 0}}, 1},
	{"multi3", 3, []c03spec{{"get", true, 0}, {"put", true, 0}, {"get", true, 0}}, 1},
	{"mixed", 2, []c03spec{{"get", false, 0}, {"put", true, 0}, {"get", true, time.Millisecond}, {"put", false, 0}, {"get", true, 5 * time.Millisecond}}, 2},
	{"staggered", 2, []c03spec{{"get", true, 0}, {"get", false, 3 * time.Millisecond}, {"put", true, 30 * time.Millisecond}, {"get", true, 0}}, 1},
}

type c03fault struct {
	k       int    // operation index on the client end (1-based, includes the hello)
	flavour string // w0, whalf, eof, reset, deadline, deadline-soft, close
}

// c03run executes one workload with one fault (k = 0: none) and returns the number of conn operations seen.
func c03run(o *rcOut, name string, w c03workload, f c03fault, srvCutAfter int, jitterSeed int64) int {
	rep := o.rep
	var envp atomic.Pointer[rcEnv]
	var closeOnce sync.Once
	var faulted atomic.Bool
	hook := func(op verifsim.Op) *verifsim.Fault {
		if f.k == 0 || op.Index != f.k {
			return nil
		}
		faulted.Store(true)
		switch f.flavour {
		case "w0":
			if op.Kind == verifsim.OpWrite {
				return &verifsim.Fault{Err: verifsim.ErrInjected, Partial: 0, Break: true}
			}
		case "whalf":
			if op.Kind == verifsim.OpWrite {
				return &verifsim.Fault{Err: verifsim.ErrInjected, Partial: len(op.Data) / 2, Break: true}
			}
		case "w0-soft", "whalf-soft":
			// the write fails (nothing / half of it was taken) but the socket is not torn down by it - a write timeout, a full
			// buffer: a later write on it would go through. The connection has failed all the same.
			if op.Kind == verifsim.OpWrite {
				n := 0
				if f.flavour == "whalf-soft" {
					n = len(op.Data) / 2
				}
				return &verifsim.Fault{Err: verifsim.ErrInjected, Partial: n}
			}
		case "eof", "reset":
			if op.Kind == verifsim.OpRead {
				e := verifsim.ErrInjected
				if f.flavour == "eof" {
					e = errors.New("EOF (injected)")
				}
				return &verifsim.Fault{Err: e, Break: true}
			}
		case "deadline":
			if op.Kind == verifsim.OpReadDeadline || op.Kind == verifsim.OpWriteDeadline {
				return &verifsim.Fault{Err: verifsim.ErrInjected, Break: true}
			}
		case "deadline-soft": // only the deadline operation fails; reads and writes on the socket would still work
			if op.Kind == verifsim.OpReadDeadline || op.Kind == verifsim.OpWriteDeadline {
				return &verifsim.Fault{Err: verifsim.ErrInjected}
			}
		case "close":
			// an external Close racing with this operation (run on its own goroutine: Close must not be
			// called from inside the client's own critical sections)
			closeOnce.Do(func() {
				go envp.Load().c.Close()
			})
			return nil
		}
		faulted.Store(false)
		return nil
	}
	var jmu sync.Mutex
	var jrng *rand.Rand
	if jitterSeed != 0 {
		jrng = rand.New(rand.NewSource(jitterSeed))
	}
	onHook := func(point string, arg any) {
		if jrng == nil {
			return
		}
		switch point {
		case "send.written", "send.registered", "recv.unregistered", "trysend.failed":
			jmu.Lock()
			d := time.Duration(jrng.Intn(200)) * time.Microsecond
			jmu.Unlock()
			time.Sleep(d)
		}
	}
	nresp := 0
	auto := func(e *rcEnv, req *verifsim.Request) {
		nresp++
		if srvCutAfter > 0 && nresp == srvCutAfter {
			// the server dies in the middle of its response frame
			frame := verifsim.EncodeResponse(verifsim.Response{CallID: req.CallID})
			e.sc.SendRaw(frame[:len(frame)/2])
			e.srv.Break()
			return
		}
		go func() { // answer a little later, so that requests overlap
			time.Sleep(300 * time.Microsecond)
			if req.Method == "Multi" {
				e.respondMulti(req, multiPlan{inCB: true})
			} else {
				e.respondOK(req, 1, true)
			}
		}()
	}
	env := newRCEnv(rcOpts{queueSize: w.q, flushInterval: 2 * time.Millisecond, readTimeout: 30 * time.Second, hook: hook,
		onHook: onHook, auto: auto, maxRead: 5, bind: func(e *rcEnv) { envp.Store(e) }})
	n := 0
	submit := func(s c03spec) {
		n++
		c := env.newCall(fmt.Sprintf("k%02d", n), s.kind, s.batch)
		env.goQueue(c)
	}
	for _, s := range w.calls {
		if s.gap > 0 {
			time.Sleep(s.gap)
		}
		submit(s)
	}
	rcSettle()
	for i := 0; i < w.late; i++ { // arrivals after the failure (or simply later, if nothing failed)
		submit(c03spec{kind: []string{"get", "put"}[i%2], batch: i%2 == 1})
	}
	rcSettle()
	env.quiesce()
	ops := env.cli.Ops()
	if env.isDone() {
		// refused at once: no virtual time may pass
		t0 := time.Now()
		c := env.newCall("zref", "get", false)
		env.queue(c)
		synctest.Wait()
		if r, ok := c.first(); !ok {
			rep.bad("late-call-not-refused", "%s: a call handed to the dead connection was not completed at once", name)
		} else if _, isSrv := r.Error.(ServerError); !isSrv {
			rep.bad("late-call-wrong-error", "%s: a call handed to the dead connection got %v, not a connection-level error", name, r.Error)
		} else if time.Since(t0) != 0 {
			rep.bad("late-call-not-refused", "%s: refusing a call on a dead connection took %v", name, time.Since(t0))
		}
		c2 := env.newCall("zrefb", "get", true)
		env.queueBatch(c2.ctx, c2)
		synctest.Wait()
		if r, ok := c2.first(); !ok {
			rep.bad("late-call-not-refused", "%s: a batch handed to the dead connection was not completed at once", name)
		} else if _, isSrv := r.Error.(ServerError); !isSrv {
			rep.bad("late-call-wrong-error", "%s: a batch handed to the dead connection got %v", name, r.Error)
		}
		if !env.cli.IsClosed() {
			rep.bad("conn-left-open", "%s: the client is done but its socket was not closed", name)
		}
		env.quiesce()
	} else if faulted.Load() && strings.HasPrefix(f.flavour, "w") {
		// "if the connection fails at any point - while writing a request ...": a write that failed (all of it or from the
		// middle of a frame on) is the connection failing, whether or not the socket would take another write
		rep.bad("write-failure-ignored", "%s: operation %d on the connection, a write, failed (%s) and the client went on using the connection: "+
			"it is not closed, %d of its calls are not completed with a connection-level error", name, f.k, f.flavour, len(env.pendingLive()))
	} else if f.k == 0 && srvCutAfter == 0 {
		for _, c := range env.calls {
			if r, ok := c.first(); !ok || r.Error != nil {
				rep.bad("fault-free-run-failed", "%s: %s did not succeed without any fault: %v", name, c.tag, r.Error)
			}
		}
	}
	o.flush(name, env)
	env.finish()
	return ops
}

func TestVerifC03(t *testing.T) {
	if os.Getenv("VERIF_OUT") == "" {
		t.Skip("VERIF_OUT not set")
	}
	seed, _ := strconv.ParseInt(os.Getenv("VERIF_SEED"), 10, 64)
	nrand, _ := strconv.Atoi(os.Getenv("VERIF_N"))
	full := os.Getenv("VERIF_TIER") == "thorough"
	o, done := rcOpen(t, "c03_result.json")
	defer done()
	rep := o.rep

	// ---- A1: Close() between the reader's unregister and its inFlightDown
	for _, batched := range []bool{false, true} {
		name := fmt.Sprintf("A1/close-between-unregister-and-inflightdown/batched=%v", batched)
		verifsim.Bubble(t, func(t *testing.T) {
			q := 1
			if batched {
				q = 2
			}
			env := newRCEnv(rcOpts{queueSize: q})
			c1 := env.newCall("a1", "get", batched)
			env.goQueue(c1)
			rcSettle()
			g := env.gates.arm("recv.unregistered")
			req := <-env.reqs
			if batched {
				env.respondMulti(req, multiPlan{})
			} else {
				env.respondOK(req, 1, false)
			}
			<-g.parked    // the reader has removed the call from the sent map
			env.c.Close() // close(done), conn.Close(), failSentRPCs (finds nothing)
			close(g.release)
			rcSettle()
			env.quiesce()
			o.flush(name, env)
			env.finish()
		})
		rep.Distinct++
	}
	// ---- A2: the reader fails the client while a sender sits between register and write
	for _, kind := range []string{"get", "put"} {
		name := "A2/reader-fails-between-register-and-write/" + kind
		verifsim.Bubble(t, func(t *testing.T) {
			env := newRCEnv(rcOpts{queueSize: 1})
			g := env.gates.arm("send.registered")
			c1 := env.newCall("a2", kind, false)
			env.goQueue(c1)
			<-g.parked
			env.srv.Break() // the reader sees EOF and runs fail(): done, close, swap (takes a2), deliver
			rcSettle()
			close(g.release) // the sender now writes on a closed conn, fails, must not complete a2 a second time
			rcSettle()
			env.quiesce()
			o.flush(name, env)
			env.finish()
		})
		rep.Distinct++
	}
	// ---- A3: Close() runs completely between a sender's failed write and its unregister
	name := "A3/close-between-failed-write-and-unregister"
	verifsim.Bubble(t, func(t *testing.T) {
		var env *rcEnv
		hook := func(op verifsim.Op) *verifsim.Fault {
			if op.Kind == verifsim.OpWrite && !bytes.HasPrefix(op.Data, []byte("HBas")) {
				return &verifsim.Fault{Err: verifsim.ErrInjected, Break: false}
			}
			return nil
		}
		env = newRCEnv(rcOpts{queueSize: 1, hook: hook})
		g := env.gates.arm("trysend.failed") // after fail(err) ran in the sender, before unregisterRPC
		c1 := env.newCall("a3", "get", false)
		env.goQueue(c1)
		<-g.parked
		env.c.Close()
		close(g.release)
		rcSettle()
		env.quiesce()
		o.flush(name, env)
		env.finish()
	})
	rep.Distinct++

	// ---- A4: the TLC behaviour "sender between the done check and registerRPC while fail() runs": the sender is held while it
	// serialises the request (after QueueRPC saw the client alive, before registerRPC), Close() is held inside conn.Close, the
	// sender goes on (registers, writes on the still open socket), then Close() finishes. The call must be completed.
	for _, kind := range []string{"get", "put", "get-batched"} {
		name := "A4/sender-registers-while-close-is-inside-conn.Close/" + kind
		verifsim.Bubble(t, func(t *testing.T) {
			closeHeld, closeGo := make(chan struct{}), make(chan struct{})
			var holdClose atomic.Bool
			hook := func(op verifsim.Op) *verifsim.Fault {
				if op.Kind == verifsim.OpClose && holdClose.CompareAndSwap(true, false) {
					close(closeHeld)
					<-closeGo
				}
				return nil
			}
			env := newRCEnv(rcOpts{queueSize: 1, hook: hook})
			serialising, goOn := make(chan struct{}), make(chan struct{})
			var c1 *rcCall
			if kind == "get-batched" { // the sender is the batcher goroutine, serialising its multi
				env.finish()
				env = newRCEnv(rcOpts{queueSize: 2, flushInterval: time.Millisecond, hook: hook})
				c1 = env.newCall("a4", "get", true)
				c1.call = &c03gatedGet{Get: c1.call.(*hrpc.Get), gate: func() { close(serialising); <-goOn }}
			} else {
				c1 = env.newCall("a4", kind, false)
				c1.call = &c03gated{Call: c1.call, gate: func() { close(serialising); <-goOn }}
			}
			env.goQueue(c1)
			<-serialising // past the done check, not yet registered
			holdClose.Store(true)
			go env.c.Close()
			<-closeHeld // done is closed; fail() is inside conn.Close()
			close(goOn) // the sender registers and writes
			time.Sleep(10 * time.Millisecond)
			close(closeGo)
			rcSettle()
			env.quiesce()
			o.flush(name, env)
			env.finish()
		})
		rep.Distinct++
	}

	// ---- A6: as A4, but Close() runs to COMPLETION while the sender serialises: done closed, socket closed, the sent map
	// swapped - all before the call registers. The sender then registers, its write fails on the closed socket, fail() is
	// already spent: the sender itself must complete the call (nobody else will).
	for _, kind := range []string{"get", "put", "scan", "get-batched"} {
		name := "A6/close-completes-while-the-sender-serialises/" + kind
		verifsim.Bubble(t, func(t *testing.T) {
			serialising, goOn := make(chan struct{}), make(chan struct{})
			var env *rcEnv
			var c1 *rcCall
			if kind == "get-batched" {
				env = newRCEnv(rcOpts{queueSize: 2, flushInterval: time.Millisecond})
				c1 = env.newCall("a6", "get", true)
				c1.call = &c03gatedGet{Get: c1.call.(*hrpc.Get), gate: func() { close(serialising); <-goOn }}
			} else {
				q := 1
				if kind == "scan" { // a call that is never batched, on a batching client
					q = 3
				}
				env = newRCEnv(rcOpts{queueSize: q, flushInterval: time.Millisecond})
				k := kind
				if kind == "scan" {
					k = "get"
				}
				c1 = env.newCall("a6", k, false)
				c1.call = &c03gated{Call: c1.call, gate: func() { close(serialising); <-goOn }}
			}
			env.goQueue(c1)
			<-serialising // past the done check, not yet registered
			env.c.Close()
			rcSettle()
			close(goOn)
			rcSettle()
			env.quiesce()
			o.flush(name, env)
			env.finish()
		})
		rep.Distinct++
	}

	// ---- A5 (real time, outside the bubble: a client that deadlocks on one of its own mutexes would stall virtual time): a
	// sender's SetReadDeadline (inFlightUp) fails while the reader sits between unregistering a response's call and
	// inFlightDown. Both calls must be completed: the answered one is the reader's to deliver.
	for _, batched := range []bool{false, true} {
		name := fmt.Sprintf("A5/deadline-op-fails-in-sender-while-reader-holds-a-response/batched=%v", batched)
		func() {
			var failNext atomic.Bool
			hook := func(op verifsim.Op) *verifsim.Fault {
				if op.Kind == verifsim.OpReadDeadline && !op.Time.IsZero() && failNext.CompareAndSwap(true, false) {
					return &verifsim.Fault{Err: verifsim.ErrInjected}
				}
				return nil
			}
			opts := rcOpts{queueSize: 1, hook: hook}
			if batched {
				opts = rcOpts{queueSize: 2, flushInterval: time.Millisecond, hook: hook}
			}
			env := newRCEnv(opts)
			c1 := env.newCall("a5x", "get", batched)
			env.goQueue(c1)
			var req *verifsim.Request
			select {
			case req = <-env.reqs:
			case <-time.After(5 * time.Second):
				rep.bad("harness:a5", "%s: the first request never reached the server", name)
				return
			}
			g := env.gates.arm("recv.unregistered")
			if batched {
				env.respondMulti(req, multiPlan{})
			} else {
				env.respondOK(req, 1, false)
			}
			select {
			case <-g.parked:
			case <-time.After(5 * time.Second):
				rep.bad("harness:a5", "%s: the reader never reached recv.unregistered", name)
				return
			}
			failNext.Store(true)
			c2 := env.newCall("a5y", "get", batched)
			env.goQueue(c2)
			for i := 0; i < 400 && !env.isDone(); i++ { // the sender's deadline operation failed and it failed the client
				time.Sleep(5 * time.Millisecond)
			}
			close(g.release)
			time.Sleep(300 * time.Millisecond)
			env.quiesce()
			o.flush(name, env)
			// tear down without waiting for goroutines a defective client leaves blocked
			env.c.Close()
			env.srv.Close()
			close(env.stop)
		}()
		rep.Distinct++
	}

	// ---- A7 (real time, like A5): the mirror image - the READER's deadline operation (clearing the read deadline after the
	// response that empties the connection) fails while a sender sits between its write and inFlightUp. The reader fails the
	// connection; the sender goes on, its own deadline operation fails or not: its call is completed, exactly once, and
	// nobody is left waiting inside the client.
	for _, batched := range []bool{false, true} {
		name := fmt.Sprintf("A7/deadline-op-fails-in-reader-while-a-sender-sits-between-write-and-inFlightUp/batched=%v", batched)
		func() {
			var failNext atomic.Bool
			hook := func(op verifsim.Op) *verifsim.Fault {
				if op.Kind == verifsim.OpReadDeadline && op.Time.IsZero() && failNext.CompareAndSwap(true, false) {
					return &verifsim.Fault{Err: verifsim.ErrInjected}
				}
				return nil
			}
			opts := rcOpts{queueSize: 1, hook: hook}
			if batched {
				opts = rcOpts{queueSize: 2, flushInterval: time.Millisecond, hook: hook}
			}
			env := newRCEnv(opts)
			c1 := env.newCall("a7x", "get", batched)
			env.goQueue(c1)
			var req *verifsim.Request
			select {
			case req = <-env.reqs:
			case <-time.After(5 * time.Second):
				rep.bad("harness:a7", "%s: the first request never reached the server", name)
				return
			}
			time.Sleep(50 * time.Millisecond)  // (the first sender is through inFlightUp)
			g := env.gates.arm("send.written") // the second sender: written, not yet counted
			c2 := env.newCall("a7y", "get", batched)
			env.goQueue(c2)
			select {
			case <-g.parked:
			case <-time.After(5 * time.Second):
				rep.bad("harness:a7", "%s: the second sender never reached send.written", name)
				return
			}
			failNext.Store(true)
			if batched {
				env.respondMulti(req, multiPlan{})
			} else {
				env.respondOK(req, 1, false)
			}
			for i := 0; i < 400 && !env.isDone(); i++ { // the reader's deadline operation failed and it failed the client
				time.Sleep(5 * time.Millisecond)
			}
			close(g.release)
			time.Sleep(300 * time.Millisecond)
			env.quiesce()
			o.flush(name, env)
			// nobody is left waiting INSIDE the client either: a goroutine of the client still blocked on one of the client's
			// mutexes now will be so for ever (everything has come to rest)
			if where := rcBlockedOnClientMutex(); where != "" {
				rep.bad("client-deadlock:"+where, "%s: after the connection was failed and everything came to rest, a goroutine of the client is blocked on a mutex of the "+
					"client in %s - for ever, with whoever called it", name, where)
			}
			env.c.Close()
			env.srv.Close()
			close(env.stop)
		}()
		rep.Distinct++
	}

	// ---- A8 (real time; the forced schedule of C18's A2 on behalf of this property): "by read timeout" - the reader clears the
	// read deadline for the response that emptied the connection while the next request is being sent; the server then
	// stays silent. That request is outstanding over a connection that has failed (it no longer answers): it is completed
	// with a connection-level error when the read timeout passes, not left waiting.
	for _, batched := range []bool{false, true} {
		rcClearRacesWithSend(fmt.Sprintf("A8/read-timeout-armed-for-a-request-sent-while-the-reader-clears-the-deadline/batched=%v", batched), batched, rep, o,
			"request-left-waiting:no-read-timeout")
		rep.Distinct++
	}

	// ---- B: k-th operation fails
	flavours := []string{"w0", "whalf", "w0-soft", "whalf-soft", "eof", "reset", "deadline", "deadline-soft", "close"}
	for wi, w := range c03workloads {
		if !full && wi == 4 {
			continue
		}
		var K int
		verifsim.Bubble(t, func(t *testing.T) { K = c03run(o, "B/"+w.name+"/fault-free", w, c03fault{}, 0, 0) })
		rep.Distinct++
		for k := 1; k <= K; k++ {
			for _, fl := range flavours {
				nm := fmt.Sprintf("B/%s/k=%d/%s", w.name, k, fl)
				verifsim.Bubble(t, func(t *testing.T) { c03run(o, nm, w, c03fault{k: k, flavour: fl}, 0, 0) })
				rep.Distinct++
			}
		}
		for cut := 1; cut <= 3; cut++ {
			nm := fmt.Sprintf("B/%s/server-cuts-response-%d-mid-frame", w.name, cut)
			verifsim.Bubble(t, func(t *testing.T) { c03run(o, nm, w, c03fault{}, cut, 0) })
			rep.Distinct++
		}
	}

	// ---- C: other ways to die
	type death struct {
		name string
		do   func(env *rcEnv, req *verifsim.Request)
	}
	deaths := []death{
		{"read-timeout", func(env *rcEnv, req *verifsim.Request) {}},
		{"undecodable-header", func(env *rcEnv, req *verifsim.Request) { env.sc.SendRaw([]byte{0, 0, 0, 3, 0xff, 0xff, 0xff}) }},
		// the other shapes of a frame whose header cannot be read: a well-formed length prefix followed by bytes that are no
		// protobuf message; a header length that points beyond the frame; a frame of no bytes at all; a header of wire type
		// garbage after a valid first field
		{"undecodable-header:valid-length-invalid-protobuf", func(env *rcEnv, req *verifsim.Request) { env.sc.SendRaw([]byte{0, 0, 0, 3, 2, 0xff, 0xff}) }},
		{"undecodable-header:length-beyond-the-frame", func(env *rcEnv, req *verifsim.Request) { env.sc.SendRaw([]byte{0, 0, 0, 2, 9, 8}) }},
		{"undecodable-header:empty-frame", func(env *rcEnv, req *verifsim.Request) { env.sc.SendRaw([]byte{0, 0, 0, 0}) }},
		{"undecodable-header:truncated-field", func(env *rcEnv, req *verifsim.Request) { env.sc.SendRaw([]byte{0, 0, 0, 4, 3, 8, 1, 0x12}) }},
		{"unknown-call-id", func(env *rcEnv, req *verifsim.Request) {
			env.sc.Send(verifsim.Response{CallID: req.CallID + 1000})
		}},
		{"missing-call-id", func(env *rcEnv, req *verifsim.Request) { env.sc.Send(verifsim.Response{OmitCallID: true}) }},
		{"server-fatal-exception", func(env *rcEnv, req *verifsim.Request) {
			env.sc.SendException(req.CallID, "org.apache.hadoop.hbase.regionserver.RegionServerAbortedException", "aborting")
		}},
		{"server-stopped-exception", func(env *rcEnv, req *verifsim.Request) {
			env.sc.SendException(req.CallID, "org.apache.hadoop.hbase.regionserver.RegionServerStoppedException", "stopped")
		}},
		// the server-fatal exception arrives INSIDE a multi response, for one action (the first request of the q=3 runs is a
		// multi; an unbatched first request gets it as the call's exception)
		{"server-stopped-exception-for-one-action-of-a-multi", func(env *rcEnv, req *verifsim.Request) {
			if req.Method == "Multi" {
				tags := rcTags(req)
				env.respondMulti(req, multiPlan{actionExc: map[string]string{tags[0]: "org.apache.hadoop.hbase.regionserver.RegionServerStoppedException"}})
				return
			}
			env.sc.SendException(req.CallID, "org.apache.hadoop.hbase.regionserver.RegionServerStoppedException", "stopped")
		}},
		{"server-aborted-exception-for-one-region-of-a-multi", func(env *rcEnv, req *verifsim.Request) {
			if req.Method == "Multi" {
				env.respondMulti(req, multiPlan{regionExc: map[int]string{0: "org.apache.hadoop.hbase.regionserver.RegionServerAbortedException"}})
				return
			}
			env.sc.SendException(req.CallID, "org.apache.hadoop.hbase.regionserver.RegionServerAbortedException", "aborting")
		}},
	}
	for _, d := range deaths {
		for _, q := range []int{1, 3} {
			nm := fmt.Sprintf("C/%s/q=%d", d.name, q)
			verifsim.Bubble(t, func(t *testing.T) {
				first := true
				env := newRCEnv(rcOpts{queueSize: q, flushInterval: time.Millisecond, readTimeout: time.Second,
					auto: func(e *rcEnv, req *verifsim.Request) {
						if first {
							first = false
							e.tr.Emit("srvresp", "id", int(req.CallID), "kind", "death:"+d.name, "calls", []string{}, "ncells", []int{})
							d.do(e, req)
						}
					}})
				for i := 0; i < 4; i++ {
					env.goQueue(env.newCall(fmt.Sprintf("d%d", i), []string{"get", "put"}[i%2], q > 1 && i != 2))
					time.Sleep(3 * time.Millisecond)
				}
				if d.name != "read-timeout" {
					// the stream is unusable (or the server said it is going away): the connection is failed NOW, not when the read
					// timeout (1 s) of the requests that are still outstanding happens to expire
					time.Sleep(300 * time.Millisecond)
					rcSettle()
					if !env.isDone() {
						rep.bad("unusable-stream-not-failed", "%s: 300 ms after the server's answer the connection is not failed (requests outstanding: %v)", nm, env.pending())
					}
				}
				time.Sleep(2 * time.Second)
				rcSettle()
				env.quiesce()
				if !env.isDone() {
					rep.bad("unusable-stream-not-failed", "%s: the connection was not failed", nm)
				}
				o.flush(nm, env)
				env.finish()
			})
			rep.Distinct++
		}
	}

	// ---- D: random fault positions with jitter
	rng := rand.New(rand.NewSource(seed))
	for i := 0; i < nrand; i++ {
		w := c03workloads[rng.Intn(len(c03workloads))]
		f := c03fault{k: 1 + rng.Intn(40), flavour: flavours[rng.Intn(len(flavours))]}
		nm := fmt.Sprintf("D/%d/%s/k=%d/%s", i, w.name, f.k, f.flavour)
		js := rng.Int63() | 1
		verifsim.Bubble(t, func(t *testing.T) { c03run(o, nm, w, f, 0, js) })
		rep.Distinct++
	}
}

// rcBlockedOnClientMutex looks at all goroutines: the function of the client (not of the harness) in which a goroutine is
// blocked on a sync.Mutex / RWMutex, "" if there is none.
func rcBlockedOnClientMutex() string {
	buf := make([]byte, 8<<20)
	buf = buf[:runtime.Stack(buf, true)]
	for _, g := range strings.Split(string(buf), "\n\n") {
		lines := strings.Split(g, "\n")
		if len(lines) < 3 || !(strings.Contains(lines[0], "Mutex.Lock") || strings.Contains(lines[0], "Mutex.RLock") || strings.Contains(lines[0], "semacquire")) {
			continue
		}
		for _, l := range lines[1:] {
			if strings.HasPrefix(l, "github.com/tsuna/gohbase/region.(*client).") && !strings.Contains(g, "zz_verif") {
				return strings.TrimPrefix(strings.SplitN(l, "(0x", 2)[0], "github.com/tsuna/gohbase/region.")
			}
			if strings.HasPrefix(l, "github.com/tsuna/gohbase/region.") {
				break
			}
		}
	}
	return ""
}

// c03gated wraps a call so that the harness can hold the sender while it serialises the request.
type c03gated struct {
	hrpc.Call
	gate func()
	once atomic.Bool
}

// c03gatedGet is the batchable form (a wrapper around the hrpc.Call interface is not hrpc.Batchable: the region client
// would send it unbatched): the gate is hit when the batcher serialises the multi that carries this Get.
type c03gatedGet struct {
	*hrpc.Get
	gate func()
	once atomic.Bool
}

func (g *c03gatedGet) ToProto() proto.Message {
	if g.once.CompareAndSwap(false, true) {
		g.gate()
	}
	return g.Get.ToProto()
}

func (g *c03gated) ToProto() proto.Message {
	if g.once.CompareAndSwap(false, true) {
		g.gate()
	}
	return g.Call.ToProto()
}
