package region

// Shared region-client harness: a real region.client over the in-memory conn,
// a manually driven server, call builders, result collectors, trace.

import (
	"sync/atomic"
	"context"
	"fmt"
	"io"
	"log/slog"
	"net"
	"sync"
	"time"

	"github.com/tsuna/gohbase/compression"
	"github.com/tsuna/gohbase/hrpc"
	"github.com/tsuna/gohbase/internal/verifsim"
	"github.com/tsuna/gohbase/pb"
	"google.golang.org/protobuf/proto"
)

var rcLogger = slog.New(slog.NewTextHandler(io.Discard, nil))

type rcCall struct {
	tag     string
	call    hrpc.Call
	ctx     context.Context
	cancel  context.CancelFunc
	mu      sync.Mutex
	results []hrpc.RPCResult
}

func (c *rcCall) count() int {
	c.mu.Lock()
	defer c.mu.Unlock()
	return len(c.results)
}

func (c *rcCall) first() (hrpc.RPCResult, bool) {
	c.mu.Lock()
	defer c.mu.Unlock()
	if len(c.results) == 0 {
		return hrpc.RPCResult{}, false
	}
	return c.results[0], true
}

type rcOpts struct {
	queueSize     int
	flushInterval time.Duration
	readTimeout   time.Duration
	codec         compression.Codec
	hook          verifsim.Hook // installed on the client end before Dial
	maxRead       int
	auto          func(env *rcEnv, req *verifsim.Request) // nil: manual mode
	dialCtx       context.Context
	bind          func(*rcEnv) // called once the client object exists, before Dial
	onHook        func(point string, arg any) // called at every verif hook point of this client (must not block under a lock)
}

type rcEnv struct {
	tr    *verifsim.Trace
	cli   *verifsim.Conn
	srv   *verifsim.Conn
	sc    *verifsim.ServerConn
	c     *client
	reqs  chan *verifsim.Request
	reg   hrpc.RegionInfo
	reg2  hrpc.RegionInfo
	stop  chan struct{}
	gates rcGates
	calls []*rcCall
	mu    sync.Mutex
	wg    sync.WaitGroup
	qwg   sync.WaitGroup
	dialErr error
}

// the hook variable of the client is written once per process; scenarios swap the function behind it atomically (a
// scenario's assignment must not race with goroutines an earlier scenario's client left behind)
var rcHookCur atomic.Pointer[func(point string, c any, arg any)]

func init() {
	VerifHook = func(point string, c any, arg any) {
		if h := rcHookCur.Load(); h != nil {
			(*h)(point, c, arg)
		}
	}
}

func rcSetHook(f func(point string, c any, arg any)) {
	if f == nil {
		rcHookCur.Store(nil)
		return
	}
	rcHookCur.Store(&f)
}

func newRCEnv(o rcOpts) *rcEnv {
	if o.queueSize == 0 {
		o.queueSize = 1
	}
	if o.readTimeout == 0 {
		o.readTimeout = 30 * time.Second
	}
	env := &rcEnv{tr: &verifsim.Trace{}, reqs: make(chan *verifsim.Request, 4096), stop: make(chan struct{})}
	env.reg = NewInfo(1, nil, []byte("t"), []byte("t,,1"), nil, []byte("m"))
	env.reg2 = NewInfo(2, nil, []byte("t"), []byte("t,m,2"), []byte("m"), nil)
	env.cli, env.srv = verifsim.Pipe("client", "rs:1")
	env.cli.MaxRead = o.maxRead
	if o.hook != nil {
		env.cli.SetHook(o.hook)
	}
	env.cli.OnClose = func() { env.tr.Emit("connClosed") }
	rcSetHook(func(point string, c any, arg any) {
		if cc, ok := c.(*client); ok && cc == env.c {
			if o.onHook != nil {
				o.onHook(point, arg)
			}
			env.gates.hit(point)
		}
	})
	h := verifsim.HandlerFunc(func(sc *verifsim.ServerConn, req *verifsim.Request) {
		env.tr.Emit("srvreq", "id", int(req.CallID), "method", req.Method, "calls", rcTags(req))
		if o.auto != nil {
			o.auto(env, req)
			return
		}
		env.reqs <- req
	})
	env.sc = verifsim.Serve(env.srv, "rs:1", 1, h, env.tr)
	dialer := func(ctx context.Context, network, addr string) (net.Conn, error) { return env.cli, nil }
	rc := NewClient("rs:1", RegionClient, o.queueSize, o.flushInterval, "u", o.readTimeout, o.codec, dialer, rcLogger)
	env.c = rc.(*client)
	if o.bind != nil {
		o.bind(env)
	}
	ctx := o.dialCtx
	if ctx == nil {
		ctx = context.Background()
	}
	env.dialErr = env.c.Dial(ctx)
	return env
}

// rcTags lists the row keys a request addresses (one for get/mutate, the
// actions in region/action order for a multi).
func rcTags(req *verifsim.Request) []string {
	switch p := req.Param.(type) {
	case *pb.GetRequest:
		return []string{string(p.GetGet().GetRow())}
	case *pb.MutateRequest:
		return []string{string(p.GetMutation().GetRow())}
	case *pb.ScanRequest:
		return []string{"scan:" + string(p.GetScan().GetStartRow())}
	case *pb.MultiRequest:
		out := []string{}
		for _, ra := range p.GetRegionAction() {
			for _, a := range ra.GetAction() {
				if a.Get != nil {
					out = append(out, string(a.Get.GetRow()))
				} else if a.Mutation != nil {
					out = append(out, string(a.Mutation.GetRow()))
				}
			}
		}
		return out
	}
	return []string{}
}

func (env *rcEnv) regionFor(tag string) hrpc.RegionInfo {
	if tag >= "m" {
		return env.reg2
	}
	return env.reg
}

// newCall builds a Get (kind "get") or Put (kind "put") for row=tag; batch=false adds SkipBatch.
func (env *rcEnv) newCall(tag, kind string, batch bool) *rcCall {
	ctx, cancel := context.WithCancel(context.Background())
	var call hrpc.Call
	var err error
	var opts []func(hrpc.Call) error
	if !batch {
		opts = append(opts, hrpc.SkipBatch())
	}
	switch kind {
	case "put":
		call, err = hrpc.NewPut(ctx, []byte("t"), []byte(tag), map[string]map[string][]byte{"f": {"q": []byte("v-" + tag)}}, opts...)
	default:
		call, err = hrpc.NewGet(ctx, []byte("t"), []byte(tag), opts...)
	}
	if err != nil {
		panic(err)
	}
	call.SetRegion(env.regionFor(tag))
	rc := &rcCall{tag: tag, call: call, ctx: ctx, cancel: cancel}
	env.mu.Lock()
	env.calls = append(env.calls, rc)
	env.mu.Unlock()
	env.wg.Add(1)
	go func() { // collector: drains the result channel for the whole scenario, so a second delivery is seen, not hidden
		defer env.wg.Done()
		for {
			select {
			case r := <-call.ResultChan():
				rc.mu.Lock()
				rc.results = append(rc.results, r)
				rc.mu.Unlock()
				row, n := rcResultTag(r)
				env.tr.Emit("result", "call", tag, "kind", rcResultKind(r), "row", row, "ncells", n)
			case <-env.stop:
				return
			}
		}
	}()
	return rc
}

func rcResultKind(r hrpc.RPCResult) string {
	switch r.Error.(type) {
	case nil:
		return "ok"
	case ServerError:
		return "server"
	case RetryableError:
		return "retryable"
	case NotServingRegionError:
		return "notserving"
	}
	return "other"
}

// rcResultTag extracts the row the response's cells talk about and their number
// (-1 cells: the cells are not all of one row / carry another row's value).
func rcResultTag(r hrpc.RPCResult) (string, int) {
	var res *pb.Result
	switch m := r.Msg.(type) {
	case *pb.GetResponse:
		res = m.GetResult()
	case *pb.MutateResponse:
		res = m.GetResult()
	}
	if res == nil || len(res.Cell) == 0 {
		return "", 0
	}
	tag := string(res.Cell[0].Row)
	for _, c := range res.Cell {
		if string(c.Row) != tag || string(c.Value) != "v-"+tag {
			return "MIXED:" + tag + "/" + string(c.Row) + "=" + string(c.Value), -1
		}
	}
	return tag, len(res.Cell)
}

// goQueue runs queue on its own goroutine, tracked so that finish can wait for it.
func (env *rcEnv) goQueue(c *rcCall) {
	env.qwg.Add(1)
	go func() {
		defer env.qwg.Done()
		env.queue(c)
	}()
}

// goQueueBatch is the tracked, asynchronous form of queueBatch.
func (env *rcEnv) goQueueBatch(ctx context.Context, cs ...*rcCall) {
	env.qwg.Add(1)
	go func() {
		defer env.qwg.Done()
		env.queueBatch(ctx, cs...)
	}()
}

// queue hands the call to the region client the way the gohbase client does.
func (env *rcEnv) queue(c *rcCall) {
	env.tr.Emit("submit", "call", c.tag)
	env.c.QueueRPC(c.call)
}

// queueBatch hands several calls over with QueueBatch under ctx.
func (env *rcEnv) queueBatch(ctx context.Context, cs ...*rcCall) {
	calls := make([]hrpc.Call, len(cs))
	for i, c := range cs {
		env.tr.Emit("submit", "call", c.tag)
		calls[i] = c.call
	}
	env.c.QueueBatch(ctx, calls)
}

func (env *rcEnv) isDone() bool {
	select {
	case <-env.c.done:
		return true
	default:
		return false
	}
}

// cellsFor is the server's answer for a row: n cells, value "v-"+row.
func cellsFor(row string, n int) []verifsim.KV {
	out := make([]verifsim.KV, n)
	for i := range out {
		out[i] = verifsim.KV{Row: []byte(row), Family: []byte("f"), Qualifier: []byte(fmt.Sprintf("q%d", i)), Timestamp: 7, Type: 4, Value: []byte("v-" + row)}
	}
	return out
}

// respondOK answers a single get/mutate request with ncells cells, inline or in the cellblock.
func (env *rcEnv) respondOK(req *verifsim.Request, ncells int, inCB bool) {
	tags := rcTags(req)
	var cb []byte
	res := verifsim.ResultMsg(cellsFor(tags[0], ncells), inCB, &cb)
	var msg proto.Message
	if req.Method == "Get" {
		msg = &pb.GetResponse{Result: res}
	} else {
		msg = &pb.MutateResponse{Result: res, Processed: proto.Bool(true)}
	}
	env.tr.Emit("srvresp", "id", int(req.CallID), "kind", "ok", "calls", []string{tags[0]}, "ncells", []int{ncells})
	env.sc.Send(verifsim.Response{CallID: req.CallID, Msg: msg, CellBlock: cb})
}

// multiPlan describes how to answer a multi request.
type multiPlan struct {
	perm      []int          // permutation of action positions within each region (nil = request order)
	regionRev bool           // answer regions in reverse order
	ncells    func(tag string) int
	inCB      bool
	actionExc map[string]string // tag -> java class
	regionExc map[int]string    // region index in the request -> java class
}

func (env *rcEnv) respondMulti(req *verifsim.Request, p multiPlan) {
	mr := req.Param.(*pb.MultiRequest)
	resp := &pb.MultiResponse{}
	var cb []byte
	okCalls, okCells := []string{}, []int{}
	excs := []map[string]any{}
	nreg := len(mr.GetRegionAction())
	rars := make([]*pb.RegionActionResult, nreg)
	// NB: region action results are positional (i-th result for i-th region action);
	// the cellblock is laid out in the order results are written below.
	for ri := 0; ri < nreg; ri++ {
		ra := mr.RegionAction[ri]
		rar := &pb.RegionActionResult{}
		if cls, ok := p.regionExc[ri]; ok {
			rar.Exception = &pb.NameBytesPair{Name: proto.String(cls), Value: []byte("region exception " + cls)}
			rars[ri] = rar
			for _, a := range ra.Action {
				row := ""
				if a.Get != nil {
					row = string(a.Get.GetRow())
				} else {
					row = string(a.Mutation.GetRow())
				}
				excs = append(excs, map[string]any{"call": row, "class": cls, "wal": false})
			}
			continue
		}
		order := make([]int, len(ra.Action))
		for i := range order {
			order[i] = i
		}
		if p.perm != nil {
			k := 0
			for _, x := range p.perm {
				if x < len(order) {
					order[k] = x
					k++
				}
			}
		}
		for _, ai := range order {
			a := ra.Action[ai]
			var row string
			if a.Get != nil {
				row = string(a.Get.GetRow())
			} else {
				row = string(a.Mutation.GetRow())
			}
			roe := &pb.ResultOrException{Index: proto.Uint32(a.GetIndex())}
			if cls, ok := p.actionExc[row]; ok {
				roe.Exception = &pb.NameBytesPair{Name: proto.String(cls), Value: []byte("action exception " + cls)}
				excs = append(excs, map[string]any{"call": row, "class": cls, "wal": false})
			} else {
				n := 1
				if p.ncells != nil {
					n = p.ncells(row)
				}
				roe.Result = verifsim.ResultMsg(cellsFor(row, n), p.inCB, &cb)
				okCalls, okCells = append(okCalls, row), append(okCells, n)
			}
			rar.ResultOrException = append(rar.ResultOrException, roe)
		}
		rars[ri] = rar
	}
	resp.RegionActionResult = rars
	env.tr.Emit("srvresp", "id", int(req.CallID), "kind", "multi", "calls", okCalls, "ncells", okCells, "excs", excs)
	env.sc.Send(verifsim.Response{CallID: req.CallID, Msg: resp, CellBlock: cb})
}

func (env *rcEnv) respondExc(req *verifsim.Request, class string) {
	excs := []map[string]any{}
	for _, tg := range rcTags(req) {
		excs = append(excs, map[string]any{"call": tg, "class": class, "wal": false})
	}
	env.tr.Emit("srvresp", "id", int(req.CallID), "kind", "exc:"+class, "calls", []string{}, "ncells", []int{}, "excs", excs)
	env.sc.SendException(req.CallID, class, "stack of "+class)
}

// pending lists the calls that have no result yet.
func (env *rcEnv) pending() []string {
	out := []string{}
	env.mu.Lock()
	defer env.mu.Unlock()
	for _, c := range env.calls {
		if c.count() == 0 {
			out = append(out, c.tag)
		}
	}
	return out
}

// pendingLive lists the calls without a result whose context is still live.
func (env *rcEnv) pendingLive() []string {
	out := []string{}
	env.mu.Lock()
	defer env.mu.Unlock()
	for _, c := range env.calls {
		if c.count() == 0 && c.ctx.Err() == nil {
			out = append(out, c.tag)
		}
	}
	return out
}

// quiesce records a quiescent observation (the caller has just returned from synctest.Wait).
func (env *rcEnv) quiesce() {
	// look again at every result the callers hold: what was delivered must not change afterwards (a response buffer
	// that is reused for a later response would show here)
	env.mu.Lock()
	calls := append([]*rcCall(nil), env.calls...)
	env.mu.Unlock()
	for _, c := range calls {
		c.mu.Lock()
		rs := append([]hrpc.RPCResult(nil), c.results...)
		c.mu.Unlock()
		for k, r := range rs {
			if r.Error == nil {
				row, n := rcResultTag(r)
				env.tr.Emit("recheck", "call", c.tag, "k", k+1, "row", row, "ncells", n)
			}
		}
	}
	env.tr.Emit("quiesce", "armed", !env.cli.ReadDeadline().IsZero(), "done", env.isDone(), "pending", env.pending())
}

func (env *rcEnv) cancelCall(c *rcCall) {
	env.tr.Emit("cancel", "call", c.tag)
	c.cancel()
}

// ---- gates: park a goroutine of the client at a named point ---------------

type rcGate struct {
	parked  chan struct{}
	release chan struct{}
}

type rcGates struct {
	mu    sync.Mutex
	armed map[string]*rcGate
}

func (g *rcGates) arm(point string) *rcGate {
	g.mu.Lock()
	defer g.mu.Unlock()
	if g.armed == nil {
		g.armed = map[string]*rcGate{}
	}
	gt := &rcGate{parked: make(chan struct{}), release: make(chan struct{})}
	g.armed[point] = gt
	return gt
}

func (g *rcGates) hit(point string) {
	g.mu.Lock()
	gt := g.armed[point]
	delete(g.armed, point)
	g.mu.Unlock()
	if gt != nil {
		close(gt.parked)
		<-gt.release
	}
}

func (g *rcGates) releaseAll() {
	g.mu.Lock()
	g.armed = nil
	g.mu.Unlock()
}

// finish tears the scenario down so that no goroutine outlives it.
func (env *rcEnv) finish() {
	env.gates.releaseAll()
	for _, c := range env.calls {
		c.cancel()
	}
	env.c.Close()
	env.srv.Close()
	env.qwg.Wait() // callers parked in jitter sleeps return first (virtual time advances while we wait)
	close(env.stop)
	env.wg.Wait()
	<-env.sc.Ended()
	time.Sleep(time.Second) // goroutines of the client asleep in a jitter hook wake up and see the closed client
}

// rcStress: real parallelism (no bubble): `callers` goroutines each send `per` unbatched Gets for rows unique to caller and
// request through ONE connection; the server echoes the row of the request under the call id of the request. Returns what
// the callers observed to be wrong (a response that is not theirs, an error, no answer) and what the server's decoder found
// wrong on the wire (a call id used twice, ...). This is the only way to meet windows of a few instructions between two
// senders (e.g. in the allocation of call ids) that no hook sits in.
func rcStress(callers, per int) (wrong []string, wire []string) {
	return rcStressWith(callers, per, nil, false)
}

// rcStressWith: with a compression codec and / or Puts (requests that carry a cellblock): the server checks that the
// (decompressed) cellblock of every request holds exactly the cell of the request's own row.
func rcStressWith(callers, per int, codec compression.Codec, puts bool) (wrong []string, wire []string) {
	var envp atomic.Pointer[rcEnv]
	var pmu sync.Mutex
	var cbProblems []string
	env := newRCEnv(rcOpts{queueSize: 1, readTimeout: 30 * time.Second, codec: codec, bind: func(e *rcEnv) { envp.Store(e) },
		auto: func(e *rcEnv, req *verifsim.Request) {
			tags := rcTags(req)
			if m, ok := req.Param.(*pb.MutateRequest); ok {
				kvs, err := verifsim.DecodeKVs(req.CellBlock)
				row := string(m.GetMutation().GetRow())
				if err != nil || len(kvs) != 1 || string(kvs[0].Row) != row || string(kvs[0].Value) != "v-"+row {
					pmu.Lock()
					if len(cbProblems) < 5 {
						cbProblems = append(cbProblems, fmt.Sprintf("the cellblock of the put for row %q decodes to %v (error %v)", row, kvs, err))
					}
					pmu.Unlock()
				}
				e.sc.Send(verifsim.Response{CallID: req.CallID, Msg: &pb.MutateResponse{Processed: proto.Bool(true)}})
				return
			}
			var cb []byte
			res := verifsim.ResultMsg(cellsFor(tags[0], 1), true, &cb)
			e.sc.Send(verifsim.Response{CallID: req.CallID, Msg: &pb.GetResponse{Result: res}, CellBlock: cb})
		}})
	var mu sync.Mutex
	var wg sync.WaitGroup
	for g := 0; g < callers; g++ {
		wg.Add(1)
		go func() {
			defer wg.Done()
			for i := 0; i < per; i++ {
				row := fmt.Sprintf("s%02d-%06d", g, i)
				var call hrpc.Call
				if puts && (i+g)%2 == 0 {
					call, _ = hrpc.NewPut(context.Background(), []byte("t"), []byte(row), map[string]map[string][]byte{"f": {"q": []byte("v-" + row)}}, hrpc.SkipBatch())
				} else {
					call, _ = hrpc.NewGet(context.Background(), []byte("t"), []byte(row), hrpc.SkipBatch())
				}
				call.SetRegion(env.reg)
				env.c.QueueRPC(call)
				select {
				case r := <-call.ResultChan():
					got, n := rcResultTag(r)
					_, isPut := call.(*hrpc.Mutate)
					if r.Error != nil || (!isPut && (got != row || n != 1)) {
						mu.Lock()
						if len(wrong) < 5 {
							wrong = append(wrong, fmt.Sprintf("caller %d asked for %q and was given row %q (%d cells, error %v)", g, row, got, n, r.Error))
						}
						mu.Unlock()
						return
					}
				case <-time.After(20 * time.Second):
					mu.Lock()
					wrong = append(wrong, fmt.Sprintf("caller %d: no answer for %q within 20 s", g, row))
					mu.Unlock()
					return
				}
			}
		}()
	}
	wg.Wait()
	wire = append(env.sc.GetProblems(), cbProblems...)
	env.c.Close()
	env.srv.Close()
	close(env.stop)
	return wrong, wire
}
