package region

// C05 driver, content half: every operation shape enumerated by TLC
// (Gen_Wire: query options for gets and scans, scan shapes, mutation extras;
// Gen_KeyValue: mutation kinds x value-map shapes x timestamps) is built
// through the public constructors, sent by a real region.client - unbatched
// and grouped into multi requests of 1..8 calls over two regions, with and
// without snappy, with values below and above the compression chunk size - and
// the simulated server's independent decoder must find exactly the requested
// operation in the frame.

import (
	"bufio"
	"bytes"
	"context"
	"encoding/binary"
	"encoding/json"
	"fmt"
	"math/rand"
	"os"
	"sort"
	"strconv"
	"testing"
	"testing/synctest"
	"time"

	"github.com/tsuna/gohbase/compression"
	"github.com/tsuna/gohbase/compression/snappy"
	"github.com/tsuna/gohbase/filter"
	"github.com/tsuna/gohbase/hrpc"
	"github.com/tsuna/gohbase/internal/verifsim"
	"github.com/tsuna/gohbase/pb"
	"google.golang.org/protobuf/proto"
)

type c05Query struct {
	Opt struct {
		Families []struct {
			F  []int   `json:"f"`
			Qs [][]int `json:"qs"`
		} `json:"families"`
		TrFrom, TrTo, MaxVersions, StoreLimit, StoreOffset, Priority int
		CacheBlocks, Timeline, ExistsOnly                            bool
		Filter                                                       string
	} `json:"opt"`
	Exp struct {
		Columns []struct {
			F  []int   `json:"f"`
			Qs [][]int `json:"qs"`
		} `json:"columns"`
		TrFrom, TrTo, MaxVersions, StoreLimit, StoreOffset, Priority int
		CacheBlocksFalse, Timeline, ExistsOnly                       bool
		Filter                                                       string
	} `json:"exp"`
}

type c05Scan struct {
	Opt struct {
		Start, Stop                 []int
		Reversed                    bool
		NumberOfRows, MaxResultSize int
	} `json:"opt"`
	Exp struct {
		Start, Stop                                                       []int
		Reversed, CloseScanner, Renew, HandlesPartials, HandlesHeartbeats bool
		NumberOfRows, MaxResultSize                                       int
	} `json:"exp"`
}

type c05Extra struct{ Durability, TtlMs int }

type c05MutCell struct {
	Family, Qualifier, Ts, Value []int
	Type                         int
}
type c05Mut struct {
	Kind       string `json:"kind"`
	OneVersion bool   `json:"oneVersion"`
	Latest     bool   `json:"latest"`
	Ts         []int  `json:"ts"`
	Fams       []struct {
		F     []int `json:"f"`
		Inner struct {
			Nil bool `json:"nil"`
			Qs  []struct{ Q, V []int }
		} `json:"inner"`
	} `json:"fams"`
	Cells []c05MutCell `json:"cells"`
}

func c05read[T any](path string) []T {
	fh, err := os.Open(path)
	if err != nil {
		panic(err)
	}
	defer fh.Close()
	var out []T
	sc := bufio.NewScanner(fh)
	sc.Buffer(make([]byte, 1<<20), 1<<24)
	for sc.Scan() {
		var v T
		if err := json.Unmarshal(sc.Bytes(), &v); err != nil {
			panic(err)
		}
		out = append(out, v)
	}
	return out
}

func c05bs(x []int) []byte {
	b := make([]byte, len(x))
	for i, v := range x {
		b[i] = byte(v)
	}
	return b
}

func c05queryOpts(q c05Query) []func(hrpc.Call) error {
	var o []func(hrpc.Call) error
	if len(q.Opt.Families) > 0 {
		fam := map[string][]string{}
		for _, f := range q.Opt.Families {
			var qs []string
			for _, x := range f.Qs {
				qs = append(qs, string(c05bs(x)))
			}
			fam[string(c05bs(f.F))] = qs
		}
		o = append(o, hrpc.Families(fam))
	}
	if q.Opt.TrFrom >= 0 {
		to := uint64(q.Opt.TrTo)
		if q.Opt.TrTo == -2 { // the specification's TsMax
			to = hrpc.MaxTimestamp
		}
		o = append(o, hrpc.TimeRangeUint64(uint64(q.Opt.TrFrom), to))
	}
	if q.Opt.MaxVersions != 1 {
		o = append(o, hrpc.MaxVersions(uint32(q.Opt.MaxVersions)))
	}
	if q.Opt.StoreLimit >= 0 {
		o = append(o, hrpc.MaxResultsPerColumnFamily(uint32(q.Opt.StoreLimit)))
	}
	if q.Opt.StoreOffset > 0 {
		o = append(o, hrpc.ResultOffset(uint32(q.Opt.StoreOffset)))
	}
	if !q.Opt.CacheBlocks {
		o = append(o, hrpc.CacheBlocks(false))
	}
	if q.Opt.Priority > 0 {
		o = append(o, hrpc.Priority(uint32(q.Opt.Priority)))
	}
	if q.Opt.Timeline {
		o = append(o, hrpc.Consistency(hrpc.TimelineConsistency))
	} else if q.Opt.StoreOffset > 0 || q.Opt.Priority > 0 {
		// the latest data demanded explicitly: the same query as without
		// the option (never one that accepts a stale replica)
		o = append(o, hrpc.Consistency(hrpc.StrongConsistency))
	}
	if q.Opt.Filter != "" {
		o = append(o, hrpc.Filters(filter.NewPrefixFilter([]byte("pre"))))
	}
	return o
}

// c05checkQuery compares the decoded query fields with what the specification expects.
func c05checkQuery(q c05Query, cols []*pb.Column, tr *pb.TimeRange, maxv, limit, off *uint32, cacheBlocks *bool, cons *pb.Consistency,
	flt *pb.Filter, prio uint32) string {
	var got []string
	for _, c := range cols {
		s := fmt.Sprintf("%q:", c.GetFamily())
		for _, x := range c.GetQualifier() {
			s += fmt.Sprintf("%q,", x)
		}
		got = append(got, s)
	}
	var want []string
	for _, c := range q.Exp.Columns {
		s := fmt.Sprintf("%q:", c05bs(c.F))
		for _, x := range c.Qs {
			s += fmt.Sprintf("%q,", c05bs(x))
		}
		want = append(want, s)
	}
	sort.Strings(got)
	sort.Strings(want)
	if fmt.Sprint(got) != fmt.Sprint(want) {
		return fmt.Sprintf("columns %v, want %v", got, want)
	}
	opt := func(p *uint32) int {
		if p == nil {
			return -1
		}
		return int(*p)
	}
	from, to := -1, -1
	if tr != nil && tr.From != nil {
		from = int(tr.GetFrom())
	}
	if tr != nil && tr.To != nil {
		to = int(tr.GetTo())
	}
	if from != q.Exp.TrFrom || to != q.Exp.TrTo {
		return fmt.Sprintf("time range [%d,%d), want [%d,%d)", from, to, q.Exp.TrFrom, q.Exp.TrTo)
	}
	if opt(maxv) != q.Exp.MaxVersions {
		return fmt.Sprintf("max_versions %d, want %d", opt(maxv), q.Exp.MaxVersions)
	}
	if opt(limit) != q.Exp.StoreLimit || opt(off) != q.Exp.StoreOffset {
		return fmt.Sprintf("store limit/offset %d/%d, want %d/%d", opt(limit), opt(off), q.Exp.StoreLimit, q.Exp.StoreOffset)
	}
	if (cacheBlocks != nil && !*cacheBlocks) != q.Exp.CacheBlocksFalse {
		return fmt.Sprintf("cache_blocks %v, want false=%v", cacheBlocks, q.Exp.CacheBlocksFalse)
	}
	if (cons != nil && *cons == pb.Consistency_TIMELINE) != q.Exp.Timeline {
		return fmt.Sprintf("consistency %v, want timeline=%v", cons, q.Exp.Timeline)
	}
	if flt.GetName() != q.Exp.Filter {
		return fmt.Sprintf("filter %q, want %q", flt.GetName(), q.Exp.Filter)
	}
	wantPrio := 0
	if q.Exp.Priority > 0 {
		wantPrio = q.Exp.Priority
	}
	if int(prio) != wantPrio {
		return fmt.Sprintf("priority %d, want %d", prio, wantPrio)
	}
	return ""
}

func c05mutCells(m *pb.MutationProto, kvs []verifsim.KV) []string {
	var out []string
	for _, cv := range m.GetColumnValue() {
		for _, qv := range cv.GetQualifierValue() {
			out = append(out, fmt.Sprintf("proto|%q|%q", cv.GetFamily(), qv.GetQualifier()))
		}
	}
	for _, kv := range kvs {
		out = append(out, fmt.Sprintf("%q|%q|%d|%d|%q", kv.Family, kv.Qualifier, kv.Timestamp, kv.Type, kv.Value))
	}
	sort.Strings(out)
	return out
}

func TestVerifC05Content(t *testing.T) {
	in, out := os.Getenv("VERIF_IN"), os.Getenv("VERIF_OUT")
	if in == "" || out == "" {
		t.Skip("VERIF_IN / VERIF_OUT not set")
	}
	seed, _ := strconv.ParseInt(os.Getenv("VERIF_SEED"), 10, 64)
	reps, _ := strconv.Atoi(os.Getenv("VERIF_REPS"))
	if reps < 1 {
		reps = 1
	}
	rng := rand.New(rand.NewSource(seed))
	rep := &rcReport{}
	defer func() {
		b, _ := json.Marshal(rep)
		os.WriteFile(out+"/c05c_result.json", b, 0o644)
	}()
	queries := c05read[c05Query](in + "/c05_queries.ndjson")
	scans := c05read[c05Scan](in + "/c05_scans.ndjson")
	extras := c05read[c05Extra](in + "/c05_mutextras.ndjson")
	muts := c05read[c05Mut](in + "/c10_mutations.ndjson")

	randRow := func() []byte {
		n := rng.Intn(9)
		b := make([]byte, n)
		rng.Read(b)
		if rng.Intn(4) == 0 {
			b = append(b, ',', 0, 0xff)
		}
		return b
	}

	for _, codec := range []compression.Codec{nil, snappy.New()} {
		for _, queue := range []int{1, 4, 8} {
			name := fmt.Sprintf("codec=%v/queue=%d", codec != nil, queue)
			verifsim.Bubble(t, func(t *testing.T) {
				type sentCall struct {
					check func(req *verifsim.Request, param proto.Message, kvs []verifsim.KV) string
					desc  string
				}
				var pending []sentCall // in send order (the driver sends one group at a time)
				env := newRCEnv(rcOpts{queueSize: queue, flushInterval: 200 * time.Microsecond, codec: codec,
					auto: func(e *rcEnv, req *verifsim.Request) { e.reqs <- req; c05answer(e.sc, req) }})
				defer env.finish()
				mkGet := func(q c05Query, batch bool) (hrpc.Call, sentCall) {
					row := randRow()
					opts := c05queryOpts(q)
					if !batch {
						opts = append(opts, hrpc.SkipBatch())
					}
					g, err := hrpc.NewGet(context.Background(), []byte("t"), row, opts...)
					if err != nil {
						panic(err)
					}
					if q.Opt.ExistsOnly {
						g.ExistsOnly()
					}
					g.SetRegion(env.regionFor(string(row)))
					return g, sentCall{desc: fmt.Sprintf("get %q %+v", row, q.Opt), check: func(req *verifsim.Request, param proto.Message, kvs []verifsim.KV) string {
						var get *pb.Get
						switch p := param.(type) {
						case *pb.GetRequest:
							get = p.GetGet()
							if !bytes.Equal(p.GetRegion().GetValue(), env.regionFor(string(row)).Name()) {
								return "region specifier is not the call's region"
							}
						case *pb.Action:
							get = p.GetGet()
						}
						if get == nil {
							return "not a get"
						}
						if !bytes.Equal(get.GetRow(), row) {
							return fmt.Sprintf("row %q, want %q", get.GetRow(), row)
						}
						if get.GetExistenceOnly() != q.Exp.ExistsOnly {
							return "existence_only differs"
						}
						prio := req.Priority
						if _, isAction := param.(*pb.Action); isAction {
							prio = uint32(max(q.Exp.Priority, 0)) // a multi carries no per-action priority
						}
						return c05checkQuery(q, get.GetColumn(), get.GetTimeRange(), get.MaxVersions, get.StoreLimit, get.StoreOffset, get.CacheBlocks,
							get.Consistency, get.GetFilter(), prio)
					}}
				}
				mkMut := func(m c05Mut, x c05Extra, batch bool, big bool) (hrpc.Call, sentCall, bool) {
					row := randRow()
					values := map[string]map[string][]byte{}
					var bigVal []byte
					for _, f := range m.Fams {
						if f.Inner.Nil {
							values[string(c05bs(f.F))] = nil
							continue
						}
						inner := map[string][]byte{}
						for _, qv := range f.Inner.Qs {
							v := c05bs(qv.V)
							if big && bigVal == nil {
								bigVal = make([]byte, 300000) // above the snappy chunk size
								rng.Read(bigVal)
								v = bigVal
							}
							inner[string(c05bs(qv.Q))] = v
						}
						values[string(c05bs(f.F))] = inner
					}
					var opts []func(hrpc.Call) error
					if !m.Latest {
						ts := binary.BigEndian.Uint64(c05bs(m.Ts))
						if ts > 0 && ts < 1<<40 && x.Durability%2 == 1 {
							// the time.Time form of the option: an instant 0.7 ms into the millisecond ts - the wire carries the
							// millisecond the instant falls in
							opts = append(opts, hrpc.Timestamp(time.Unix(0, int64(ts)*1e6+700_000)))
						} else {
							opts = append(opts, hrpc.TimestampUint64(ts))
						}
					}
					if m.OneVersion {
						opts = append(opts, hrpc.DeleteOneVersion())
					}
					if x.Durability != 0 {
						opts = append(opts, hrpc.Durability(hrpc.DurabilityType(x.Durability)))
					}
					if x.TtlMs >= 0 {
						opts = append(opts, hrpc.TTL(time.Duration(x.TtlMs)*time.Millisecond))
					}
					if !batch {
						opts = append(opts, hrpc.SkipBatch())
					}
					var call *hrpc.Mutate
					var err error
					switch m.Kind {
					case "put":
						call, err = hrpc.NewPut(context.Background(), []byte("t"), row, values, opts...)
					case "delete":
						call, err = hrpc.NewDel(context.Background(), []byte("t"), row, values, opts...)
					case "append":
						call, err = hrpc.NewApp(context.Background(), []byte("t"), row, values, opts...)
					case "increment":
						call, err = hrpc.NewInc(context.Background(), []byte("t"), row, values, opts...)
					}
					if err != nil {
						return nil, sentCall{}, false
					}
					call.SetRegion(env.regionFor(string(row)))
					var want []string
					for _, c := range m.Cells {
						v := c05bs(c.Value)
						if bigVal != nil && bytes.Equal(c05bs(c.Value), firstValue(m)) && fmt.Sprint(c.Family, c.Qualifier) == firstFQ(m) {
							v = bigVal
						}
						want = append(want, fmt.Sprintf("%q|%q|%d|%d|%q", c05bs(c.Family), c05bs(c.Qualifier), binary.BigEndian.Uint64(c05bs(c.Ts)), c.Type, v))
					}
					sort.Strings(want)
					return call, sentCall{desc: fmt.Sprintf("%s oneVersion=%v latest=%v durability=%d ttl=%d row=%q", m.Kind, m.OneVersion, m.Latest, x.Durability, x.TtlMs, row),
						check: func(req *verifsim.Request, param proto.Message, kvs []verifsim.KV) string {
							var mp *pb.MutationProto
							switch p := param.(type) {
							case *pb.MutateRequest:
								mp = p.GetMutation()
								if !bytes.Equal(p.GetRegion().GetValue(), env.regionFor(string(row)).Name()) {
									return "region specifier is not the call's region"
								}
							case *pb.Action:
								mp = p.GetMutation()
							}
							if mp == nil {
								return "not a mutation"
							}
							if !bytes.Equal(mp.GetRow(), row) {
								return fmt.Sprintf("row %q, want %q", mp.GetRow(), row)
							}
							wantType := map[string]pb.MutationProto_MutationType{"put": pb.MutationProto_PUT, "delete": pb.MutationProto_DELETE,
								"append": pb.MutationProto_APPEND, "increment": pb.MutationProto_INCREMENT}[m.Kind]
							if mp.GetMutateType() != wantType {
								return fmt.Sprintf("mutate_type %v, want %v", mp.GetMutateType(), wantType)
							}
							if int(mp.GetDurability()) != x.Durability {
								return fmt.Sprintf("durability %v, want %d", mp.GetDurability(), x.Durability)
							}
							var ttl []byte
							for _, a := range mp.GetAttribute() {
								if a.GetName() == "_ttl" {
									ttl = a.GetValue()
								}
							}
							if x.TtlMs > 0 {
								if len(ttl) != 8 || int(binary.BigEndian.Uint64(ttl)) != x.TtlMs {
									return fmt.Sprintf("_ttl attribute %v, want %d ms", ttl, x.TtlMs)
								}
							}
							if m.Latest != (mp.Timestamp == nil) {
								return "mutation timestamp presence differs"
							}
							if int(mp.GetAssociatedCellCount()) != len(kvs) {
								return fmt.Sprintf("associated_cell_count %d but %d cells belong to it", mp.GetAssociatedCellCount(), len(kvs))
							}
							for _, kv := range kvs {
								if !bytes.Equal(kv.Row, row) {
									return "a cell of another row"
								}
							}
							got := c05mutCells(mp, kvs)
							if fmt.Sprint(got) != fmt.Sprint(want) {
								if len(got) > 3 || len(want) > 3 {
									return fmt.Sprintf("%d cells decoded, %d expected (or contents differ)", len(got), len(want))
								}
								return fmt.Sprintf("cells %.300v, want %.300v", got, want)
							}
							return ""
						}}, true
				}
				// send a group (one QueueBatch or single QueueRPCs), collect what the server decoded, check
				flushGroup := func(calls []hrpc.Call, metas []sentCall, batch bool) {
					if len(calls) == 0 {
						return
					}
					if batch {
						env.c.QueueBatch(context.Background(), calls)
					} else {
						for _, c := range calls {
							env.c.QueueRPC(c)
						}
					}
					time.Sleep(2 * time.Millisecond)
					synctest.Wait()
					var reqs []*verifsim.Request
				drain:
					for {
						select {
						case r := <-env.reqs:
							reqs = append(reqs, r)
						default:
							break drain
						}
					}
					for _, c := range calls {
						select {
						case <-c.ResultChan():
						default:
						}
					}
					rep.Scenarios++
					// map decoded operations back to calls by row (rows are random, collisions are negligible but tolerated)
					type dec struct {
						req   *verifsim.Request
						param proto.Message
						kvs   []verifsim.KV
					}
					byRow := map[string][]dec{}
					for _, r := range reqs {
						kvs, err := verifsim.DecodeKVs(r.CellBlock)
						if err != nil {
							rep.bad("cellblock-undecodable", "%s: cellblock of call %d does not decode: %v", name, r.CallID, err)
							continue
						}
						switch p := r.Param.(type) {
						case *pb.GetRequest:
							byRow[string(p.GetGet().GetRow())] = append(byRow[string(p.GetGet().GetRow())], dec{r, p, nil})
						case *pb.MutateRequest:
							if int(p.GetMutation().GetAssociatedCellCount()) != len(kvs) {
								rep.bad("cellblock-count", "%s: mutate announces %d cells, the cellblock holds %d", name, p.GetMutation().GetAssociatedCellCount(), len(kvs))
							}
							byRow[string(p.GetMutation().GetRow())] = append(byRow[string(p.GetMutation().GetRow())], dec{r, p, kvs})
						case *pb.MultiRequest:
							total := 0
							for _, ra := range p.GetRegionAction() {
								for _, a := range ra.GetAction() {
									if a.Mutation != nil {
										n := int(a.Mutation.GetAssociatedCellCount())
										if total+n > len(kvs) {
											rep.bad("cellblock-count", "%s: multi announces more cells than the cellblock holds", name)
											n = len(kvs) - total
										}
										byRow[string(a.Mutation.GetRow())] = append(byRow[string(a.Mutation.GetRow())], dec{r, a, kvs[total : total+n]})
										total += n
									} else if a.Get != nil {
										byRow[string(a.Get.GetRow())] = append(byRow[string(a.Get.GetRow())], dec{r, a, nil})
									}
									reg := string(ra.GetRegion().GetValue())
									var row []byte
									if a.Get != nil {
										row = a.Get.GetRow()
									} else {
										row = a.Mutation.GetRow()
									}
									if reg != string(env.regionFor(string(row)).Name()) {
										rep.bad("multi-wrong-region", "%s: action for row %q filed under region %q", name, row, reg)
									}
								}
							}
							if total != len(kvs) {
								rep.bad("cellblock-count", "%s: multi announces %d cells in total, the cellblock holds %d", name, total, len(kvs))
							}
						}
					}
					for i, c := range calls {
						row := string(c.Key())
						ds := byRow[row]
						if len(ds) == 0 {
							rep.bad("call-not-on-wire", "%s: %s never reached the server", name, metas[i].desc)
							continue
						}
						d := ds[0]
						byRow[row] = ds[1:]
						if why := metas[i].check(d.req, d.param, d.kvs); why != "" {
							rep.bad("decoded-op-differs", "%s: %s: the server decodes %s", name, metas[i].desc, why)
						}
						rep.Distinct++
					}
				}
				_ = pending
				// gets: every option combination
				var calls []hrpc.Call
				var metas []sentCall
				group := 1
				for qi, q := range queries {
					if qi%reps != int(seed)%reps && reps > 1 && false {
						continue
					}
					c, m := mkGet(q, queue > 1)
					calls, metas = append(calls, c), append(metas, m)
					if len(calls) >= group {
						flushGroup(calls, metas, queue > 1)
						calls, metas = nil, nil
						group = 1 + (group % queue) // groupings of 1..queue calls
					}
				}
				flushGroup(calls, metas, queue > 1)
				calls, metas = nil, nil
				// mutations: every shape x a rotating extra; one in 97 with a value above the chunk size
				for mi, m := range muts {
					x := extras[mi%len(extras)]
					c, meta, ok := mkMut(m, x, queue > 1, mi%97 == 5 && len(m.Cells) > 0)
					if !ok {
						continue
					}
					calls, metas = append(calls, c), append(metas, meta)
					if len(calls) >= group {
						flushGroup(calls, metas, queue > 1)
						calls, metas = nil, nil
						group = 1 + (group % queue)
					}
				}
				flushGroup(calls, metas, queue > 1)
				// scans (never batched)
				for _, s := range scans {
					var opts []func(hrpc.Call) error
					if s.Opt.Reversed {
						opts = append(opts, hrpc.Reversed())
					}
					if s.Opt.NumberOfRows >= 0 {
						opts = append(opts, hrpc.NumberOfRows(uint32(s.Opt.NumberOfRows)))
					}
					if s.Opt.MaxResultSize >= 0 {
						opts = append(opts, hrpc.MaxResultSize(uint64(s.Opt.MaxResultSize)))
					}
					q := queries[rng.Intn(len(queries))]
					q.Opt.ExistsOnly, q.Exp.ExistsOnly = false, false
					opts = append(opts, c05queryOpts(q)...)
					sc, err := hrpc.NewScanRange(context.Background(), []byte("t"), c05bs(s.Opt.Start), c05bs(s.Opt.Stop), opts...)
					if err != nil {
						panic(err)
					}
					sc.SetRegion(env.reg)
					env.c.QueueRPC(sc)
					time.Sleep(time.Millisecond)
					synctest.Wait()
					rep.Scenarios++
					select {
					case req := <-env.reqs:
						p, ok := req.Param.(*pb.ScanRequest)
						if !ok {
							rep.bad("decoded-op-differs", "%s: scan arrived as %s", name, req.Method)
							break
						}
						why := ""
						switch {
						case !bytes.Equal(p.GetScan().GetStartRow(), c05bs(s.Exp.Start)) || !bytes.Equal(p.GetScan().GetStopRow(), c05bs(s.Exp.Stop)):
							why = "scan bounds differ"
						case p.GetScan().GetReversed() != s.Exp.Reversed:
							why = "direction differs"
						case int(p.GetNumberOfRows()) != s.Exp.NumberOfRows:
							why = fmt.Sprintf("number_of_rows %d, want %d", p.GetNumberOfRows(), s.Exp.NumberOfRows)
						case int(p.GetScan().GetMaxResultSize()) != s.Exp.MaxResultSize:
							why = fmt.Sprintf("max_result_size %d, want %d", p.GetScan().GetMaxResultSize(), s.Exp.MaxResultSize)
						case p.GetCloseScanner() != s.Exp.CloseScanner || p.GetRenew() != s.Exp.Renew ||
							p.GetClientHandlesPartials() != s.Exp.HandlesPartials || p.GetClientHandlesHeartbeats() != s.Exp.HandlesHeartbeats:
							why = "scan flags differ"
						case p.ScannerId != nil:
							why = "an opening scan carries a scanner id"
						case !bytes.Equal(p.GetRegion().GetValue(), env.reg.Name()):
							why = "region specifier differs"
						default:
							sq := p.GetScan()
							why = c05checkQuery(q, sq.GetColumn(), sq.GetTimeRange(), sq.MaxVersions, sq.StoreLimit, sq.StoreOffset, sq.CacheBlocks,
								sq.Consistency, sq.GetFilter(), req.Priority)
						}
						if why != "" {
							rep.bad("decoded-op-differs", "%s: scan %+v with %+v: the server decodes %s", name, s.Opt, q.Opt, why)
						}
						rep.Distinct++
					default:
						rep.bad("call-not-on-wire", "%s: scan %+v never reached the server", name, s.Opt)
					}
				}
				for _, p := range env.sc.GetProblems() {
					rep.bad("wire-malformed", "%s: server-side decoder: %s", name, p)
				}
			})
		}
	}
	rep.Samples = append(rep.Samples, map[string]any{"queries": len(queries), "mutations": len(muts), "scans": len(scans), "extras": len(extras)})
}

func firstValue(m c05Mut) []byte {
	for _, f := range m.Fams {
		if !f.Inner.Nil {
			for _, qv := range f.Inner.Qs {
				return c05bs(qv.V)
			}
		}
	}
	return nil
}
func firstFQ(m c05Mut) string {
	for _, f := range m.Fams {
		if !f.Inner.Nil {
			for _, qv := range f.Inner.Qs {
				return fmt.Sprint(f.F, qv.Q)
			}
		}
	}
	return ""
}
