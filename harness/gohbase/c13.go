package gohbase

// C13 driver: for every wait state of Cancellation.tla x every API entry
// point x {cancel, deadline} the real client is driven into that state
// (blocked ZooKeeper, silent hbase:meta, a region whose probe is never
// answered, a persistent retry-later answer, a batcher stuck in a held write,
// a silent server), it is confirmed to be blocked at a quiescent point, the
// context is ended, and the call must have returned with the context's error
// with no virtual time elapsed (deadline: exactly at the deadline).

import (
	"context"
	"errors"
	"fmt"
	"math/rand"
	"os"
	"strconv"
	"strings"
	"sync"
	"sync/atomic"
	"testing"
	"testing/synctest"
	"time"

	"github.com/tsuna/gohbase/hrpc"
	"github.com/tsuna/gohbase/internal/verifsim"
)

type c13State struct {
	name  string
	setup func(cl *verifsim.Cluster, release chan struct{})
	// warm: establish the table's region first (the state is reached by a later request)
	warm    bool
	dropped bool          // ... and make the client see another table disappear (looked up again: table not found)
	after   time.Duration // how long after the call starts the client is certainly in the state
	queue   int
}

func TestVerifC13(t *testing.T) {
	out := os.Getenv("VERIF_OUT")
	if out == "" {
		t.Skip("VERIF_OUT not set")
	}
	rep := &simReport{Extra: map[string]any{}}
	simOnStall("c13_result.json", rep)
	defer simWriteReport("c13_result.json", rep)

	states := []c13State{
		{name: "zookeeper", after: 100 * time.Millisecond, setup: func(cl *verifsim.Cluster, release chan struct{}) { cl.ZKHold = release }},
		{name: "meta-lookup", after: 100 * time.Millisecond, setup: func(cl *verifsim.Cluster, release chan struct{}) { cl.MetaMode = "silent" }},
		{name: "region-reestablishing", after: 100 * time.Millisecond, setup: func(cl *verifsim.Cluster, release chan struct{}) {
			cl.Rules = append(cl.Rules, func(c *verifsim.Cluster, rs *verifsim.RS, sc *verifsim.ServerConn, req *verifsim.Request, name []byte) *verifsim.Directive {
				if rs.Addr == "rs1" && verifsim.IsProbe(req) {
					return &verifsim.Directive{Exc: verifsim.ExcNotServing} // never comes online
				}
				return nil
			})
		}},
		{name: "region-probe-unanswered", after: 100 * time.Millisecond, setup: func(cl *verifsim.Cluster, release chan struct{}) {
			cl.Rules = append(cl.Rules, func(c *verifsim.Cluster, rs *verifsim.RS, sc *verifsim.ServerConn, req *verifsim.Request, name []byte) *verifsim.Directive {
				if rs.Addr == "rs1" && verifsim.IsProbe(req) {
					return &verifsim.Directive{Silent: true}
				}
				return nil
			})
		}},
		{name: "retry-backoff", warm: true, after: 700 * time.Millisecond, setup: func(cl *verifsim.Cluster, release chan struct{}) {
			cl.Rules = append(cl.Rules, func(c *verifsim.Cluster, rs *verifsim.RS, sc *verifsim.ServerConn, req *verifsim.Request, name []byte) *verifsim.Directive {
				if rs.Addr == "rs1" && !verifsim.IsProbe(req) && req.Method != "Scan" {
					return &verifsim.Directive{Exc: verifsim.ExcTooBusy}
				}
				if rs.Addr == "rs1" && req.Method == "Scan" {
					return &verifsim.Directive{Exc: verifsim.ExcRegionOpening}
				}
				return nil
			})
		}},
		{name: "silent-server", warm: true, after: 100 * time.Millisecond, setup: func(cl *verifsim.Cluster, release chan struct{}) {
			cl.Rules = append(cl.Rules, func(c *verifsim.Cluster, rs *verifsim.RS, sc *verifsim.ServerConn, req *verifsim.Request, name []byte) *verifsim.Directive {
				if rs.Addr == "rs1" && !verifsim.IsProbe(req) {
					return &verifsim.Directive{Silent: true}
				}
				return nil
			})
		}},
		{name: "silent-server-after-a-table-was-dropped", warm: true, dropped: true, after: 100 * time.Millisecond, setup: func(cl *verifsim.Cluster, release chan struct{}) {
			// (the client has seen a table disappear before: a region it knew was looked up again and is gone)
			cl.Rules = append(cl.Rules, func(c *verifsim.Cluster, rs *verifsim.RS, sc *verifsim.ServerConn, req *verifsim.Request, name []byte) *verifsim.Directive {
				if rs.Addr == "rs1" && !verifsim.IsProbe(req) {
					return &verifsim.Directive{Silent: true}
				}
				return nil
			})
		}},
		{name: "busy-send-queue", warm: true, queue: 2, after: 100 * time.Millisecond, setup: func(cl *verifsim.Cluster, release chan struct{}) {
			// the batcher gets stuck in the write of its next multi request
			cl.ConnHook = func(op verifsim.Op) *verifsim.Fault {
				if op.Kind == verifsim.OpWrite && strings.Contains(string(op.Data), "Multi") && strings.Contains(string(op.Data), "blocker") {
					<-release
				}
				return nil
			}
		}},
	}
	entries := []string{"get", "put", "batch-shared-ctx", "batch-own-ctx-only-call", "batch-own-ctx-one-of-two", "batch-ctx-calls-have-their-own", "scan", "scan-mid-region"}
	kinds := []string{"cancel", "deadline"}

	for _, st := range states {
		for _, entry := range entries {
			for _, kind := range kinds {
				if st.name == "busy-send-queue" && (entry == "scan" || entry == "get" || entry == "put") {
					// unbatched calls do not go through the batcher's queue (a caller blocked inside conn.Write itself is not
					// among the states the property lists)
					if entry == "scan" {
						continue
					}
				}
				if entry == "scan-mid-region" && st.name != "silent-server" && st.name != "retry-backoff" {
					// a scanner that holds an open region scanner only talks to that region's server
					continue
				}
				name := fmt.Sprintf("%s/%s/%s", st.name, entry, kind)
				verifsim.Bubble(t, func(t *testing.T) {
					tr := &verifsim.Trace{}
					cl := verifsim.NewCluster(tr)
					cl.AddServer("ms")
					cl.AddServer("rs1")
					cl.CreateTable("t", nil, []string{"rs1"})
					for _, k := range []string{"r1", "r2", "r3", "r4"} {
						cl.PutRow("t", []byte(k), []verifsim.KV{{Row: []byte(k), Family: []byte("f"), Qualifier: []byte("q"), Timestamp: 1, Type: 4, Value: []byte("v")}})
					}
					release := make(chan struct{})
					queue := st.queue
					if queue == 0 {
						queue = 1
						if strings.HasPrefix(entry, "batch") {
							queue = 3
						}
					}
					if st.name == "busy-send-queue" {
						st.setup(cl, release) // the conn hook must be there before the connection is made
					}
					c := newSimClient(cl, RpcQueueSize(queue))
					if st.warm {
						g, _ := hrpc.NewGet(context.Background(), []byte("t"), []byte("warm"))
						c.Get(g)
						synctest.Wait()
					}
					if st.dropped {
						cl.CreateTable("gone", nil, []string{"rs1"})
						dctx, dcancel := context.WithTimeout(context.Background(), time.Minute)
						g, _ := hrpc.NewGet(dctx, []byte("gone"), []byte("k"))
						c.Get(g)
						cl.DropTable("gone")
						g2, _ := hrpc.NewGet(dctx, []byte("gone"), []byte("k"))
						c.Get(g2) // not serving, looked up again, table not found
						dcancel()
						synctest.Wait()
					}
					var ctx context.Context
					var cancel context.CancelFunc
					var midScan hrpc.Scanner
					t0 := time.Now()
					deadline := st.after + 150*time.Millisecond
					if entry == "scan-mid-region" {
						// the scanner is created and reads one row BEFORE the state is set up: it then holds an open region scanner
						if kind == "deadline" {
							ctx, cancel = context.WithDeadline(context.Background(), t0.Add(deadline))
						} else {
							ctx, cancel = context.WithCancel(context.Background())
						}
						sc, _ := hrpc.NewScanStr(ctx, "t", hrpc.NumberOfRows(1))
						midScan = c.Scan(sc)
						if _, err := midScan.Next(); err != nil {
							rep.bad("harness:c13-scan", "%s: the first Next of the warm scanner failed: %v", name, err)
						}
						synctest.Wait()
					}
					if st.name != "busy-send-queue" {
						cl.Lock()
						st.setup(cl, release)
						cl.Unlock()
					} else {
						// occupy the batcher: a batched put whose multi write is held
						go func() {
							p, _ := hrpc.NewPut(context.Background(), []byte("t"), []byte("blocker"), map[string]map[string][]byte{"f": {"q": []byte("v")}})
							c.Put(p)
						}()
						time.Sleep(20 * time.Millisecond)
						synctest.Wait()
					}
					if midScan == nil {
						t0 = time.Now()
						if kind == "deadline" {
							ctx, cancel = context.WithDeadline(context.Background(), t0.Add(deadline))
						} else {
							ctx, cancel = context.WithCancel(context.Background())
						}
					}
					defer cancel()
					var mu sync.Mutex
					var gotErr error
					var batchRes []hrpc.RPCResult
					var batchOK bool
					returned := false
					var retAt time.Time
					otherCtx, otherCancel := context.WithCancel(context.Background())
					defer otherCancel()
					vals := map[string]map[string][]byte{"f": {"q": []byte("v")}}
					go func() {
						var err error
						switch entry {
						case "get":
							g, _ := hrpc.NewGet(ctx, []byte("t"), []byte("k1"))
							_, err = c.Get(g)
						case "put":
							p, _ := hrpc.NewPut(ctx, []byte("t"), []byte("k1"), vals)
							_, err = c.Put(p)
						case "scan":
							s, _ := hrpc.NewScanStr(ctx, "t")
							_, err = c.Scan(s).Next()
						case "scan-mid-region":
							_, err = midScan.Next()
						case "batch-shared-ctx":
							p1, _ := hrpc.NewPut(ctx, []byte("t"), []byte("k1"), vals)
							p2, _ := hrpc.NewPut(ctx, []byte("t"), []byte("k2"), vals)
							res, ok := c.SendBatch(ctx, []hrpc.Call{p1, p2})
							mu.Lock()
							batchRes, batchOK = res, ok
							mu.Unlock()
						case "batch-ctx-calls-have-their-own":
							// the batch context is the one that ends; the calls were built with another context that stays live
							p1, _ := hrpc.NewPut(otherCtx, []byte("t"), []byte("k1"), vals)
							p2, _ := hrpc.NewPut(context.Background(), []byte("t"), []byte("k2"), vals)
							res, ok := c.SendBatch(ctx, []hrpc.Call{p1, p2})
							mu.Lock()
							batchRes, batchOK = res, ok
							mu.Unlock()
						case "batch-own-ctx-only-call":
							// the batch context stays live; the only call carries the context that ends
							p1, _ := hrpc.NewPut(ctx, []byte("t"), []byte("k1"), vals)
							res, ok := c.SendBatch(otherCtx, []hrpc.Call{p1})
							mu.Lock()
							batchRes, batchOK = res, ok
							mu.Unlock()
						case "batch-own-ctx-one-of-two":
							p1, _ := hrpc.NewPut(ctx, []byte("t"), []byte("k1"), vals)
							p2, _ := hrpc.NewPut(otherCtx, []byte("t"), []byte("k2"), vals)
							res, ok := c.SendBatch(otherCtx, []hrpc.Call{p1, p2})
							mu.Lock()
							batchRes, batchOK = res, ok
							mu.Unlock()
						}
						mu.Lock()
						gotErr, returned, retAt = err, true, time.Now()
						mu.Unlock()
					}()
					time.Sleep(st.after)
					synctest.Wait()
					mu.Lock()
					early := returned
					mu.Unlock()
					if early {
						rep.bad("harness:state-not-reached", "%s: the call returned before the context ended (%v): the wait state was not reached", name, gotErr)
					}
					endAt := time.Now()
					// (a client that answers an ended context by spinning keeps virtual time from advancing: the scenario would never end)
					verifsim.ArmStallVerdict("cancel-ignored:"+st.name, fmt.Sprintf("%s: after its context ended (%s) the call neither returned nor blocked: "+
						"the client spins without looking at the context", name, kind))
					if kind == "cancel" {
						cancel()
					} else {
						time.Sleep(time.Until(t0.Add(deadline)))
						endAt = t0.Add(deadline)
					}
					synctest.Wait()
					if entry == "batch-own-ctx-one-of-two" {
						// the other call is still pending: the batch can only return once that is over too - end it now and
						// check how the cancelled call is marked
						otherCancel()
						synctest.Wait()
					}
					verifsim.DisarmStallVerdict()
					mu.Lock()
					r, e, at := returned, gotErr, retAt
					br, bok := batchRes, batchOK
					mu.Unlock()
					wantErr := context.Canceled
					if kind == "deadline" {
						wantErr = context.DeadlineExceeded
					}
					isCtx := func(err error) bool {
						return err != nil && (errors.Is(err, context.Canceled) || errors.Is(err, context.DeadlineExceeded))
					}
					rep.Scenarios++
					rep.Distinct++
					switch {
					case !r:
						sig := "cancel-ignored:" + st.name
						if entry == "batch-own-ctx-only-call" {
							sig = "cancel-ignored:batch-call-own-context:" + st.name
						}
						rep.bad(sig, "%s: the call is still blocked after its context ended (%v)", name, wantErr)
					case entry != "batch-own-ctx-one-of-two" && at.After(endAt):
						rep.bad("cancel-slow:"+st.name, "%s: the call returned %v after its context ended", name, at.Sub(endAt))
					}
					if r {
						if strings.HasPrefix(entry, "batch") {
							// "a batch returns with that call marked failed": not successful, and the call whose context ended has
							// an error (its context error, or the retryable error it was about to be retried for)
							_ = isCtx
							if bok || len(br) == 0 || br[0].Error == nil {
								var e0 error
								if len(br) > 0 {
									e0 = br[0].Error
								}
								rep.bad("cancel-wrong-result", "%s: batch returned ok=%v with first result error %v; the cancelled call must be marked failed", name, bok, e0)
							}
						} else if !errors.Is(e, wantErr) {
							rep.bad("cancel-wrong-error", "%s: returned %v, want %v", name, e, wantErr)
						}
					}
					// tear down
					otherCancel()
					cancel()
					select {
					case <-release:
					default:
						close(release)
					}
					cl.Lock()
					cl.Rules = nil
					cl.MetaMode = ""
					cl.Unlock()
					time.Sleep(3 * time.Minute)
					c.Close()
					time.Sleep(2 * time.Minute)
					synctest.Wait()
				})
			}
		}
	}

	// ---- "a batch returns with that call marked failed" also when the rest of the batch needed another round: one call's own
	// context ends while its server is silent; another call, on another server, is answered retry-later once and then
	// succeeds. The batch comes back without waiting for the silent server, the first call carries its context's error, the
	// second its answer - and the batch as a whole is NOT reported successful.
	for _, kind := range kinds {
		name := "batch-call-own-context-ends-while-another-call-is-retried/" + kind
		verifsim.Bubble(t, func(t *testing.T) {
			tr := &verifsim.Trace{}
			cl := verifsim.NewCluster(tr)
			for _, a := range []string{"ms", "rs1", "rs2"} {
				cl.AddServer(a)
			}
			cl.CreateTable("t", [][]byte{[]byte("m")}, []string{"rs1", "rs2"})
			c := newSimClient(cl, RpcQueueSize(3))
			for _, k := range []string{"a0", "n0"} {
				g, _ := hrpc.NewGet(context.Background(), []byte("t"), []byte(k))
				c.Get(g)
			}
			synctest.Wait()
			var once atomic.Bool
			cl.Lock()
			cl.Rules = append(cl.Rules, func(_ *verifsim.Cluster, rs *verifsim.RS, sc *verifsim.ServerConn, req *verifsim.Request, rn []byte) *verifsim.Directive {
				if rs.Addr == "rs1" && !verifsim.IsProbe(req) {
					return &verifsim.Directive{Silent: true}
				}
				return nil
			})
			cl.ActionHook = func(rs *verifsim.RS, r *verifsim.Region, op string, row []byte) string {
				if rs.Addr == "rs2" && string(row) == "n1" && once.CompareAndSwap(false, true) {
					return verifsim.ExcTooBusy
				}
				return ""
			}
			cl.Unlock()
			var own context.Context
			var cancelOwn context.CancelFunc
			if kind == "deadline" {
				own, cancelOwn = context.WithTimeout(context.Background(), 5*time.Millisecond)
			} else {
				own, cancelOwn = context.WithCancel(context.Background())
			}
			defer cancelOwn()
			vals := map[string]map[string][]byte{"f": {"q": []byte("v")}}
			p1, _ := hrpc.NewPut(own, []byte("t"), []byte("a1"), vals)
			p2, _ := hrpc.NewPut(context.Background(), []byte("t"), []byte("n1"), vals)
			done := make(chan struct{})
			var res []hrpc.RPCResult
			var allOK bool
			go func() { res, allOK = c.SendBatch(context.Background(), []hrpc.Call{p1, p2}); close(done) }()
			time.Sleep(5 * time.Millisecond) // (less than the first back-off: the second call is waiting to be sent again)
			synctest.Wait()
			cancelOwn()
			time.Sleep(time.Second)
			synctest.Wait()
			rep.Scenarios++
			rep.Distinct++
			select {
			case <-done:
				switch {
				case len(res) != 2 || res[0].Error == nil || !(errors.Is(res[0].Error, context.Canceled) || errors.Is(res[0].Error, context.DeadlineExceeded)):
					rep.bad("cancel-wrong-result", "%s: the call whose context ended carries %v, want its context's error", name, res)
				case res[1].Error != nil:
					rep.bad("cancel-wrong-result", "%s: the other call (retried once, then answered) carries %v", name, res[1].Error)
				case allOK:
					rep.bad("cancel-wrong-result", "%s: the batch is reported successful (allOK=true) although the call whose context ended is marked failed (%v)", name, res[0].Error)
				}
			default:
				rep.bad("cancel-ignored:batch-call-own-context:silent-server", "%s: the batch is still blocked 1 s after the context of its call to the silent server ended", name)
			}
			cl.Lock()
			cl.Rules = nil
			cl.Unlock()
			time.Sleep(3 * time.Minute)
			c.Close()
			time.Sleep(2 * time.Minute)
			synctest.Wait()
		})
	}

	// ---- busy send queue with another caller waiting in front (REAL time, outside a bubble: a wait that is not a channel
	// operation - a lock - would not let a bubble's clock run). The batcher is stuck in a write; a call with a live context
	// waits for the queue; behind it the call in question waits too. Ending ITS context must end ITS wait, whoever else waits.
	for _, entry := range []string{"get", "put", "batch-shared-ctx"} {
		for _, kind := range kinds {
			func() {
				name := fmt.Sprintf("busy-send-queue-another-caller-waits-in-front/%s/%s", entry, kind)
				tr := &verifsim.Trace{}
				cl := verifsim.NewCluster(tr)
				cl.AddServer("ms")
				cl.AddServer("rs1")
				cl.CreateTable("t", nil, []string{"rs1"})
				release := make(chan struct{})
				cl.ConnHook = func(op verifsim.Op) *verifsim.Fault {
					if op.Kind == verifsim.OpWrite && strings.Contains(string(op.Data), "Multi") && strings.Contains(string(op.Data), "blocker") {
						<-release
					}
					return nil
				}
				c := newSimClient(cl, RpcQueueSize(2))
				g, _ := hrpc.NewGet(context.Background(), []byte("t"), []byte("warm"))
				c.Get(g)
				vals := map[string]map[string][]byte{"f": {"q": []byte("v")}}
				bg := func(row string) {
					go func() {
						p, _ := hrpc.NewPut(context.Background(), []byte("t"), []byte(row), vals)
						c.Put(p)
					}()
					time.Sleep(50 * time.Millisecond)
				}
				bg("blocker")  // its multi is held in the write
				bg("in-front") // waits for the queue, with a context that stays live
				var ctx context.Context
				var cancel context.CancelFunc
				if kind == "deadline" {
					ctx, cancel = context.WithTimeout(context.Background(), 150*time.Millisecond)
				} else {
					ctx, cancel = context.WithCancel(context.Background())
				}
				defer cancel()
				done := make(chan error, 1)
				go func() {
					var err error
					switch entry {
					case "get":
						g, _ := hrpc.NewGet(ctx, []byte("t"), []byte("k1"))
						_, err = c.Get(g)
					case "put":
						p, _ := hrpc.NewPut(ctx, []byte("t"), []byte("k1"), vals)
						_, err = c.Put(p)
					default:
						p1, _ := hrpc.NewPut(ctx, []byte("t"), []byte("k1"), vals)
						p2, _ := hrpc.NewPut(ctx, []byte("t"), []byte("k2"), vals)
						res, ok := c.SendBatch(ctx, []hrpc.Call{p1, p2})
						if !ok && len(res) > 0 {
							err = res[0].Error
						}
					}
					done <- err
				}()
				early := false
				select {
				case <-done:
					early = true
				case <-time.After(100 * time.Millisecond):
				}
				if early {
					rep.bad("harness:state-not-reached", "%s: the call returned before its context ended", name)
				} else {
					if kind == "cancel" {
						cancel()
					}
					select {
					case err := <-done:
						if err == nil || !(errors.Is(err, context.Canceled) || errors.Is(err, context.DeadlineExceeded)) {
							rep.bad("cancel-wrong-error", "%s: returned %v, want the context's error", name, err)
						}
					case <-time.After(3 * time.Second):
						rep.bad("cancel-ignored:busy-send-queue", "%s: the call is still blocked 3 s after its context ended, while another caller (whose context is live) "+
							"waits for the same queue in front of it", name)
					}
				}
				rep.Scenarios++
				rep.Distinct++
				close(release)
				time.Sleep(100 * time.Millisecond)
				c.Close()
			}()
		}
	}

	// ---- inside the connection (REAL time): the caller of an unbatched request has written it and is about to count it
	// when the reader fails the connection (its own deadline operation failed). Whatever the connection's bookkeeping is
	// doing at that moment, the caller comes back: with its answer, a retry's answer, or - once its context ends - the
	// context's error.
	for rep2 := 0; rep2 < 2; rep2++ {
		func() {
			name := fmt.Sprintf("inside-the-connection/reader-fails-while-the-caller-sits-between-write-and-count/%d", rep2)
			tr := &verifsim.Trace{}
			cl := verifsim.NewCluster(tr)
			cl.AddServer("ms")
			cl.AddServer("rs1")
			cl.CreateTable("t", nil, []string{"rs1"})
			var failNext atomic.Bool
			cl.ConnHook = func(op verifsim.Op) *verifsim.Fault {
				if op.Kind == verifsim.OpReadDeadline && op.Time.IsZero() && failNext.CompareAndSwap(true, false) {
					return &verifsim.Fault{Err: verifsim.ErrInjected}
				}
				return nil
			}
			hold := make(chan struct{})
			var held atomic.Bool
			cl.Rules = append(cl.Rules, func(_ *verifsim.Cluster, rs *verifsim.RS, sc *verifsim.ServerConn, req *verifsim.Request, rn []byte) *verifsim.Directive {
				if string(verifsim.RowOf(req)) == "k1" && held.CompareAndSwap(false, true) {
					return &verifsim.Directive{Hold: hold}
				}
				return nil
			})
			c := newSimClient(cl, RpcQueueSize(1))
			g0, _ := hrpc.NewGet(context.Background(), []byte("t"), []byte("warm"))
			c.Get(g0)
			go func() {
				g1, _ := hrpc.NewGet(context.Background(), []byte("t"), []byte("k1"))
				c.Get(g1)
			}()
			for i := 0; i < 500 && !held.Load(); i++ {
				time.Sleep(10 * time.Millisecond)
			}
			parked, release := make(chan struct{}), make(chan struct{})
			var once atomic.Bool
			simSetRegionHook(func(point string, rc any, arg any) {
				if r, ok := rc.(hrpc.RegionClient); ok && r.Addr() == "rs1" && point == "send.written" && once.CompareAndSwap(false, true) {
					close(parked)
					select {
					case <-release:
					case <-time.After(5 * time.Second):
					}
				}
			})
			ctx, cancel := context.WithCancel(context.Background())
			defer cancel()
			done := make(chan error, 1)
			go func() {
				g2, _ := hrpc.NewGet(ctx, []byte("t"), []byte("k2"))
				_, err := c.Get(g2)
				done <- err
			}()
			ok := held.Load()
			select {
			case <-parked:
			case <-time.After(5 * time.Second):
				ok = false
			}
			if !ok {
				rep.bad("harness:c13-conn", "%s: the schedule could not be set up", name)
			}
			failNext.Store(true)
			close(hold) // k1 is answered: the reader brings the count to zero, its clearing of the read deadline fails
			time.Sleep(200 * time.Millisecond)
			close(release)
			simSetRegionHook(nil)
			time.Sleep(200 * time.Millisecond)
			cancel()
			select {
			case <-done:
			case <-time.After(3 * time.Second):
				rep.bad("cancel-ignored:inside-the-connection", "%s: the get is still blocked 3 s after its context was cancelled; it had written its request when the "+
					"reader failed the connection", name)
			}
			rep.Scenarios++
			rep.Distinct++
			c.Close()
			time.Sleep(100 * time.Millisecond)
		}()
	}
}

// TestVerifC13Scripts: "all client states reachable by the fault scripts of C04 at the instant of cancellation": the seeded
// fault scripts of the request-loop driver with every call under one context that is cancelled at a random instant while
// the cluster is still in whatever state the script left it. At the next quiescent point every call must have returned,
// and none of them later than the instant of the cancellation.
func TestVerifC13Scripts(t *testing.T) {
	out := os.Getenv("VERIF_OUT")
	if out == "" {
		t.Skip("VERIF_OUT not set")
	}
	seed, _ := strconv.ParseInt(os.Getenv("VERIF_SEED"), 10, 64)
	nrand, _ := strconv.Atoi(os.Getenv("VERIF_N"))
	rep := &simReport{Extra: map[string]any{}}
	simOnStall("c13s_result.json", rep)
	defer simWriteReport("c13s_result.json", rep)
	rng := rand.New(rand.NewSource(seed*7919 + 13))
	states := map[string]int{}
	for k := 0; k < nrand; k++ {
		queue := []int{1, 1, 4}[rng.Intn(3)]
		nreg := 2 + rng.Intn(3)
		g := 2 + rng.Intn(8)
		nev := 1 + rng.Intn(6)
		deadline := rng.Intn(3) == 0
		name := fmt.Sprintf("scripts/%d/q=%d/regions=%d/callers=%d/events=%d/deadline=%v", k, queue, nreg, g, nev, deadline)
		sr := rand.New(rand.NewSource(rng.Int63()))
		verifsim.Bubble(t, func(t *testing.T) {
			e := newRLEnv(queue, nreg)
			servers := []string{"rs1", "rs2", "rs3"}
			// the script's timing is drawn first: the context ends a short (sometimes long) while after the last event, when the
			// calls started around it are most likely in the middle of something
			gaps := make([]time.Duration, nev)
			var when time.Duration
			for i := range gaps {
				gaps[i] = time.Duration(sr.Intn(30)) * time.Millisecond
				when += gaps[i]
			}
			when += []time.Duration{0, time.Millisecond, 5 * time.Millisecond, 17 * time.Millisecond, 40 * time.Millisecond, 150 * time.Millisecond,
				time.Second, 12 * time.Second}[sr.Intn(8)]
			t0 := time.Now()
			var cancel context.CancelFunc
			if deadline {
				e.ctx, cancel = context.WithDeadline(context.Background(), t0.Add(when))
			} else {
				e.ctx, cancel = context.WithCancel(context.Background())
			}
			defer cancel()
			callers := func(n int) {
				for i := 0; i < n; i++ {
					p := rlPrefixes[sr.Intn(len(rlPrefixes))]
					switch sr.Intn(3) {
					case 0:
						e.goGet(p)
					case 1:
						e.goPut(p)
					case 2:
						if queue > 1 {
							e.goBatch(p, rlPrefixes[sr.Intn(len(rlPrefixes))])
						} else {
							e.goPut(p)
						}
					}
				}
			}
			callers(g / 2)
			var desc []string
			for ev := 0; ev < nev; ev++ {
				time.Sleep(gaps[ev])
				desc = append(desc, rlApplyEvent(e, sr, servers))
				if sr.Intn(2) == 0 {
					callers(1 + sr.Intn(2))
				}
			}
			// two scripts in three end with a fault that persists, so that the calls started now are still at it when the context ends
			if regs := e.cl.OnlineRegions("t"); sr.Intn(3) > 0 && len(regs) > 0 {
				r := regs[sr.Intn(len(regs))]
				switch sr.Intn(7) {
				case 0:
					e.cl.StopServer(r.Host)
					desc = append(desc, "P:server-down")
				case 1:
					e.cl.Lock()
					e.cl.Servers[r.Host].DropOnAccept = true
					e.cl.Unlock()
					e.cl.ResetConns(r.Host)
					desc = append(desc, "P:accept-then-drop")
				case 2:
					e.cl.Flap(r, verifsim.ExcNotServing, 1000)
					desc = append(desc, "P:never-online")
				case 3:
					e.cl.Flap(r, verifsim.ExcTooBusy, 1000)
					desc = append(desc, "P:retry-later")
				case 4:
					e.cl.Lock()
					e.cl.MetaMode = "silent"
					e.cl.Unlock()
					e.cl.ResetConns("ms")
					e.cl.Move(r, servers[sr.Intn(3)])
					desc = append(desc, "P:meta-silent+move")
				case 5:
					e.cl.Lock()
					e.cl.Rules = append(e.cl.Rules, func(c *verifsim.Cluster, rs *verifsim.RS, sc *verifsim.ServerConn, req *verifsim.Request, name []byte) *verifsim.Directive {
						if rs.Addr == r.Host && !verifsim.IsProbe(req) {
							return &verifsim.Directive{Silent: true}
						}
						return nil
					})
					e.cl.Unlock()
					desc = append(desc, "P:silent-server")
				case 6:
					e.cl.MoveSlowly(r, servers[sr.Intn(3)])
					desc = append(desc, "P:meta-stale")
				}
			}
			callers(g - g/2)
			if rest := when - time.Since(t0); rest > 0 {
				time.Sleep(rest)
			}
			synctest.Wait() // a quiescent point: whoever is still there is blocked on something
			e.mu.Lock()
			blocked := 0
			for _, cc := range e.calls {
				if !cc.returned {
					blocked++
				}
			}
			e.mu.Unlock()
			endAt := time.Now()
			if !deadline {
				cancel()
			}
			synctest.Wait()
			e.mu.Lock()
			for _, cc := range e.calls {
				switch {
				case !cc.returned:
					rep.bad("cancel-ignored:script", "%s (events %v): %s %s is still blocked after the context of all calls ended", name, desc, cc.kind, cc.id)
				case cc.at.After(endAt):
					rep.bad("cancel-slow:script", "%s (events %v): %s %s returned %v after the context ended", name, desc, cc.kind, cc.id, cc.at.Sub(endAt))
				}
			}
			e.mu.Unlock()
			states[fmt.Sprint(desc)]++
			rep.Scenarios++
			if blocked > 0 {
				rep.Distinct++ // (scenarios in which the cancellation met at least one blocked call)
			}
			// tear down on a healthy cluster
			e.cl.Lock()
			for _, rs := range e.cl.Servers {
				rs.Up, rs.RefuseDial, rs.DropOnAccept = true, false, false
			}
			e.cl.Rules = nil
			e.cl.MetaMode = ""
			for _, r := range e.cl.Regions {
				r.MetaHost, r.Flaps = "", 0
			}
			e.cl.Unlock()
			time.Sleep(5 * time.Minute)
			e.c.Close()
			time.Sleep(2 * time.Minute)
			synctest.Wait()
		})
	}
	rep.Extra["distinct_event_sequences"] = len(states)
}
