package gohbase

// C04 / C09 driver: requests survive region and server faults; concurrent
// failures neither crash the client nor strand a waiter.
//
//  W. forced windows (hook gates): a connection dies between SetClient and
//     MarkAvailable; between the connection leaving the cache and its regions
//     being marked; a split while requests wait for the region.
//  X. one scenario per Java exception class the client classifies (and
//     unknown ones): the first attempt of a request is answered with it.
//  S. seeded fault scripts: G concurrent callers over R regions on 3 servers
//     while regions flap / move / split / merge, servers stop and start,
//     connections reset, hbase:meta moves, a table is dropped; then the
//     cluster is left alone ("stable") and everything must finish.
//
// Race detector on. Events go to rl_trace.ndjson for TLC (Trace_RequestLoop).

import (
	"bytes"
	"context"
	"fmt"
	"io"
	"math/rand"
	"os"
	"runtime"
	"sort"
	"strconv"
	"strings"
	"sync"
	"sync/atomic"
	"testing"
	"testing/synctest"
	"time"

	"github.com/tsuna/gohbase/hrpc"
	"github.com/tsuna/gohbase/internal/verifsim"
	"github.com/tsuna/gohbase/region"
)

type rlCall struct {
	id       string
	kind     string
	err      error
	returned bool
	at       time.Time
}

type rlEnv struct {
	tr     *verifsim.Trace
	cl     *verifsim.Cluster
	c      *client
	mu     sync.Mutex
	calls  []*rlCall
	wg     sync.WaitGroup
	n      int
	single bool
	ctx    context.Context // the context of every call (nil: context.Background())
}

func (e *rlEnv) callCtx() context.Context {
	if e.ctx != nil {
		return e.ctx
	}
	return context.Background()
}

func (e *rlEnv) newID() string { e.n++; return fmt.Sprintf("%03d", e.n) }

// peekID returns the id the k-th call from now will get (k = 1: the next one).
func (e *rlEnv) peekID(k int) string { return fmt.Sprintf("%03d", e.n+k) }

// key: region-selecting prefix + call id, so that the servers' log identifies the call
func (e *rlEnv) goGet(prefix string) *rlCall {
	cc := &rlCall{id: e.newID(), kind: "get"}
	e.tr.Emit("call", "id", cc.id)
	e.mu.Lock()
	e.calls = append(e.calls, cc)
	e.mu.Unlock()
	e.wg.Add(1)
	go func() {
		defer e.wg.Done()
		g, _ := hrpc.NewGet(e.callCtx(), []byte("t"), []byte(prefix+"#"+cc.id))
		_, err := e.c.Get(g)
		e.mu.Lock()
		cc.err, cc.returned, cc.at = err, true, time.Now()
		e.mu.Unlock()
		e.tr.Emit("ret", "id", cc.id, "err", rlErrClass(err), "class", rlJavaClass(err))
	}()
	return cc
}
func (e *rlEnv) goPut(prefix string) *rlCall {
	cc := &rlCall{id: e.newID(), kind: "put"}
	e.tr.Emit("call", "id", cc.id)
	e.mu.Lock()
	e.calls = append(e.calls, cc)
	e.mu.Unlock()
	e.wg.Add(1)
	go func() {
		defer e.wg.Done()
		p, _ := hrpc.NewPut(e.callCtx(), []byte("t"), []byte(prefix+"#"+cc.id), map[string]map[string][]byte{"f": {"q": []byte("v")}})
		_, err := e.c.Put(p)
		e.mu.Lock()
		cc.err, cc.returned, cc.at = err, true, time.Now()
		e.mu.Unlock()
		e.tr.Emit("ret", "id", cc.id, "err", rlErrClass(err), "class", rlJavaClass(err))
	}()
	return cc
}

// goOp: the other single-row calls (the request loop is the same, the entry points are not)
func (e *rlEnv) goOp(kind, prefix string) *rlCall {
	cc := &rlCall{id: e.newID(), kind: kind}
	e.tr.Emit("call", "id", cc.id)
	e.mu.Lock()
	e.calls = append(e.calls, cc)
	e.mu.Unlock()
	e.wg.Add(1)
	go func() {
		defer e.wg.Done()
		row := []byte(prefix + "#" + cc.id)
		vals := map[string]map[string][]byte{"f": {"q": []byte("v")}}
		var err error
		switch kind {
		case "delete":
			d, _ := hrpc.NewDel(e.callCtx(), []byte("t"), row, vals)
			_, err = e.c.Delete(d)
		case "append":
			a, _ := hrpc.NewApp(e.callCtx(), []byte("t"), row, vals)
			_, err = e.c.Append(a)
		case "increment":
			i, _ := hrpc.NewInc(e.callCtx(), []byte("t"), row, map[string]map[string][]byte{"f": {"q": {0, 0, 0, 0, 0, 0, 0, 1}}})
			_, err = e.c.Increment(i)
		case "checkandput":
			p, _ := hrpc.NewPut(e.callCtx(), []byte("t"), row, vals)
			_, err = e.c.CheckAndPut(p, "f", "absent", nil)
		case "scan1": // a one-row scan: open + close on the region of the row
			sc, _ := hrpc.NewScanRange(e.callCtx(), []byte("t"), row, append(append([]byte{}, row...), 0), hrpc.NumberOfRows(1))
			s := e.c.Scan(sc)
			_, err = s.Next()
			if err == io.EOF {
				err = nil
			}
			s.Close()
		}
		e.mu.Lock()
		cc.err, cc.returned, cc.at = err, true, time.Now()
		e.mu.Unlock()
		e.tr.Emit("ret", "id", cc.id, "err", rlErrClass(err), "class", rlJavaClass(err))
	}()
	return cc
}

func (e *rlEnv) goBatch(prefixes ...string) {
	ids := make([]string, len(prefixes))
	for i := range prefixes {
		ids[i] = e.newID()
	}
	cc := &rlCall{id: "batch" + ids[0], kind: "batch"}
	e.mu.Lock()
	e.calls = append(e.calls, cc)
	e.mu.Unlock()
	e.wg.Add(1)
	go func() {
		defer e.wg.Done()
		var b []hrpc.Call
		for i, p := range prefixes {
			put, _ := hrpc.NewPut(e.callCtx(), []byte("t"), []byte(p+"#"+ids[i]), map[string]map[string][]byte{"f": {"q": []byte("v")}})
			b = append(b, put)
		}
		res, ok := e.c.SendBatch(e.callCtx(), b)
		var err error
		if !ok {
			for _, r := range res {
				if r.Error != nil {
					err = r.Error
				}
			}
		}
		e.mu.Lock()
		cc.err, cc.returned, cc.at = err, true, time.Now()
		e.mu.Unlock()
	}()
}

func rlErrClass(err error) string {
	switch {
	case err == nil:
		return "none"
	case err == TableNotFound:
		return "tableNotFound"
	case err == ErrClientClosed:
		return "closed"
	case err == context.Canceled || err == context.DeadlineExceeded:
		return "ctx"
	}
	switch err.(type) {
	case region.RetryableError:
		return "retryable"
	case region.NotServingRegionError:
		return "notserving"
	case region.ServerError:
		return "server"
	}
	if strings.HasPrefix(err.Error(), "HBase Java exception ") {
		return "app"
	}
	return "other:" + err.Error()
}

func rlJavaClass(err error) string {
	if err == nil {
		return ""
	}
	s := err.Error()
	const p = "HBase Java exception "
	if i := strings.Index(s, p); i >= 0 {
		s = s[i+len(p):]
		if j := strings.Index(s, ":"); j >= 0 {
			return s[:j]
		}
	}
	return ""
}

// flush writes the events of the contract specification; attempts are rebuilt from the servers' request/response log.
func (e *rlEnv) flush(w *verifsim.NDJSONWriter, name string, withAttempts bool) {
	w.Write(map[string]any{"ev": "reset", "scenario": name})
	type key struct{ conn, id int }
	open := map[key]string{}   // outstanding request -> call id
	deadConn := map[int]bool{} // the client has given this connection up: later answers on it are never seen
	fatal := map[string]bool{"org.apache.hadoop.hbase.regionserver.RegionServerAbortedException": true,
		"org.apache.hadoop.hbase.regionserver.RegionServerStoppedException": true,
		"org.apache.hadoop.hbase.exceptions.MasterStoppedException":         true,
		"org.apache.hadoop.hbase.ipc.ServerNotRunningYetException":          true}
	for _, ev := range e.tr.Events() {
		switch ev["ev"] {
		case "call", "ret":
			if withAttempts { // in batched runs the attempts of a call are not visible one by one at the servers
				w.Write(ev)
			}
		case "stable", "quiesce":
			w.Write(ev)
		case "req":
			if !withAttempts || ev["probe"].(bool) {
				continue
			}
			if deadConn[ev["conn"].(int)] {
				// the server got round to reading this request only after the client had given the connection up (and has
				// long since retried elsewhere): a late observation, no attempt of its own at this point of the history
				continue
			}
			row := ev["row"].(string)
			if i := strings.LastIndex(row, "#"); i >= 0 && (ev["method"] == "Get" || ev["method"] == "Mutate") {
				open[key{ev["conn"].(int), ev["id"].(int)}] = row[i+1:]
			}
		case "resp":
			k := key{ev["conn"].(int), ev["id"].(int)}
			if id, ok := open[k]; ok {
				delete(open, k)
				cls := ev["exc"].(string)
				if cls == "" {
					cls = "ok"
				}
				if deadConn[k.conn] {
					cls = "drop" // answered, but the client had already failed this connection
				}
				if fatal[cls] {
					deadConn[k.conn] = true
				}
				w.Write(map[string]any{"ev": "attempt", "id": id, "class": cls, "wal": strings.Contains(fmt.Sprint(ev["stack"]), "log is closed")})
			}
		case "connClosed":
			// the client closed the connection: what was outstanding on it met a connection-level failure NOW - before the
			// client retries it elsewhere - whenever the server gets round to answering it (an answer that comes later is
			// never seen; logging the attempt then would put it after the retry it caused)
			deadConn[ev["conn"].(int)] = true
			for k, id := range open {
				if k.conn == ev["conn"].(int) {
					delete(open, k)
					w.Write(map[string]any{"ev": "attempt", "id": id, "class": "drop", "wal": false})
				}
			}
		case "drop":
			deadConn[ev["conn"].(int)] = true
			k := key{ev["conn"].(int), ev["id"].(int)}
			if id, ok := open[k]; ok {
				delete(open, k)
				w.Write(map[string]any{"ev": "attempt", "id": id, "class": "drop", "wal": false})
			}
		case "srvCut":
			deadConn[ev["conn"].(int)] = true
			// requests outstanding on a connection that was cut met a connection-level failure
			for k, id := range open {
				if k.conn == ev["conn"].(int) {
					delete(open, k)
					w.Write(map[string]any{"ev": "attempt", "id": id, "class": "drop", "wal": false})
				}
			}
		}
	}
}

// quiesce records who is still blocked and which cached regions are unavailable.
func (e *rlEnv) quiesce() {
	blocked := []string{}
	e.mu.Lock()
	for _, cc := range e.calls {
		if !cc.returned {
			blocked = append(blocked, cc.kind+cc.id)
		}
	}
	e.mu.Unlock()
	unavail := []string{}
	krc := &e.c.regions
	krc.m.RLock()
	if enum, err := krc.regions.SeekFirst(); err == nil {
		for {
			_, v, err := enum.Next()
			if err != nil {
				break
			}
			if v.IsUnavailable() {
				unavail = append(unavail, string(v.Name()))
			}
		}
		enum.Close()
	}
	krc.m.RUnlock()
	if e.c.metaRegionInfo.IsUnavailable() {
		unavail = append(unavail, "hbase:meta,,1")
	}
	sort.Strings(unavail)
	e.tr.Emit("quiesce", "blocked", blocked, "unavailable", unavail)
}

func newRLEnv(queue int, nreg int, hosts ...string) *rlEnv {
	e := &rlEnv{tr: &verifsim.Trace{}, single: queue == 1}
	e.cl = verifsim.NewCluster(e.tr)
	for _, h := range []string{"ms", "rs1", "rs2", "rs3"} {
		e.cl.AddServer(h)
	}
	var splits [][]byte
	for i := 1; i < nreg; i++ {
		splits = append(splits, []byte{byte('a' + 5*i)})
	}
	if len(hosts) == 0 {
		hosts = []string{"rs1", "rs2", "rs3"}
	}
	e.cl.CreateTable("t", splits, hosts)
	e.c = newSimClient(e.cl, RpcQueueSize(queue))
	return e
}

var rlPrefixes = []string{"a", "c", "g", "k", "m", "q", "w"}

func TestVerifRequestLoop(t *testing.T) {
	out := os.Getenv("VERIF_OUT")
	if out == "" {
		t.Skip("VERIF_OUT not set")
	}
	seed, _ := strconv.ParseInt(os.Getenv("VERIF_SEED"), 10, 64)
	nrand, _ := strconv.Atoi(os.Getenv("VERIF_N"))
	ndj, err := verifsim.NewNDJSON(out + "/rl_trace.ndjson")
	if err != nil {
		t.Fatal(err)
	}
	rep := &simReport{Extra: map[string]any{}}
	simOnStall("rl_result.json", rep)
	defer func() {
		rep.Events = ndj.Count()
		ndj.Close()
		simWriteReport("rl_result.json", rep)
	}()
	finish := func(e *rlEnv, name string) {
		// the cluster is left alone from here on
		e.cl.Lock()
		for _, rs := range e.cl.Servers {
			rs.Up, rs.RefuseDial, rs.DropOnAccept = true, false, false
		}
		e.cl.Rules = nil
		e.cl.ActionHook = nil
		for _, r := range e.cl.Regions {
			r.MetaHost = ""
		}
		e.cl.MetaMode = ""
		e.cl.ZKErr = nil
		for _, r := range e.cl.Regions {
			r.Flaps = 0
		}
		e.cl.Unlock()
		e.tr.Emit("stable")
		time.Sleep(10 * time.Minute)
		synctest.Wait()
		e.quiesce()
		e.mu.Lock()
		for _, cc := range e.calls {
			if !cc.returned {
				rep.bad("request-stranded", "%s: %s %s is still blocked 10 virtual minutes after the cluster became stable", name, cc.kind, cc.id)
			} else if cc.err != nil && strings.Contains(cc.err.Error(), "WrongRegionException") {
				// the simulated servers answer so only when the row is outside the region NAMED IN THE REQUEST: no fault of the
				// cluster makes that a "real" error - the client sent the request to a region that does not own the row
				rep.bad("request-misrouted", "%s: %s %s failed with %v: it was sent to a region that does not contain its row", name, cc.kind, cc.id, cc.err)
			}
		}
		e.mu.Unlock()
		e.flush(ndj, name, e.single)
		e.c.Close() // (the hook stays installed: a write here could race with goroutines a defective client leaves behind)
		time.Sleep(2 * time.Minute)
		synctest.Wait()
		rep.Scenarios++
		rep.Distinct++
	}

	// ---- W: forced windows
	verifsim.Bubble(t, func(t *testing.T) {
		name := "W1/connection-dies-between-SetClient-and-MarkAvailable"
		e := newRLEnv(1, 3)
		regs := e.cl.OnlineRegions("t")
		parked, release := make(chan struct{}), make(chan struct{})
		var once atomic.Bool // not sync.Once: later callers must not block on a mutex while the first one is parked
		simSetHook(func(point string, c any, arg any) {
			if r, ok := arg.(hrpc.RegionInfo); ok && point == "establish.clientSet" && string(r.Name()) == string(regs[0].Name) {
				if once.CompareAndSwap(false, true) {
					close(parked)
					<-release
				}
			}
		})
		e.goGet("a")
		<-parked
		e.cl.ResetConns(regs[0].Host) // the freshly set client is dead before the region is released
		e.goGet("b")                  // same region, will be released together with the first
		close(release)
		time.Sleep(time.Second)
		e.goPut("a")
		finish(e, name)
	})
	verifsim.Bubble(t, func(t *testing.T) {
		// two regions share one connection; the connection dies while the first region is between SetClient and
		// MarkAvailable; a request for the OTHER region notices first and takes the connection out of the cache; the first
		// region is then released with the dead connection and must still get re-established
		name := "W1b/shared-connection-dies-in-the-window-other-region-notices-first"
		e := newRLEnv(1, 2, "rs1")
		regs := e.cl.OnlineRegions("t")
		e.goGet("k") // region 1: establishes the shared connection to rs1
		time.Sleep(time.Second)
		synctest.Wait()
		parked, release := make(chan struct{}), make(chan struct{})
		var once atomic.Bool
		simSetHook(func(point string, c any, arg any) {
			if r, ok := arg.(hrpc.RegionInfo); ok && point == "establish.clientSet" && string(r.Name()) == string(regs[0].Name) {
				if once.CompareAndSwap(false, true) {
					close(parked)
					<-release
				}
			}
		})
		e.goGet("a") // region 0: its establisher shares the connection, probes, parks before MarkAvailable
		<-parked
		e.cl.ResetConns("rs1")
		e.goPut("m") // region 1 notices the dead connection first: clientDown removes it from the cache
		time.Sleep(2 * time.Second)
		close(release)
		time.Sleep(time.Second)
		e.goPut("b")
		finish(e, name)
	})
	verifsim.Bubble(t, func(t *testing.T) {
		name := "W2/second-user-between-cache-removal-and-marking"
		e := newRLEnv(1, 3)
		regs := e.cl.OnlineRegions("t")
		e.goGet("a") // establish region 0 first
		time.Sleep(time.Second)
		synctest.Wait()
		parked, release := make(chan struct{}), make(chan struct{})
		var once atomic.Bool // not sync.Once: later callers must not block on a mutex while the first one is parked
		simSetHook(func(point string, c any, arg any) {
			if point == "clientDown.removed" {
				if once.CompareAndSwap(false, true) {
					close(parked)
					<-release
				}
			}
		})
		e.cl.ResetConns(regs[0].Host)
		e.goGet("a") // meets the dead connection, parks inside clientDown after the cache removal
		<-parked
		e.goPut("b") // same region, same dead client still set
		e.goGet("a")
		time.Sleep(500 * time.Millisecond)
		close(release)
		finish(e, name)
	})
	verifsim.Bubble(t, func(t *testing.T) {
		name := "W3/split-while-requests-wait"
		e := newRLEnv(1, 2)
		regs := e.cl.OnlineRegions("t")
		e.goGet("a")
		time.Sleep(time.Second)
		synctest.Wait()
		e.cl.Flap(regs[0], verifsim.ExcNotServing, 3) // requests and probes fail for a while: the region stays unavailable
		for i := 0; i < 4; i++ {
			e.goGet("a")
			e.goPut("c")
		}
		time.Sleep(20 * time.Millisecond)
		e.cl.Split(regs[0], []byte("b"), "rs2", "rs3")
		finish(e, name)
	})
	verifsim.Bubble(t, func(t *testing.T) {
		// after a split only the first daughter gets into the cache (through the re-establisher of the parent); the second
		// one is found by the first request beyond the first daughter's stop key - including a request for exactly that key
		name := "W3b/request-for-exactly-the-split-key-after-a-split"
		e := newRLEnv(1, 2)
		regs := e.cl.OnlineRegions("t")
		e.goGet("a")
		time.Sleep(time.Second)
		synctest.Wait()
		splitKey := "b#" + e.peekID(2) // the key the second request from now will ask for
		e.cl.Split(regs[0], []byte(splitKey), "rs2", "rs3")
		e.goGet("a") // meets "not serving", the parent is re-established as its first daughter
		time.Sleep(5 * time.Second)
		synctest.Wait()
		e.goGet("b") // row == stop key of the cached first daughter == start key of the unknown second one
		time.Sleep(5 * time.Second)
		synctest.Wait()
		e.goPut("b")
		finish(e, name)
	})

	// ---- W5 (Outage.tla, findRegion path): a second caller finds the freshly looked-up region in the cache while the caller
	// that looked it up is between publishing it and starting its establisher. It must find the region already marked
	// unavailable and wait - a second establisher for the same region ends in a panic (close of nil channel).
	for _, overl := range []bool{false, true} {
		verifsim.Bubble(t, func(t *testing.T) {
			name := fmt.Sprintf("W5/second-caller-finds-the-region-while-its-finder-is-publishing-it/after-split=%v", overl)
			e := newRLEnv(1, 2)
			regs := e.cl.OnlineRegions("t")
			key := "a"
			if overl {
				// the region the finder publishes replaces an older cached one (the finder also drops its client entry): region 0
				// is known, region 1 is not; they merge; a key of the former region 1 misses the cache
				e.goGet("a")
				time.Sleep(time.Second)
				synctest.Wait()
				e.cl.Merge(regs[0], regs[1], "rs3")
				key = "x"
			}
			parked, release := make(chan struct{}), make(chan struct{})
			var once atomic.Bool
			var ests atomic.Int32
			simSetHook(func(point string, c any, arg any) {
				if point == "findRegion.cached" && once.CompareAndSwap(false, true) {
					close(parked)
					<-release
				}
				if r, ok := arg.(hrpc.RegionInfo); ok && point == "establish.dialed" && bytes.HasPrefix(r.Name(), []byte("t,,")) {
					ests.Add(1)
				}
			})
			e.goGet(key)
			<-parked
			e.goGet(key) // finds the region in the cache
			e.goPut(key)
			time.Sleep(time.Second)
			close(release)
			time.Sleep(5 * time.Second)
			synctest.Wait()
			if n := ests.Load(); n > 1 {
				rep.bad("two-establishers", "%s: %d establishers dialled for the same freshly found region", name, n)
			}
			finish(e, name)
		})
	}

	// ---- W6 (Outage.tla: MarkUnavailable is ONE test-and-set): a burst of "not serving" answers for one region reaches
	// several callers at once; all of them report the outage at the same instant (they are held at the entry of
	// MarkUnavailable until the last one has arrived). Exactly one of them may win and start the establisher.
	for _, n := range []int{2, 4, 8, 16, 32} {
		for rep2 := 0; rep2 < 80; rep2++ {
			verifsim.Bubble(t, func(t *testing.T) {
				name := fmt.Sprintf("W6/%d-callers-report-the-same-outage-at-once/%d", n, rep2)
				e := newRLEnv(1, 2)
				regs := e.cl.OnlineRegions("t")
				e.goGet("a")
				time.Sleep(time.Second)
				synctest.Wait()
				var arrived atomic.Int32
				var gateOn atomic.Bool
				var ests atomic.Int32
				release := make(chan struct{})
				gateOn.Store(true)
				simSetRegionHook(func(point string, c any, arg any) {
					if point != "info.markUnavailable" || !gateOn.Load() {
						return
					}
					if r, ok := c.(hrpc.RegionInfo); !ok || !bytes.HasPrefix(r.Name(), []byte("t,,")) {
						return
					}
					arrived.Add(1)
					select {
					case <-release: // (closed by the scenario once all of them are parked here: they go on together)
					case <-time.After(5 * time.Second): // (not everybody came: go on alone)
					}
				})
				// (Outage.tla, OneEstablisher: at most one establisher of a region AT A TIME. A reporter that is scheduled late may
				// find the region available again - the first establisher has finished - and start a second one, one after the
				// other: that is a second outage as far as the client can tell. Establishers are told apart by their goroutine
				// and count from their first step to the step before they release the region.)
				var estMu sync.Mutex
				estGo := map[string]bool{}
				simSetHook(func(point string, c any, arg any) {
					r, ok := arg.(hrpc.RegionInfo)
					if !ok || !strings.HasPrefix(point, "establish.") || !bytes.HasPrefix(r.Name(), []byte("t,,")) {
						return
					}
					var buf [64]byte
					id := string(bytes.Fields(buf[:runtime.Stack(buf[:], false)])[1])
					estMu.Lock()
					if point == "establish.clientSet" {
						delete(estGo, id)
					} else {
						estGo[id] = true
						if k := int32(len(estGo)); k > ests.Load() {
							ests.Store(k)
						}
					}
					estMu.Unlock()
				})
				e.cl.Flap(regs[0], verifsim.ExcNotServing, n) // exactly the n requests below are answered "not serving"
				for i := 0; i < n; i++ {
					e.goGet("a")
				}
				time.Sleep(100 * time.Millisecond)
				synctest.Wait()
				if int(arrived.Load()) == n {
					gateOn.Store(false)
					close(release)
				}
				time.Sleep(30 * time.Second)
				synctest.Wait()
				gateOn.Store(false)
				simSetRegionHook(nil)
				if k := ests.Load(); k > 1 {
					rep.bad("two-establishers", "%s: %d establishers of one region were at work at the same time", name, k)
				}
				finish(e, name)
			})
		}
	}

	// ---- W7 (real time: the reader is held inside the connection's fail-once section): the connection is reset after a
	// request was written and before its sender armed the read deadline; the sender's deadline operation then fails on the
	// socket the reader has just closed. That is a connection-level failure like any other: the request is retried
	// elsewhere, the application sees nothing.
	for rep2 := 0; rep2 < 2; rep2++ {
		func() {
			name := fmt.Sprintf("W7/connection-reset-between-write-and-arming-the-read-deadline/%d", rep2)
			e := newRLEnv(1, 2)
			regs := e.cl.OnlineRegions("t")
			host := regs[0].Host
			warm := e.goGet("a")
			for i := 0; i < 500 && !rlReturned(e, warm); i++ {
				time.Sleep(10 * time.Millisecond)
			}
			var swallowed atomic.Bool
			e.cl.Lock()
			e.cl.Rules = append(e.cl.Rules, func(c *verifsim.Cluster, rs *verifsim.RS, sc *verifsim.ServerConn, req *verifsim.Request, name []byte) *verifsim.Directive {
				if rs.Addr == host && !verifsim.IsProbe(req) && swallowed.CompareAndSwap(false, true) {
					return &verifsim.Directive{Silent: true} // the answer to the request in question never comes
				}
				return nil
			})
			e.cl.Unlock()
			senderParked, senderGo := make(chan struct{}), make(chan struct{})
			readerParked, readerGo := make(chan struct{}), make(chan struct{})
			var s1, r1 atomic.Bool
			simSetRegionHook(func(point string, c any, arg any) {
				rc, ok := c.(hrpc.RegionClient)
				if !ok || rc.Addr() != host {
					return
				}
				switch point {
				case "send.written":
					if s1.CompareAndSwap(false, true) {
						close(senderParked)
						<-senderGo
					}
				case "fail.connClosed":
					if s1.Load() && r1.CompareAndSwap(false, true) {
						close(readerParked)
						select {
						case <-readerGo:
						case <-time.After(5 * time.Second):
						}
					}
				}
			})
			cc := e.goGet("a")
			ok := true
			select {
			case <-senderParked:
			case <-time.After(5 * time.Second):
				ok = false
			}
			if ok {
				e.cl.ResetConns(host)
				select {
				case <-readerParked:
				case <-time.After(5 * time.Second):
					ok = false
				}
			}
			close(senderGo)
			time.Sleep(300 * time.Millisecond)
			close(readerGo)
			simSetRegionHook(nil)
			if !ok {
				rep.bad("harness:w7", "%s: the schedule could not be set up", name)
			}
			for i := 0; i < 1000 && !rlReturned(e, cc); i++ {
				time.Sleep(10 * time.Millisecond)
			}
			e.mu.Lock()
			switch {
			case !cc.returned:
				rep.bad("request-stranded", "%s: get %s has not returned 10 s after the connection was reset", name, cc.id)
			case cc.err != nil:
				rep.bad("request-failed-by-a-connection-fault", "%s: get %s was handed %v (a connection reset is retried elsewhere, it is not the application's business)", name, cc.id, cc.err)
			}
			e.mu.Unlock()
			e.c.Close()
			time.Sleep(100 * time.Millisecond)
			rep.Scenarios++
			rep.Distinct++
		}()
	}

	// ---- W8 (real time: the table-wide lookup is held at the connection cache's lock; Outage.tla MarkBeforePut for the
	// CacheRegions path): CacheRegions finds the daughters of a split whose parent is still cached. A region it publishes
	// in the cache must already be marked unavailable - a request that finds it there waits for CacheRegions' establisher
	// instead of starting one of its own (two establishers release the waiters twice: close of a nil channel).
	for rep2 := 0; rep2 < 2; rep2++ {
		func() {
			name := fmt.Sprintf("W8/request-meets-a-region-that-CacheRegions-is-publishing/%d", rep2)
			e := newRLEnv(1+rep2, 1, "rs1")
			parent := e.cl.OnlineRegions("t")[0]
			warm := e.goGet("a")
			for i := 0; i < 500 && !rlReturned(e, warm); i++ {
				time.Sleep(10 * time.Millisecond)
			}
			e.cl.Split(parent, []byte("m"), "rs1", "rs2")
			var mu sync.Mutex
			ests := map[string]int{}
			simSetHook(func(point string, c any, arg any) {
				if r, ok := arg.(hrpc.RegionInfo); ok && point == "establish.located" && bytes.HasPrefix(r.Name(), []byte("t,")) {
					mu.Lock()
					ests[string(r.Name())]++
					mu.Unlock()
				}
			})
			e.c.clients.m.Lock()
			done := make(chan struct{})
			go func() { e.c.CacheRegions([]byte("t")); close(done) }()
			time.Sleep(200 * time.Millisecond) // it has put the first daughter into the cache and waits for the lock to drop the parent's connection
			c1, c2 := e.goGet("a"), e.goGet("n")
			time.Sleep(200 * time.Millisecond)
			e.c.clients.m.Unlock()
			select {
			case <-done:
			case <-time.After(10 * time.Second):
				rep.bad("request-stranded", "%s: CacheRegions has not returned 10 s after the lock was released", name)
			}
			for i := 0; i < 1000 && !(rlReturned(e, c1) && rlReturned(e, c2)); i++ {
				time.Sleep(10 * time.Millisecond)
			}
			time.Sleep(300 * time.Millisecond)
			simSetHook(nil)
			mu.Lock()
			for rn, k := range ests {
				if k > 1 {
					rep.bad("two-establishers", "%s: %d establishers ran for region %q, which CacheRegions was publishing when a request for it arrived", name, k, rn)
				}
			}
			mu.Unlock()
			e.mu.Lock()
			for _, cc := range []*rlCall{c1, c2} {
				switch {
				case !cc.returned:
					rep.bad("request-stranded", "%s: get %s has not returned 10 s after CacheRegions went on", name, cc.id)
				case cc.err != nil:
					rep.bad("request-failed-by-a-connection-fault", "%s: get %s was handed %v on a healthy cluster", name, cc.id, cc.err)
				}
			}
			e.mu.Unlock()
			e.c.Close()
			time.Sleep(100 * time.Millisecond)
			rep.Scenarios++
			rep.Distinct++
		}()
	}

	// ---- W10: the region is replaced in the cache (CacheRegions finds the daughters of a split) while its establisher waits
	// for the answer to its probe. The establisher goes on to the end of its pass (the answer, when it comes, is "not
	// serving"), notices that the region is dead and releases the waiters; nothing panics, nobody is stranded.
	for _, q := range []int{1, 3} {
		verifsim.Bubble(t, func(t *testing.T) {
			name := fmt.Sprintf("W10/region-replaced-in-the-cache-while-its-probe-is-outstanding/q=%d", q)
			e := newRLEnv(q, 1, "rs1")
			parent := e.cl.OnlineRegions("t")[0]
			e.goGet("a")
			time.Sleep(time.Second)
			synctest.Wait()
			hold := make(chan struct{})
			var held atomic.Bool
			e.cl.Lock()
			e.cl.Rules = append(e.cl.Rules, func(_ *verifsim.Cluster, rs *verifsim.RS, sc *verifsim.ServerConn, req *verifsim.Request, rn []byte) *verifsim.Directive {
				if verifsim.IsProbe(req) && string(rn) == string(parent.Name) && held.CompareAndSwap(false, true) {
					return &verifsim.Directive{Hold: hold}
				}
				return nil
			})
			e.cl.Unlock()
			e.cl.Flap(parent, verifsim.ExcNotServing, 1)
			e.goGet("a") // "not serving": the region is marked, its establisher probes - the answer is held back
			e.goGet("n")
			time.Sleep(time.Second)
			synctest.Wait()
			if !held.Load() {
				rep.bad("harness:w10", "%s: the establisher's probe was not seen", name)
			}
			e.cl.Split(parent, []byte("m"), "rs1", "rs2")
			crDone := make(chan struct{})
			go func() { e.c.CacheRegions([]byte("t")); close(crDone) }()
			time.Sleep(time.Second)
			synctest.Wait()
			close(hold)
			time.Sleep(time.Second)
			synctest.Wait()
			e.goGet("b")
			e.goPut("p")
			finish(e, name)
			select {
			case <-crDone:
			default:
				rep.bad("request-stranded", "%s: CacheRegions never returned", name)
			}
		})
	}

	// ---- W9: a region in transition - for a while hbase:meta has no row for it (and nobody serves it). Requests for its keys,
	// the first of which is the key EQUAL to the stop key of the region in front of it, wait for the region to come back and
	// then succeed; none of them comes back with an error of the client's making (a request sent to the neighbour is
	// answered WrongRegionException; a lookup that gives up answers "cannot find region").
	for _, warm := range []bool{false, true} {
		verifsim.Bubble(t, func(t *testing.T) {
			name := fmt.Sprintf("W9/region-missing-from-meta-for-a-while/neighbour-known=%v", warm)
			e := newRLEnv(1, 3)
			regs := e.cl.OnlineRegions("t")
			if warm {
				e.goGet("a")
				time.Sleep(time.Second)
				synctest.Wait()
			}
			e.cl.Lock()
			regs[1].Online = false
			e.cl.Unlock()
			type res struct {
				what string
				err  error
			}
			results := make(chan res, 8)
			vals := map[string]map[string][]byte{"f": {"q": []byte("v")}}
			for i, key := range [][]byte{regs[1].Start, append(append([]byte{}, regs[1].Start...), 0), regs[1].Start} {
				go func() {
					if i == 2 {
						p, _ := hrpc.NewPut(context.Background(), []byte("t"), key, vals)
						_, err := e.c.Put(p)
						results <- res{fmt.Sprintf("put %q", key), err}
						return
					}
					g, _ := hrpc.NewGet(context.Background(), []byte("t"), key)
					_, err := e.c.Get(g)
					results <- res{fmt.Sprintf("get %q", key), err}
				}()
			}
			time.Sleep(700 * time.Millisecond)
			synctest.Wait()
			e.cl.Lock()
			regs[1].Online = true
			e.cl.Unlock()
			time.Sleep(2 * time.Minute)
			synctest.Wait()
			for i := 0; i < 3; i++ {
				select {
				case r := <-results:
					if r.err != nil {
						sig := "request-failed-by-a-transient-fault"
						if strings.Contains(r.err.Error(), "WrongRegionException") {
							sig = "request-misrouted"
						}
						rep.bad(sig, "%s: %s failed with %v although its context is live and the region came back", name, r.what, r.err)
					}
				default:
					rep.bad("request-stranded", "%s: a request for the region is still blocked 2 virtual minutes after it came back", name)
				}
			}
			finish(e, name)
		})
	}

	// ---- W4: hbase:meta lags behind a move: the old server answers "not serving" (to requests and to the probe) while the region
	// is already served elsewhere; meta catches up a little later. The establisher must look the region up again.
	for _, late := range []time.Duration{50 * time.Millisecond, 3 * time.Second} {
		for _, warm := range []bool{true, false} {
			verifsim.Bubble(t, func(t *testing.T) {
				name := fmt.Sprintf("W4/meta-lags-behind-a-move/catchup=%v/known-before=%v", late, warm)
				e := newRLEnv(1, 2)
				regs := e.cl.OnlineRegions("t")
				if warm {
					e.goGet("a")
					time.Sleep(time.Second)
					synctest.Wait()
				}
				to := "rs3"
				if regs[0].Host == "rs3" {
					to = "rs2"
				}
				e.cl.MoveSlowly(regs[0], to)
				e.goGet("a")
				e.goPut("b")
				time.Sleep(late)
				e.cl.MetaCatchUp()
				finish(e, name)
			})
		}
	}

	// ---- X: every exception class on the first attempt
	classes := []string{
		"org.apache.hadoop.hbase.CallQueueTooBigException", "org.apache.hadoop.hbase.exceptions.RegionOpeningException",
		"org.apache.hadoop.hbase.quotas.RpcThrottlingException", "org.apache.hadoop.hbase.RetryImmediatelyException",
		"org.apache.hadoop.hbase.RegionTooBusyException", "org.apache.hadoop.hbase.PleaseHoldException",
		"org.apache.hadoop.hbase.NotServingRegionException", "org.apache.hadoop.hbase.exceptions.RegionMovedException",
		"org.apache.hadoop.hbase.regionserver.RegionServerAbortedException", "org.apache.hadoop.hbase.regionserver.RegionServerStoppedException",
		"org.apache.hadoop.hbase.exceptions.MasterStoppedException", "org.apache.hadoop.hbase.ipc.ServerNotRunningYetException",
		"java.io.IOException", "java.io.IOException+wal",
		"org.apache.hadoop.hbase.DoNotRetryIOException", "org.apache.hadoop.hbase.TableNotFoundException",
		"org.apache.hadoop.hbase.regionserver.NoSuchColumnFamilyException", "java.lang.RuntimeException",
	}
	for _, cls := range classes {
		for _, op := range []string{"get", "put"} {
			verifsim.Bubble(t, func(t *testing.T) {
				name := "X/" + cls + "/" + op
				e := newRLEnv(1, 2)
				first := map[string]bool{}
				jc, stack := cls, "at org.apache.hadoop.hbase.Something"
				if strings.HasSuffix(cls, "+wal") {
					jc, stack = strings.TrimSuffix(cls, "+wal"), "java.io.IOException: Cannot append; log is closed"
				}
				e.cl.Rules = append(e.cl.Rules, func(c *verifsim.Cluster, rs *verifsim.RS, sc *verifsim.ServerConn, req *verifsim.Request, rn []byte) *verifsim.Directive {
					row := string(verifsim.RowOf(req))
					if (req.Method == "Get" || req.Method == "Mutate") && !verifsim.IsProbe(req) && strings.Contains(row, "#") && !first[row] {
						first[row] = true
						e.tr.Emit("resp", "conn", sc.ID, "id", int(req.CallID), "exc", jc, "stack", stack)
						sc.SendException(req.CallID, jc, stack)
						return &verifsim.Directive{Silent: true}
					}
					return nil
				})
				if op == "get" {
					e.goGet("a")
				} else {
					e.goPut("k")
				}
				time.Sleep(3 * time.Minute)
				finish(e, name)
			})
		}
	}

	// ---- XP: the regionserver answers the ESTABLISHER'S PROBE of a region (an existence-only read) with an application
	// exception - a user who may write but not read, a coprocessor that refuses the read. That says nothing against the region
	// being online: it is established and the requests go through (reads come back with the application's exception).
	for _, cls := range []string{"org.apache.hadoop.hbase.security.AccessDeniedException", "org.apache.hadoop.hbase.DoNotRetryIOException", "java.lang.RuntimeException"} {
		verifsim.Bubble(t, func(t *testing.T) {
			name := "XP/probe-answered-" + cls[strings.LastIndex(cls, ".")+1:]
			e := newRLEnv(1, 2)
			e.cl.Rules = append(e.cl.Rules, func(c *verifsim.Cluster, rs *verifsim.RS, sc *verifsim.ServerConn, req *verifsim.Request, rn []byte) *verifsim.Directive {
				if verifsim.IsProbe(req) && strings.HasPrefix(string(rn), "t,") {
					return &verifsim.Directive{Exc: cls, Stack: "at org.apache.hadoop.hbase.Something"}
				}
				return nil
			})
			p1, p2 := e.goPut("a"), e.goPut("k")
			time.Sleep(3 * time.Minute)
			synctest.Wait()
			e.mu.Lock()
			for _, cc := range []*rlCall{p1, p2} { // (the probe's answer is how this cluster is: nothing to wait for)
				if !cc.returned {
					rep.bad("request-stranded", "%s: put %s is still blocked after 3 virtual minutes on a cluster whose only peculiarity is that the probe read "+
						"is refused with an application exception", name, cc.id)
				} else if cc.err != nil {
					rep.bad("request-failed-by-a-transient-fault", "%s: put %s failed with %v", name, cc.id, cc.err)
				}
			}
			e.mu.Unlock()
			e.goPut("b")
			finish(e, name)
		})
	}

	// ---- S: seeded fault scripts
	rng := rand.New(rand.NewSource(seed))
	for k := 0; k < nrand; k++ {
		queue := []int{1, 1, 4}[rng.Intn(3)]
		nreg := 2 + rng.Intn(3)
		g := 2 + rng.Intn(10)
		nev := 1 + rng.Intn(8)
		name := fmt.Sprintf("S/%d/q=%d/regions=%d/callers=%d/events=%d", k, queue, nreg, g, nev)
		sr := rand.New(rand.NewSource(rng.Int63()))
		verifsim.Bubble(t, func(t *testing.T) {
			e := newRLEnv(queue, nreg)
			servers := []string{"rs1", "rs2", "rs3"}
			var desc []string
			callers := func(n int) {
				for i := 0; i < n; i++ {
					p := rlPrefixes[sr.Intn(len(rlPrefixes))]
					switch sr.Intn(5) {
					case 0:
						e.goGet(p)
					case 1:
						e.goPut(p)
					case 2:
						if queue > 1 {
							e.goBatch(p, rlPrefixes[sr.Intn(len(rlPrefixes))], rlPrefixes[sr.Intn(len(rlPrefixes))])
						} else {
							e.goPut(p)
						}
					default:
						e.goOp([]string{"delete", "append", "increment", "checkandput"}[sr.Intn(4)], p)
					}
				}
			}
			callers(g / 2)
			for ev := 0; ev < nev; ev++ {
				time.Sleep(time.Duration(sr.Intn(30)) * time.Millisecond)
				desc = append(desc, rlApplyEvent(e, sr, servers))
				if sr.Intn(2) == 0 {
					callers(1 + sr.Intn(2))
				}
			}
			callers(g - g/2)
			// meta must be somewhere that is up, and up to date
			e.cl.MetaCatchUp()
			e.cl.StartServer("ms")
			e.cl.StartServer("rs1")
			e.cl.StartServer("rs2")
			e.cl.StartServer("rs3")
			finish(e, name)
			if k < 3 {
				rep.Samples = append(rep.Samples, map[string]any{"scenario": name, "events": desc})
			}
		})
	}
}

// rlApplyEvent applies one random event of the fault scripts to the cluster and says which.
func rlApplyEvent(e *rlEnv, sr *rand.Rand, servers []string) string {
	what := "none"
	regs := e.cl.OnlineRegions("t")
	r := regs[sr.Intn(len(regs))]
	s := servers[sr.Intn(3)]
	switch x := sr.Intn(13); x {
	case 0:
		e.cl.Move(r, s)
		what = "move"
	case 1:
		mid := append(append([]byte{}, r.Start...), 'm')
		if r.Contains(mid) {
			e.cl.Split(r, mid, servers[sr.Intn(3)], servers[sr.Intn(3)])
			what = "split"
		}
	case 2:
		if len(regs) >= 2 {
			i := sr.Intn(len(regs) - 1)
			e.cl.Merge(regs[i], regs[i+1], s)
			what = "merge"
		}
	case 3:
		e.cl.Flap(r, []string{verifsim.ExcNotServing, verifsim.ExcRegionMoved}[sr.Intn(2)], 1+sr.Intn(3))
		what = "notserving"
	case 4:
		e.cl.Flap(r, []string{verifsim.ExcRegionOpening, verifsim.ExcTooBusy, verifsim.ExcQueueTooBig, verifsim.ExcThrottling}[sr.Intn(4)], 1+sr.Intn(3))
		what = "retrylater"
	case 5:
		e.cl.StopServer(s)
		for _, rr := range e.cl.OnlineRegions("t") { // its regions are reassigned
			if rr.Host == s {
				e.cl.Move(rr, servers[(sr.Intn(2)+1+indexOf(servers, s))%3])
			}
		}
		what = "abort"
	case 6:
		e.cl.StartServer(s)
		what = "restart"
	case 7:
		e.cl.ResetConns(s)
		what = "reset"
	case 8:
		e.cl.MoveMeta([]string{"ms", "rs1", "rs2"}[sr.Intn(3)])
		e.cl.ResetConns("ms")
		what = "metamove"
	case 9:
		e.cl.Flap(r, verifsim.ExcAborted, 1)
		what = "serverfatal"
	case 11:
		e.cl.MoveSlowly(r, s)
		what = "moveslowly"
	case 12:
		e.cl.MetaCatchUp()
		what = "metacatchup"
	case 10:
		e.cl.Lock()
		e.cl.Servers[s].DropOnAccept = !e.cl.Servers[s].DropOnAccept
		e.cl.Unlock()
		what = "acceptdrop"
	}
	return what
}

func rlReturned(e *rlEnv, cc *rlCall) bool {
	e.mu.Lock()
	defer e.mu.Unlock()
	return cc.returned
}

func indexOf(xs []string, x string) int {
	for i, y := range xs {
		if y == x {
			return i
		}
	}
	return 0
}
