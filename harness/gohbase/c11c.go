package gohbase

// C11, client level: a healthy simulated cluster answers ONE request of a
// public API call with a structurally valid but inconsistent response (the
// cases of Malform.tla that only show in the consumers of a decoded response:
// scanner.Next, the hbase:meta lookup, Increment, CheckAndPut, SendBatch).
// The call must end with a result or an error - no panic in the caller's or in
// a library goroutine, no hang that a cancellation cannot end - and the client
// must work afterwards.

import (
	"context"
	"fmt"
	"io"
	"os"
	"runtime/debug"
	"strings"
	"sync/atomic"
	"testing"
	"testing/synctest"
	"time"

	"github.com/tsuna/gohbase/hrpc"
	"github.com/tsuna/gohbase/internal/verifsim"
	"github.com/tsuna/gohbase/pb"
	"google.golang.org/protobuf/proto"
)

type c11cCase struct {
	name string
	// which response to mangle: method + nth matching (1-based) non-probe request to a table region or to hbase:meta
	method string
	meta   bool
	mangle func(resp *verifsim.Response)
	// what to call
	api string // get, put, increment, checkandput, scan, scan-partial, batch
}

func c11cKV(row, val string) verifsim.KV {
	return verifsim.KV{Row: []byte(row), Family: []byte("f"), Qualifier: []byte("q"), Timestamp: 1, Type: 4, Value: []byte(val)}
}

func c11cCases() []c11cCase {
	scanResp := func(r *verifsim.Response) *pb.ScanResponse { m, _ := r.Msg.(*pb.ScanResponse); return m }
	var cs []c11cCase
	add := func(name, method string, meta bool, api string, f func(resp *verifsim.Response)) {
		cs = append(cs, c11cCase{name: name, method: method, meta: meta, api: api, mangle: f})
	}
	for _, api := range []string{"scan", "scan-partial"} {
		add("scan/more-partial-flags-than-results/last-real-partial", "Scan", false, api, func(r *verifsim.Response) {
			if m := scanResp(r); m != nil && len(m.CellsPerResult) > 0 {
				m.PartialFlagPerResult[len(m.PartialFlagPerResult)-1] = true
				m.PartialFlagPerResult = append(m.PartialFlagPerResult, false)
			}
		})
		add("scan/more-partial-flags-than-results/last-real-complete", "Scan", false, api, func(r *verifsim.Response) {
			if m := scanResp(r); m != nil && len(m.CellsPerResult) > 0 {
				m.PartialFlagPerResult = append(m.PartialFlagPerResult, false, true)
			}
		})
		add("scan/fewer-partial-flags-than-results", "Scan", false, api, func(r *verifsim.Response) {
			if m := scanResp(r); m != nil && len(m.CellsPerResult) > 0 {
				m.PartialFlagPerResult = m.PartialFlagPerResult[:len(m.PartialFlagPerResult)-1]
			}
		})
		add("scan/result-with-zero-cells-flagged-partial", "Scan", false, api, func(r *verifsim.Response) {
			if m := scanResp(r); m != nil && len(m.CellsPerResult) > 0 {
				m.CellsPerResult = append([]uint32{0}, m.CellsPerResult...)
				m.PartialFlagPerResult = append([]bool{true}, m.PartialFlagPerResult...)
			}
		})
		add("scan/only-zero-cell-results", "Scan", false, api, func(r *verifsim.Response) {
			if m := scanResp(r); m != nil && len(m.CellsPerResult) > 0 {
				m.CellsPerResult = []uint32{0, 0}
				m.PartialFlagPerResult = []bool{true, false}
				r.CellBlock = nil
			}
		})
		add("scan/no-scanner-id-but-more-in-region", "Scan", false, api, func(r *verifsim.Response) {
			if m := scanResp(r); m != nil {
				m.ScannerId = nil
				m.MoreResultsInRegion = proto.Bool(true)
			}
		})
		add("scan/no-flags-at-all", "Scan", false, api, func(r *verifsim.Response) {
			if m := scanResp(r); m != nil {
				m.MoreResults, m.MoreResultsInRegion = nil, nil
			}
		})
		add("scan/results-in-protobuf-AND-cellblock-counts", "Scan", false, api, func(r *verifsim.Response) {
			if m := scanResp(r); m != nil && len(m.CellsPerResult) > 0 {
				m.Results = []*pb.Result{{Cell: verifsim.CellsToPB([]verifsim.KV{c11cKV("zz", "v")})}}
			}
		})
		metrics := func(name *string, v *int64) *pb.ScanMetrics {
			return &pb.ScanMetrics{Metrics: []*pb.NameInt64Pair{{Name: name, Value: v}}}
		}
		add("scan/unsolicited-scan-metrics", "Scan", false, api, func(r *verifsim.Response) {
			if m := scanResp(r); m != nil {
				m.ScanMetrics = metrics(proto.String("ROWS_SCANNED"), proto.Int64(1))
			}
		})
		add("scan/scan-metrics-entry-without-name-and-value", "Scan", false, api, func(r *verifsim.Response) {
			if m := scanResp(r); m != nil {
				m.ScanMetrics = metrics(nil, nil)
			}
		})
		add("scan/heartbeat-flag-with-results", "Scan", false, api, func(r *verifsim.Response) {
			if m := scanResp(r); m != nil {
				m.HeartbeatMessage = proto.Bool(true)
			}
		})
		add("scan/cells-of-two-rows-in-one-result", "Scan", false, api, func(r *verifsim.Response) {
			if m := scanResp(r); m != nil && len(m.CellsPerResult) > 0 {
				r.CellBlock = append(append([]byte{}, r.CellBlock...), verifsim.EncodeKVs([]verifsim.KV{c11cKV("zzz", "v")})...)
				m.CellsPerResult[len(m.CellsPerResult)-1]++
			}
		})
	}
	// ---- single-row calls whose consumers look into the cells
	add("increment/value-shorter-than-8-bytes", "Mutate", false, "increment", func(r *verifsim.Response) {
		if m, ok := r.Msg.(*pb.MutateResponse); ok {
			m.Result = &pb.Result{AssociatedCellCount: proto.Int32(1)}
			r.CellBlock = verifsim.EncodeKVs([]verifsim.KV{c11cKV("inc", "abc")})
		}
	})
	add("increment/no-cells", "Mutate", false, "increment", func(r *verifsim.Response) {
		if m, ok := r.Msg.(*pb.MutateResponse); ok {
			m.Result = &pb.Result{AssociatedCellCount: proto.Int32(0)}
			r.CellBlock = nil
		}
	})
	add("increment/no-result", "Mutate", false, "increment", func(r *verifsim.Response) {
		if m, ok := r.Msg.(*pb.MutateResponse); ok {
			m.Result = nil
			r.CellBlock = nil
		}
	})
	add("increment/empty-value", "Mutate", false, "increment", func(r *verifsim.Response) {
		if m, ok := r.Msg.(*pb.MutateResponse); ok {
			m.Result = &pb.Result{AssociatedCellCount: proto.Int32(1)}
			r.CellBlock = verifsim.EncodeKVs([]verifsim.KV{c11cKV("inc", "")})
		}
	})
	add("checkandput/no-processed-flag", "Mutate", false, "checkandput", func(r *verifsim.Response) {
		if m, ok := r.Msg.(*pb.MutateResponse); ok {
			m.Processed = nil
		}
	})
	add("get/no-result", "Get", false, "get", func(r *verifsim.Response) {
		if m, ok := r.Msg.(*pb.GetResponse); ok {
			m.Result = nil
			r.CellBlock = nil
		}
	})
	add("put/result-with-cells-unsolicited", "Mutate", false, "put", func(r *verifsim.Response) {
		if m, ok := r.Msg.(*pb.MutateResponse); ok {
			m.Result = &pb.Result{AssociatedCellCount: proto.Int32(1)}
			m.Processed = proto.Bool(true)
			r.CellBlock = verifsim.EncodeKVs([]verifsim.KV{c11cKV("put", "v")})
		}
	})
	add("get/exists-flag-without-cells", "Get", false, "get", func(r *verifsim.Response) {
		if m, ok := r.Msg.(*pb.GetResponse); ok {
			m.Result = &pb.Result{Exists: proto.Bool(true), Stale: proto.Bool(true), Partial: proto.Bool(true)}
			r.CellBlock = nil
		}
	})
	add("get/no-message", "Get", false, "get", func(r *verifsim.Response) { r.Msg = &pb.GetResponse{}; r.CellBlock = nil })
	add("put/wrong-message-type", "Mutate", false, "put", func(r *verifsim.Response) { r.Msg = &pb.GetResponse{}; r.CellBlock = nil })
	add("get/wrong-message-type", "Get", false, "get", func(r *verifsim.Response) { r.Msg = &pb.MutateResponse{}; r.CellBlock = nil })
	// ---- hbase:meta rows
	metaRow := func(f func(kvs []verifsim.KV) []verifsim.KV) func(r *verifsim.Response) {
		return func(r *verifsim.Response) {
			m := scanResp(r)
			if m == nil || len(m.CellsPerResult) == 0 {
				return
			}
			kvs, err := verifsim.DecodeKVs(r.CellBlock)
			if err != nil {
				return
			}
			kvs = f(kvs)
			r.CellBlock = verifsim.EncodeKVs(kvs)
			m.CellsPerResult = []uint32{uint32(len(kvs))}
			m.PartialFlagPerResult = []bool{false}
		}
	}
	setRow := func(row string) func(kvs []verifsim.KV) []verifsim.KV {
		return func(kvs []verifsim.KV) []verifsim.KV {
			for i := range kvs {
				kvs[i].Row = []byte(row)
			}
			return kvs
		}
	}
	for _, api := range []string{"get", "scan", "batch", "cacheregions"} { // (cacheregions: the lookup of ALL regions of a table has a reader of its own)
		add("meta/row-key-without-any-comma", "Scan", true, api, metaRow(setRow("t")))
		add("meta/row-key-with-one-comma", "Scan", true, api, metaRow(setRow("t,")))
		add("meta/row-key-empty", "Scan", true, api, metaRow(setRow("")))
		add("meta/row-key-of-another-table", "Scan", true, api, metaRow(setRow("other,,1.abc.")))
		add("meta/no-server-column", "Scan", true, api, metaRow(func(kvs []verifsim.KV) []verifsim.KV {
			var out []verifsim.KV
			for _, kv := range kvs {
				if string(kv.Qualifier) != "server" {
					out = append(out, kv)
				}
			}
			return out
		}))
		add("meta/server-without-port", "Scan", true, api, metaRow(func(kvs []verifsim.KV) []verifsim.KV {
			for i := range kvs {
				if string(kvs[i].Qualifier) == "server" {
					kvs[i].Value = []byte("rs1")
				}
			}
			return kvs
		}))
		add("meta/server-empty", "Scan", true, api, metaRow(func(kvs []verifsim.KV) []verifsim.KV {
			for i := range kvs {
				if string(kvs[i].Qualifier) == "server" {
					kvs[i].Value = nil
				}
			}
			return kvs
		}))
		add("meta/only-the-server-column", "Scan", true, api, metaRow(func(kvs []verifsim.KV) []verifsim.KV {
			var out []verifsim.KV
			for _, kv := range kvs {
				if string(kv.Qualifier) == "server" {
					out = append(out, kv)
				}
			}
			return out
		}))
		add("meta/regioninfo-twice", "Scan", true, api, metaRow(func(kvs []verifsim.KV) []verifsim.KV {
			for _, kv := range kvs {
				if string(kv.Qualifier) == "regioninfo" {
					return append(kvs, kv)
				}
			}
			return kvs
		}))
		add("meta/zero-cell-row", "Scan", true, api, func(r *verifsim.Response) {
			if m := scanResp(r); m != nil && len(m.CellsPerResult) > 0 {
				m.CellsPerResult = []uint32{0}
				m.PartialFlagPerResult = []bool{false}
				r.CellBlock = nil
			}
		})
		add("meta/unsolicited-scan-metrics", "Scan", true, api, func(r *verifsim.Response) {
			if m := scanResp(r); m != nil {
				m.ScanMetrics = &pb.ScanMetrics{Metrics: []*pb.NameInt64Pair{{Name: proto.String("ROWS_SCANNED"), Value: proto.Int64(1)}}}
			}
		})
		add("meta/more-partial-flags-than-results", "Scan", true, api, func(r *verifsim.Response) {
			if m := scanResp(r); m != nil && len(m.CellsPerResult) > 0 {
				m.PartialFlagPerResult = append(m.PartialFlagPerResult, false)
			}
		})
	}
	return cs
}

func TestVerifC11Client(t *testing.T) {
	out := os.Getenv("VERIF_OUT")
	if out == "" {
		t.Skip("VERIF_OUT not set")
	}
	rep := &simReport{Extra: map[string]any{}}
	simOnStall("c11c_result.json", rep)
	defer simWriteReport("c11c_result.json", rep)
	// B1: the cases are Malform.tla's ClientCases as exported by TLC; this file only knows how to produce each of them
	type specCase struct{ Api, Target, Case string }
	spec, err := c08readNDJSON[specCase](os.Getenv("VERIF_IN") + "/c11c_cases.ndjson")
	if err != nil {
		t.Fatal(err)
	}
	known := map[string]c11cCase{}
	for _, cs := range c11cCases() {
		known[cs.name+"|"+cs.api] = cs
	}
	var todo []c11cCase
	for _, sc := range spec {
		cs, ok := known[sc.Target+"/"+sc.Case+"|"+sc.Api]
		if !ok {
			rep.bad("harness:c11c-unknown-case", "the specification lists client-level case %+v which the driver cannot produce", sc)
			continue
		}
		todo = append(todo, cs)
	}
	rep.Extra["spec_cases"] = len(spec)
	for _, cs := range todo {
		for _, nth := range []int{1, 2} {
			name := fmt.Sprintf("%s/api=%s/response=%d", cs.name, cs.api, nth)
			verifsim.Bubble(t, func(t *testing.T) {
				tr := &verifsim.Trace{}
				cl := verifsim.NewCluster(tr)
				cl.InCellblock = true
				for _, a := range []string{"ms", "rs1", "rs2"} {
					cl.AddServer(a)
				}
				cl.CreateTable("t", [][]byte{[]byte("m")}, []string{"rs1", "rs2"})
				for _, k := range []string{"a1", "a2", "a3", "n1", "n2"} {
					cl.PutRow("t", []byte(k), []verifsim.KV{c11cKV(k, "v1"), {Row: []byte(k), Family: []byte("f"), Qualifier: []byte("r"), Timestamp: 1, Type: 4, Value: []byte("v2")}})
				}
				var seen atomic.Int32
				var mangled atomic.Bool
				cl.Mangle = func(rs *verifsim.RS, req *verifsim.Request, resp *verifsim.Response) {
					if req.Method != cs.method || verifsim.IsProbe(req) || resp.Msg == nil {
						return
					}
					isMeta := strings.HasPrefix(string(regionOfReq(req)), "hbase:meta")
					if isMeta != cs.meta {
						return
					}
					if int(seen.Add(1)) == nth {
						cs.mangle(resp)
						mangled.Store(true)
					}
				}
				c := newSimClient(cl, RpcQueueSize(1))
				ctx, cancel := context.WithTimeout(context.Background(), 2*time.Minute)
				defer cancel()
				vals := map[string]map[string][]byte{"f": {"q": []byte("v")}}
				type outcome struct {
					panicked string
					err      error
					done     bool
				}
				res := make(chan outcome, 1)
				call := func(api string, cctx context.Context) (err error) {
					switch api {
					case "get":
						g, _ := hrpc.NewGet(cctx, []byte("t"), []byte("a1"))
						_, err = c.Get(g)
					case "put":
						p, _ := hrpc.NewPut(cctx, []byte("t"), []byte("a9"), vals)
						_, err = c.Put(p)
					case "increment":
						i, _ := hrpc.NewInc(cctx, []byte("t"), []byte("inc"), map[string]map[string][]byte{"f": {"q": {0, 0, 0, 0, 0, 0, 0, 1}}})
						_, err = c.Increment(i)
					case "checkandput":
						p, _ := hrpc.NewPut(cctx, []byte("t"), []byte("a9"), vals)
						_, err = c.CheckAndPut(p, "f", "q", nil)
					case "scan", "scan-partial":
						var opts []func(hrpc.Call) error
						if api == "scan-partial" {
							opts = append(opts, hrpc.AllowPartialResults())
						}
						opts = append(opts, hrpc.NumberOfRows(2))
						sc, _ := hrpc.NewScanStr(cctx, "t", opts...)
						s := c.Scan(sc)
						for n := 0; n < 50; n++ {
							r, e := s.Next()
							if e == io.EOF {
								break
							}
							if e != nil {
								err = e
								break
							}
							if r == nil {
								err = fmt.Errorf("Next returned a nil result with a nil error")
								break
							}
							for _, cell := range r.Cells { // a user looks at what it got
								_ = len(cell.Row) + len(cell.Value)
							}
						}
						s.Close()
					case "cacheregions":
						err = c.CacheRegions([]byte("t"))
					case "batch":
						p1, _ := hrpc.NewPut(cctx, []byte("t"), []byte("a8"), vals)
						g2, _ := hrpc.NewGet(cctx, []byte("t"), []byte("n1"))
						rs, ok := c.SendBatch(cctx, []hrpc.Call{p1, g2})
						if !ok {
							for _, r := range rs {
								if r.Error != nil {
									err = r.Error
								}
							}
						}
					}
					return err
				}
				go func() {
					var o outcome
					defer func() {
						if p := recover(); p != nil {
							o.panicked = fmt.Sprintf("%v\n%s", p, debug.Stack())
						}
						o.done = true
						res <- o
					}()
					o.err = call(cs.api, ctx)
				}()
				time.Sleep(3 * time.Minute) // beyond the context's deadline: a call still blocked now ignores its context
				synctest.Wait()
				rep.Scenarios++
				rep.Distinct++
				select {
				case o := <-res:
					if o.panicked != "" {
						first := strings.SplitN(o.panicked, "\n", 2)[0]
						site := c11cSite(o.panicked)
						rep.bad("client-panic:"+cs.name+":"+site, "%s: the API call panicked: %s\n%s", name, first, c11cTrim(o.panicked))
					}
				default:
					rep.bad("call-hangs-after-malformed-response:"+cs.name, "%s: the call has not returned 1 minute after its context's deadline", name)
				}
				if !mangled.Load() && nth == 1 {
					rep.Extra["not-reached:"+name] = true
				}
				// the client still works
				cl.Lock()
				cl.Mangle = nil
				cl.Unlock()
				wctx, wcancel := context.WithTimeout(context.Background(), 5*time.Minute)
				werr := make(chan error, 1)
				go func() {
					defer func() {
						if p := recover(); p != nil {
							werr <- fmt.Errorf("panic: %v", p)
						}
					}()
					werr <- call("get", wctx)
				}()
				time.Sleep(6 * time.Minute)
				synctest.Wait()
				select {
				case e := <-werr:
					if e != nil {
						rep.bad("client-unusable-after-malformed-response:"+cs.name, "%s: a later Get on the healthy cluster failed: %v", name, e)
					}
				default:
					rep.bad("client-unusable-after-malformed-response:"+cs.name, "%s: a later Get on the healthy cluster never returned", name)
				}
				wcancel()
				c.Close()
				time.Sleep(2 * time.Minute)
				synctest.Wait()
				for _, a := range []string{"ms", "rs1", "rs2"} {
					cl.ResetConns(a)
				}
				time.Sleep(time.Minute)
				synctest.Wait()
			})
		}
	}
}

func regionOfReq(req *verifsim.Request) []byte {
	switch p := req.Param.(type) {
	case *pb.GetRequest:
		return p.GetRegion().GetValue()
	case *pb.MutateRequest:
		return p.GetRegion().GetValue()
	case *pb.ScanRequest:
		return p.GetRegion().GetValue()
	}
	return nil
}

// c11cSite: the first frame of the client (not the harness, not the runtime) in a panic's stack.
func c11cSite(stack string) string {
	lines := strings.Split(stack, "\n")
	for i, l := range lines {
		if strings.HasPrefix(l, "\t") && strings.Contains(l, ".go:") && !strings.Contains(l, "zz_verif") && !strings.Contains(l, "/runtime/") &&
			!strings.Contains(l, "verifsim") && strings.Contains(l, "/repo/") || (strings.HasPrefix(l, "\t") && strings.Contains(l, "gohbase") && !strings.Contains(l, "zz_verif") && !strings.Contains(l, "verifsim")) {
			f := strings.TrimSpace(l)
			if j := strings.Index(f, " +0x"); j > 0 {
				f = f[:j]
			}
			if k := strings.LastIndex(f, "/"); k >= 0 {
				f = f[k+1:]
			}
			_ = i
			return f
		}
	}
	return "unknown"
}

func c11cTrim(s string) string {
	if len(s) > 1500 {
		return s[:1500]
	}
	return s
}
