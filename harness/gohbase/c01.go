package gohbase

// C01 routing driver: every single-row request kind and a batch, for every key
// of the TLC scope on every layout of the scope (Gen_Routing), in seeded
// first-touch orders, plus seeded random layouts with arbitrary byte keys and
// same-prefixed / namespaced sibling tables.  What the simulated servers
// executed is compared with the owner computed by the specification (B1) and
// the whole execution is validated by TLC (Trace_Routing, B2).

import (
	"bytes"
	"context"
	"fmt"
	"math/rand"
	"os"
	"sort"
	"strconv"
	"sync"
	"sync/atomic"
	"testing"
	"testing/synctest"
	"time"

	"github.com/tsuna/gohbase/hrpc"
	"github.com/tsuna/gohbase/internal/verifsim"
	"github.com/tsuna/gohbase/pb"
)

type c01Case struct {
	Splits [][]int `json:"splits"`
	Owners []struct {
		Key        []int `json:"key"`
		OwnerStart []int `json:"ownerStart"`
		Search     []int `json:"search"`
	} `json:"owners"`
}

var c01ops = []string{"get", "put", "delete", "append", "increment", "checkandput", "batch"}

// c01do performs one API call of the given kind for key (batch: key and key2).
func c01do(c *client, op, table string, key, key2 []byte) error {
	return c01doCtx(context.Background(), c, op, table, key, key2)
}

func c01doCtx(ctx context.Context, c *client, op, table string, key, key2 []byte) error {
	vals := map[string]map[string][]byte{"f": {"q": []byte("v")}}
	switch op {
	case "get":
		g, _ := hrpc.NewGet(ctx, []byte(table), key)
		_, err := c.Get(g)
		return err
	case "put":
		p, _ := hrpc.NewPut(ctx, []byte(table), key, vals)
		_, err := c.Put(p)
		return err
	case "delete":
		p, _ := hrpc.NewDel(ctx, []byte(table), key, vals)
		_, err := c.Delete(p)
		return err
	case "append":
		p, _ := hrpc.NewApp(ctx, []byte(table), key, vals)
		_, err := c.Append(p)
		return err
	case "increment":
		p, _ := hrpc.NewIncSingle(ctx, []byte(table), key, "f", "n", 1)
		_, err := c.Increment(p)
		return err
	case "checkandput":
		p, _ := hrpc.NewPut(ctx, []byte(table), key, vals)
		_, err := c.CheckAndPut(p, "f", "absent", nil)
		return err
	case "batch":
		g, _ := hrpc.NewGet(ctx, []byte(table), key)
		p, _ := hrpc.NewPut(ctx, []byte(table), key2, vals)
		res, ok := c.SendBatch(ctx, []hrpc.Call{g, p})
		if !ok {
			for _, r := range res {
				if r.Error != nil {
					return r.Error
				}
			}
		}
		return nil
	}
	return fmt.Errorf("unknown op %s", op)
}

type c01World struct {
	tr  *verifsim.Trace
	cl  *verifsim.Cluster
	c   *client
	out *verifsim.NDJSONWriter
	rep *simReport
	n   int
}

func (w *c01World) flush(name string) {
	w.out.Write(map[string]any{"ev": "reset", "scenario": name})
	for _, e := range w.tr.Events() {
		switch e["ev"] {
		case "layout":
			for _, r := range e["regions"].([]map[string]any) {
				w.out.Write(map[string]any{"ev": "region", "name": r["name"], "table": verifsim.Bytes([]byte(e["table"].(string))),
					"start": r["start"], "stop": r["stop"], "id": r["id"], "host": r["host"]})
			}
		case "apiCall", "apiRet":
			w.out.Write(e)
		case "metaScan":
			if e["reversed"].(bool) {
				w.out.Write(map[string]any{"ev": "metaScan", "start": e["start"]})
			}
		case "exec":
			w.out.Write(map[string]any{"ev": "exec", "region": e["region"], "server": e["server"], "row": e["row"], "probe": e["op"] == "get" && w.isProbe(e)})
		}
	}
	w.rep.Scenarios++
}

// a probe is the establisher's exists-only Get at start key + 17 zero bytes; the driver never uses such keys
func (w *c01World) isProbe(e verifsim.Ev) bool {
	row := e["row"].([]int)
	if len(row) < 17 {
		return false
	}
	for _, b := range row[len(row)-17:] {
		if b != 0 {
			return false
		}
	}
	return true
}

func (w *c01World) call(op, table string, key, key2 []byte) {
	keys := [][]int{verifsim.Bytes(key)}
	if op == "batch" {
		keys = append(keys, verifsim.Bytes(key2))
	}
	w.tr.Emit("apiCall", "op", op, "table", verifsim.Bytes([]byte(table)), "keys", keys)
	// (the cluster is healthy and its layout static: a request that has not succeeded after ten virtual minutes is going
	// round in circles - sent to someone who does not serve its region)
	ctx, cancel := context.WithTimeout(context.Background(), 10*time.Minute)
	err := c01doCtx(ctx, w.c, op, table, key, key2)
	cancel()
	synctest.Wait()
	w.tr.Emit("apiRet", "err", errClass(err))
	w.n++
	if err != nil && len(w.rep.Violations) < 10 {
		w.rep.bad("routed-request-failed", "%s %q on table %q failed: %v", op, key, table, err)
	}
}

func indexOfHost(hosts []string, h string) int {
	for i, x := range hosts {
		if x == h {
			return i
		}
	}
	return 0
}

func c01bytes(x []int) []byte {
	b := make([]byte, len(x))
	for i, v := range x {
		b[i] = byte(v)
	}
	return b
}

func TestVerifC01(t *testing.T) {
	in, out := os.Getenv("VERIF_IN"), os.Getenv("VERIF_OUT")
	if in == "" || out == "" {
		t.Skip("VERIF_IN / VERIF_OUT not set")
	}
	seed, _ := strconv.ParseInt(os.Getenv("VERIF_SEED"), 10, 64)
	nrand, _ := strconv.Atoi(os.Getenv("VERIF_N"))
	allOps := os.Getenv("VERIF_TIER") == "thorough"
	cases, err := c08readNDJSON[c01Case](in + "/c01_layouts.ndjson")
	if err != nil {
		t.Fatal(err)
	}
	ndj, err := verifsim.NewNDJSON(out + "/c01_trace.ndjson")
	if err != nil {
		t.Fatal(err)
	}
	mvj, err := verifsim.NewNDJSON(out + "/c01_move_trace.ndjson") // class M: what the servers saw, for Trace_Move
	if err != nil {
		t.Fatal(err)
	}
	defer mvj.Close()
	rep := &simReport{}
	simOnStall("c01_result.json", rep)
	defer func() {
		rep.Events = ndj.Count()
		ndj.Close()
		simWriteReport("c01_result.json", rep)
	}()
	rng := rand.New(rand.NewSource(seed))
	hosts := []string{"rs1:16020", "rs2:16020", "rs3:16020"}

	// ---- B1: the TLC scope
	for ci, cs := range cases {
		name := fmt.Sprintf("scope/layout%d", ci)
		verifsim.Bubble(t, func(t *testing.T) {
			w := &c01World{tr: &verifsim.Trace{}, out: ndj, rep: rep}
			w.cl = verifsim.NewCluster(w.tr)
			for _, h := range hosts {
				w.cl.AddServer(h)
			}
			var splits [][]byte
			for _, s := range cs.Splits {
				splits = append(splits, c01bytes(s))
			}
			regs := w.cl.CreateTable("t", splits, hosts)
			w.cl.CreateTable("tt", [][]byte{{','}}, hosts[1:])             // same-prefixed sibling
			w.cl.CreateTable("n:t", [][]byte{{0}}, hosts[2:])              // namespaced sibling
			w.cl.CreateTable("hbase:metadata", [][]byte{{'m'}}, hosts[:2]) // user tables whose names extend / are extended by the catalog's
			w.cl.CreateTable("hbase:met", nil, hosts[1:])
			w.c = newSimClient(w.cl, RpcQueueSize(1+ci%3))
			order := rng.Perm(len(cs.Owners))
			for oi, idx := range order {
				ow := cs.Owners[idx]
				key := c01bytes(ow.Key)
				ops := c01ops
				if !allOps {
					ops = []string{c01ops[(oi+ci)%len(c01ops)], c01ops[(oi+ci+3)%len(c01ops)]}
				}
				for _, op := range ops {
					key2 := c01bytes(cs.Owners[order[(oi+1)%len(order)]].Key)
					before := len(w.cl.Execs)
					w.call(op, "t", key, key2)
					// B1 oracle: the specification's owner
					for _, e := range w.cl.Execs[before:] {
						if e.Table == "t" && e.Row == string(key) {
							var exp *verifsim.Region
							for _, r := range regs {
								if bytes.Equal(r.Start, c01bytes(ow.OwnerStart)) {
									exp = r
								}
							}
							if exp == nil || e.Region != string(exp.Name) || e.Server != exp.Host {
								rep.bad("routed-to-wrong-region", "%s: %s key %q executed at region %q on %s; the specification's owner starts at %q (%v)",
									name, op, key, e.Region, e.Server, c01bytes(ow.OwnerStart), exp)
							}
						}
					}
				}
				if oi%5 == 0 { // siblings in between: same key, other tables
					w.call("get", "tt", key, nil)
					w.call("put", "n:t", key, nil)
					w.call(c01ops[oi%len(c01ops)], "hbase:metadata", key, key)
					w.call("get", "hbase:met", key, nil)
				}
			}
			w.c.Close()
			synctest.Wait()
			w.flush(name)
			rep.Distinct += w.n
		})
	}

	// ---- B2: random layouts, arbitrary byte keys
	alphabet := []byte{0, 1, '+', ',', '-', ':', 'a', 0xfe, 0xff}
	randKey := func(max int) []byte {
		n := rng.Intn(max + 1)
		b := make([]byte, n)
		for i := range b {
			if rng.Intn(4) == 0 {
				b[i] = byte(rng.Intn(256))
			} else {
				b[i] = alphabet[rng.Intn(len(alphabet))]
			}
		}
		return b
	}
	for k := 0; k < nrand; k++ {
		name := fmt.Sprintf("random/%d", k)
		verifsim.Bubble(t, func(t *testing.T) {
			w := &c01World{tr: &verifsim.Trace{}, out: ndj, rep: rep}
			w.cl = verifsim.NewCluster(w.tr)
			for _, h := range hosts {
				w.cl.AddServer(h)
			}
			tables := []string{"t", "tt", "n:t", "t-x", "hbase:metadata", "hbase:met"}
			splitsOf := map[string][][]byte{}
			for _, tb := range tables {
				m := map[string]bool{}
				for n := rng.Intn(6); len(m) < n; {
					if s := randKey(4); len(s) > 0 {
						m[string(s)] = true
					}
				}
				var sp [][]byte
				for s := range m {
					sp = append(sp, []byte(s))
				}
				sort.Slice(sp, func(i, j int) bool { return bytes.Compare(sp[i], sp[j]) < 0 })
				splitsOf[tb] = sp
				for ri, r := range w.cl.CreateTable(tb, sp, []string{hosts[rng.Intn(3)], hosts[rng.Intn(3)]}) {
					if k%2 == 1 {
						r.ReplicaHost = hosts[(indexOfHost(hosts, r.Host)+1+ri%2)%len(hosts)]
					}
				}
			}
			w.c = newSimClient(w.cl, RpcQueueSize(1+rng.Intn(4)))
			for i := 0; i < 40; i++ {
				tb := tables[rng.Intn(len(tables))]
				var key []byte
				sp := splitsOf[tb]
				switch {
				case len(sp) > 0 && rng.Intn(2) == 0: // at / next to a boundary
					key = append([]byte{}, sp[rng.Intn(len(sp))]...)
					switch rng.Intn(4) {
					case 0:
						key = append(key, 0)
					case 1:
						key = key[:len(key)-1]
					case 2:
						key[len(key)-1]--
					}
				default:
					key = randKey(5)
				}
				if len(key) >= 17 && bytes.Equal(key[len(key)-17:], make([]byte, 17)) {
					continue
				}
				w.call(c01ops[rng.Intn(len(c01ops))], tb, key, randKey(3))
			}
			w.c.Close()
			synctest.Wait()
			w.flush(name)
			rep.Distinct += w.n
		})
	}
	// ---- H: a hole in hbase:meta (the region after R has no row at the moment). A key equal to R's stop key - the first key
	// that is NOT R's - has no region: "a key outside every known range is resolved through hbase:meta instead of being
	// sent to a neighbouring region". The request waits (here: until its deadline); it is never addressed to R.
	for hole := 1; hole <= 2; hole++ {
		for oi, op := range c01ops {
			for _, warm := range []bool{false, true} {
				name := fmt.Sprintf("hole-in-meta/region=%d/%s/neighbour-known=%v", hole, op, warm)
				verifsim.Bubble(t, func(t *testing.T) {
					tr := &verifsim.Trace{}
					cl := verifsim.NewCluster(tr)
					for _, h := range hosts {
						cl.AddServer(h)
					}
					regs := cl.CreateTable("t", [][]byte{[]byte("g"), []byte("p")}, hosts)
					c := newSimClient(cl, RpcQueueSize(1+oi%3))
					if warm {
						c01do(c, "get", "t", append(append([]byte{}, regs[hole-1].Start...), 'x'), nil)
						synctest.Wait()
					}
					cl.Lock()
					regs[hole].Online = false
					cl.Unlock()
					ctx, cancel := context.WithTimeout(context.Background(), 3*time.Second)
					defer cancel()
					key := regs[hole].Start
					err := c01doCtx(ctx, c, op, "t", key, append(append([]byte{}, key...), 0))
					synctest.Wait()
					if err == nil {
						rep.bad("routed-to-wrong-region", "%s: %s for key %q succeeded although no region owns the key at the moment", name, op, key)
					}
					for _, e := range tr.Events() {
						if e["ev"] != "req" || e["probe"] == true || e["method"] == "Scan" {
							continue
						}
						for _, r := range regs {
							if e["region"] == string(r.Name) && r != regs[hole] && (e["row"] == string(key) || e["method"] == "Multi") {
								rep.bad("routed-to-wrong-region", "%s: a %v (row %q) was sent to %v addressed to region %q while the only keys in use have no region "+
									"(hbase:meta has a hole there)", name, e["method"], e["row"], e["addr"], r.Name)
							}
						}
					}
					cl.Lock()
					regs[hole].Online = true
					cl.Unlock()
					time.Sleep(time.Minute)
					c.Close()
					time.Sleep(time.Minute)
					synctest.Wait()
					rep.Scenarios++
					rep.Distinct++
				})
			}
		}
	}
	// ---- M: a region is moved to another regionserver while the old one stays up (balancer / "move"): same region name,
	// new address in hbase:meta, no connection is lost. The first request afterwards may reach the old server once (the
	// location is stale, "not serving"); once the region has been looked up again, every request for its keys is sent to
	// the server that hosts it now - "the regionserver it is sent to is that region's".
	for oi, op := range c01ops {
		for back := 0; back < 3; back++ { // (back=1: moved again, to the server it was on at first; back=2: moved on while it is being probed)
			name := fmt.Sprintf("region-moved-while-its-old-server-stays-up/%s/and-back=%v", op, back == 1)
			if back == 2 {
				name = fmt.Sprintf("region-moved-while-its-old-server-stays-up/%s/and-on-while-it-is-probed", op)
			}
			verifsim.Bubble(t, func(t *testing.T) {
				tr := &verifsim.Trace{}
				cl := verifsim.NewCluster(tr)
				for _, h := range hosts {
					cl.AddServer(h)
				}
				regs := cl.CreateTable("t", [][]byte{[]byte("g"), []byte("p")}, hosts)
				c := newSimClient(cl, RpcQueueSize(1+oi%3))
				for _, r := range regs { // every region and every server is in use
					c01do(c, "get", "t", append(append([]byte{}, r.Start...), 'w'), nil)
				}
				synctest.Wait()
				reg := regs[1]
				key, key2 := []byte("h"), []byte("i")
				targets := []string{hosts[2]}
				if back == 1 {
					targets = append(targets, hosts[1])
				}
				var mvm sync.Mutex
				mv := func(ev string, kv ...any) {
					m := map[string]any{"ev": ev, "scenario": name}
					for k := 0; k+1 < len(kv); k += 2 {
						m[kv[k].(string)] = kv[k+1]
					}
					mvm.Lock()
					mvj.Write(m)
					mvm.Unlock()
				}
				mv("reset", "srv", reg.Host)
				for mi, to := range targets {
					var stale atomic.Int32
					var cancelCur atomic.Pointer[context.CancelFunc]
					var movedOn atomic.Bool
					cl.Move(reg, to)
					mv("move", "to", to)
					cl.Lock()
					cl.Rules = []verifsim.Rule{func(_ *verifsim.Cluster, rs *verifsim.RS, sc *verifsim.ServerConn, req *verifsim.Request, rn []byte) *verifsim.Directive {
						calls := 0
						if string(rn) == string(reg.Name) {
							calls = 1
						}
						if mr, ok := req.Param.(*pb.MultiRequest); ok {
							for _, ra := range mr.GetRegionAction() {
								if string(ra.GetRegion().GetValue()) == string(reg.Name) {
									calls += len(ra.GetAction())
								}
							}
						}
						switch {
						case req.Method == "Scan" && bytes.HasPrefix(rn, []byte("hbase:meta,")):
							mv("lookup")
						case calls > 0 && verifsim.IsProbe(req):
							if back == 2 && movedOn.CompareAndSwap(false, true) {
								// the region moves on before the probe is answered: "not serving", another lookup
								to = hosts[0]
								cl.Move(reg, to)
								mv("move", "to", to)
							}
							mv("probe", "addr", rs.Addr)
						case calls > 0:
							mv("req", "addr", rs.Addr, "n", calls)
						}
						// (a request that comes to the wrong server for the 20th time will come for ever, and in no
						// virtual time at all: the call is ended from here so that the scenario can be judged)
						if calls > 0 && rs.Addr != to && !verifsim.IsProbe(req) && stale.Add(1) > 20 {
							if cf := cancelCur.Load(); cf != nil {
								(*cf)()
							}
						}
						return nil
					}}
					cl.Unlock()
					for n := 0; n < 3; n++ {
						mark := len(tr.Events())
						before := len(cl.Execs)
						ctx, cancel := context.WithTimeout(context.Background(), time.Minute)
						cancelCur.Store(&cancel)
						if op == "batch" {
							mv("start", "n", 2)
						} else {
							mv("start", "n", 1)
						}
						err := c01doCtx(ctx, c, op, "t", key, key2)
						cancel()
						synctest.Wait()
						mv("ret", "ok", err == nil)
						if err != nil || stale.Load() > 20 {
							rep.bad("routed-to-wrong-server", "%s: move %d, %s #%d for key %q ended with %v; the region is online at %s and hbase:meta says so "+
								"(%d requests for it came to servers that do not host it)", name, mi, op, n, key, err, to, stale.Load())
							break
						}
						for _, e := range cl.Execs[before:] {
							if e.Table == "t" && (e.Row == string(key) || e.Row == string(key2)) && (e.Region != string(reg.Name) || e.Server != to) {
								rep.bad("routed-to-wrong-server", "%s: %s key %q executed at region %q on %s; its region is %q on %s", name, op, e.Row, e.Region, e.Server, reg.Name, to)
							}
						}
						if n == 0 {
							continue
						}
						for _, e := range tr.Events()[mark:] { // the new location is known by now
							if e["ev"] == "req" && e["region"] == string(reg.Name) && e["addr"] != to {
								rep.bad("routed-to-wrong-server", "%s: after the region had been found at %s, a %v for row %q was still sent to %v",
									name, to, e["method"], e["row"], e["addr"])
								break
							}
						}
					}
				}
				c.Close()
				time.Sleep(time.Minute)
				synctest.Wait()
				rep.Scenarios++
				rep.Distinct++
			})
		}
	}
	// ---- D (real time, outside a bubble: the establisher is held at the connection cache's lock): the layout changes under a
	// request. A region known to the client has been split; the first request learns it ("not serving"), the region is looked
	// up again and hbase:meta names the daughter. From the moment the location cache holds the daughter, requests that were
	// waiting for the parent are routed from the cache: none of them may still be addressed to the parent, whose range is no
	// region's any more.
	for round := 0; round < 3; round++ {
		func() {
			name := fmt.Sprintf("layout-change/region-split-while-requests-wait/%d", round)
			tr := &verifsim.Trace{}
			cl := verifsim.NewCluster(tr)
			for _, h := range hosts {
				cl.AddServer(h)
			}
			parent := cl.CreateTable("t", nil, hosts[:1])[0]
			c := newSimClient(cl, RpcQueueSize(1+round))
			defer c.Close()
			c01do(c, "get", "t", []byte("a"), nil)
			cl.Split(parent, []byte("m"), hosts[0], hosts[1])
			hold := make(chan struct{})
			var held atomic.Bool
			cl.Lock()
			cl.Rules = append(cl.Rules, func(_ *verifsim.Cluster, rs *verifsim.RS, sc *verifsim.ServerConn, req *verifsim.Request, rn []byte) *verifsim.Directive {
				if req.Method == "Scan" && bytes.HasPrefix(rn, []byte("hbase:meta,")) && held.CompareAndSwap(false, true) {
					return &verifsim.Directive{Hold: hold}
				}
				return nil
			})
			cl.Unlock()
			var wg sync.WaitGroup
			call := func(op string, key string) {
				wg.Add(1)
				go func() {
					defer wg.Done()
					c01do(c, op, "t", []byte(key), []byte(key))
				}()
			}
			call(c01ops[(round*3+5)%len(c01ops)], "a") // (checkandput, get, increment: the call that learns of the split and is retried)
			for i := 0; i < 500 && !held.Load(); i++ {
				time.Sleep(10 * time.Millisecond)
			}
			if !held.Load() {
				close(hold)
				rep.bad("harness:c01-split", "%s: the lookup after the split was never made", name)
				return
			}
			for i, op := range c01ops { // every single-row entry point waits behind the parent
				call(op, string(rune('b'+i)))
			}
			time.Sleep(100 * time.Millisecond) // they wait for the parent to be re-established
			c.clients.m.Lock()
			mark := len(tr.Events())
			close(hold)
			time.Sleep(300 * time.Millisecond)
			c.clients.m.Unlock()
			done := make(chan struct{})
			go func() { wg.Wait(); close(done) }()
			select {
			case <-done:
			case <-time.After(20 * time.Second):
				rep.bad("request-stranded-after-a-split", "%s: requests have not returned 20 s after hbase:meta answered", name)
			}
			for _, e := range tr.Events()[mark:] {
				if e["ev"] == "req" && e["region"] == string(parent.Name) && e["probe"] != true {
					rep.bad("request-addressed-to-a-replaced-region", "%s: after hbase:meta had named the daughter region, a %v for row %q was still sent to %v "+
						"addressed to the split parent %q", name, e["method"], e["row"], e["addr"], parent.Name)
					break
				}
			}
			rep.Scenarios++
			rep.Distinct++
		}()
	}
	if len(cases) > 0 {
		rep.Samples = append(rep.Samples, map[string]any{"layout_splits": cases[len(cases)/2].Splits, "keys": len(cases[0].Owners)})
	}
}
