package gohbase

// C06 / C14 driver: the real scanner against the simulated servers.
//
// For small tables every way the servers may cut the stream (results per
// response 0..2, last row cut into a partial fragment after 1 or 2 cells,
// heartbeats) is enumerated with an odometer over the decisions actually
// asked for; larger random tables use seeded random cuts.  C14 additionally
// ends the scan at every position: Close or cancellation before the k-th Next,
// an RPC error on the k-th request, an early "no more results".
// Everything observed goes to scan_trace.ndjson for TLC (Trace_Scanner).

import (
	"bytes"
	"context"
	"fmt"
	"io"
	"math/rand"
	"os"
	"sort"
	"strconv"
	"strings"
	"testing"
	"testing/synctest"
	"time"

	"github.com/tsuna/gohbase/hrpc"
	"github.com/tsuna/gohbase/internal/verifsim"
	"github.com/tsuna/gohbase/pb"
)

type scanRow struct {
	Key []byte
	N   int
}

type scanScenario struct {
	name     string
	rows     []scanRow
	splits   [][]byte
	start    []byte
	stop     []byte
	reversed bool
	partial  bool
	script   []int // decision indices per response (odometer)
	randCut  *rand.Rand
	// C14 endings (0 = never)
	closeBefore  int  // user Close before the k-th Next call
	cancelBefore int  // cancel before the k-th Next call
	byDeadline   bool // ... the context ends by reaching its deadline instead of being cancelled
	excAtResp    int  // the k-th scan response is an exception
	earlyAtResp  int  // the k-th response claims more_results=false (at a row boundary)
	maxCut       int
	// lease renewal (hrpc.RenewInterval) with the user pausing between Next calls
	renew time.Duration
	think time.Duration
	// cellblocks compressed (CompressionCodec); empty responses flagged heartbeat_message
	snappy     bool
	hbFlag     bool
	zeroID     bool // the first region scanner the servers open gets the id 0
	emptyFirst bool // responses with results begin with an empty fragment (a result of no cells flagged partial)
}

type scanRun struct {
	options  []int // number of options at each response actually asked for
	events   []verifsim.Ev
	leftOpen []uint64
	nexts    int
	mutated  string // a result that changed after it had been delivered
}

type cutOption struct{ entries, cutAfter int }

func scanOptions(ctx *verifsim.ScanCtx, maxCut int, prevHeartbeat bool) []cutOption {
	var opts []cutOption
	max := maxCut
	if ctx.Remaining < max {
		max = ctx.Remaining
	}
	for e := max; e >= 0; e-- { // first option: as much as allowed, uncut
		if e == 0 {
			if !prevHeartbeat && ctx.Remaining > 0 {
				opts = append(opts, cutOption{0, 0})
			}
			continue
		}
		opts = append(opts, cutOption{e, 0})
		for c := 1; c <= 2; c++ {
			opts = append(opts, cutOption{e, c})
		}
	}
	if len(opts) == 0 {
		opts = append(opts, cutOption{0, 0})
	}
	return opts
}

func runScan(sc scanScenario) scanRun {
	var run scanRun
	tr := &verifsim.Trace{}
	cl := verifsim.NewCluster(tr)
	hosts := []string{"rs1:16020", "rs2:16020"}
	for _, h := range hosts {
		cl.AddServer(h)
	}
	cl.CreateTable("t", sc.splits, hosts)
	cl.ZeroScanID = sc.zeroID
	rowsJ := []map[string]any{}
	for _, r := range sc.rows {
		cells := make([]verifsim.KV, r.N)
		for i := range cells {
			cells[i] = verifsim.KV{Row: r.Key, Family: []byte("f"), Qualifier: []byte{byte('a' + i)}, Timestamp: 1, Type: 4, Value: []byte{byte(i)}}
		}
		cl.PutRow("t", r.Key, cells)
		rowsJ = append(rowsJ, map[string]any{"key": verifsim.Bytes(r.Key), "n": r.N})
	}
	resp := 0
	prevHB := false
	cl.ScanChunker = func(ctx *verifsim.ScanCtx) verifsim.ScanCut {
		resp++
		if sc.excAtResp == resp {
			return verifsim.ScanCut{Exc: verifsim.ExcDoNotRetry}
		}
		var cut verifsim.ScanCut
		if sc.randCut != nil {
			opts := scanOptions(ctx, 1+sc.randCut.Intn(4), prevHB)
			o := opts[sc.randCut.Intn(len(opts))]
			cut = verifsim.ScanCut{Entries: o.entries, CutLastAfter: o.cutAfter}
		} else {
			opts := scanOptions(ctx, sc.maxCut, prevHB)
			k := len(run.options)
			choice := 0
			if k < len(sc.script) {
				choice = sc.script[k]
			}
			if choice >= len(opts) {
				choice = 0
			}
			run.options = append(run.options, len(opts))
			cut = verifsim.ScanCut{Entries: opts[choice].entries, CutLastAfter: opts[choice].cutAfter}
		}
		prevHB = cut.Entries == 0
		cut.Heartbeat = sc.hbFlag
		cut.HeartbeatWithResults = sc.hbFlag && resp%3 == 1
		cut.EmptyFirst = sc.emptyFirst && !sc.partial && resp%2 == 0 // (a user who asked for partial results is handed whatever comes)
		if sc.earlyAtResp == resp {
			cut.CutLastAfter = 0 // a server ends a scan at a row boundary only
			if ctx.CurRowCells > 0 && ctx.Remaining > 0 && cut.Entries == 0 {
				cut.Entries = 1
			}
			cut.NoMoreResults = true
		}
		return cut
	}
	copts := []Option{RpcQueueSize(1)}
	if sc.snappy {
		copts = append(copts, CompressionCodec("snappy"))
	}
	c := newSimClient(cl, copts...)
	ctx, cancel := context.WithCancel(context.Background())
	deadline := time.Now().Add(time.Minute)
	if sc.byDeadline {
		cancel()
		ctx, cancel = context.WithDeadline(context.Background(), deadline)
	}
	defer cancel()
	opts := []func(hrpc.Call) error{}
	if sc.reversed {
		opts = append(opts, hrpc.Reversed())
	}
	if sc.partial {
		opts = append(opts, hrpc.AllowPartialResults())
	}
	if sc.renew > 0 {
		opts = append(opts, hrpc.RenewInterval(sc.renew))
	}
	scan, err := hrpc.NewScanRange(ctx, []byte("t"), sc.start, sc.stop, opts...)
	if err != nil {
		panic(err)
	}
	splitsJ := [][]int{}
	for _, s := range sc.splits {
		splitsJ = append(splitsJ, verifsim.Bytes(s))
	}
	// warm the location cache so that meta lookups do not interleave with the scan's own requests
	for _, r := range cl.OnlineRegions("t") {
		g, _ := hrpc.NewGet(context.Background(), []byte("t"), append(append([]byte{}, r.Start...), 0x7f))
		c.Get(g)
	}
	synctest.Wait()
	tr.Emit("scanStart", "scenario", sc.name, "rows", rowsJ, "splits", splitsJ, "start", verifsim.Bytes(sc.start), "stop", verifsim.Bytes(sc.stop),
		"reversed", sc.reversed, "partial", sc.partial, "renew", sc.renew > 0)
	s := c.Scan(scan)
	terminal := 0
	var kept []*hrpc.Result // every result handed out, and what it said when it was handed out
	var keptAs []string
	for n := 1; n <= 4*len(sc.rows)+8 && terminal < 2; n++ {
		if sc.closeBefore == n {
			tr.Emit("userClose")
			s.Close()
			s.Close() // idempotent
		}
		if sc.cancelBefore == n {
			tr.Emit("cancel")
			if sc.byDeadline {
				time.Sleep(time.Until(deadline) + time.Millisecond)
				synctest.Wait()
			} else {
				cancel()
			}
		}
		if sc.think > 0 && n > 1 {
			time.Sleep(sc.think) // the user is busy with the previous row: renewals keep the region scanner's lease alive
			synctest.Wait()
		}
		tr.Emit("nextCall")
		r, err := s.Next()
		run.nexts++
		ev := map[string]any{"kind": "row", "row": []int{}, "n": 0, "partial": false}
		switch {
		case err == nil:
			kept, keptAs = append(kept, r), append(keptAs, scanResultString(r))
			if len(r.Cells) > 0 {
				ev["row"] = verifsim.Bytes(r.Cells[0].Row)
				for _, cell := range r.Cells {
					if !bytes.Equal(cell.Row, r.Cells[0].Row) {
						ev["row"] = []int{-1} // cells of two rows in one result
					}
				}
			}
			ev["n"] = len(r.Cells)
			ev["partial"] = r.Partial
		case err == io.EOF:
			ev["kind"] = "eof"
			terminal++
		case err == context.Canceled || err == context.DeadlineExceeded:
			ev["kind"] = "ctx"
			terminal++
		default:
			ev["kind"] = "err"
			terminal++
		}
		tr.Emit("next", "kind", ev["kind"], "row", ev["row"], "n", ev["n"], "partial", ev["partial"])
	}
	t0 := time.Now()
	s.Close()
	if time.Since(t0) != 0 {
		tr.Emit("closeBlocked", "virtual_ns", int(time.Since(t0)))
	}
	time.Sleep(50 * time.Millisecond) // the asynchronous close request drains
	synctest.Wait()
	open := cl.OpenScanners()
	openJ := []int{}
	for _, id := range open {
		openJ = append(openJ, int(id))
	}
	run.leftOpen = open
	tr.Emit("scanEnd", "open", openJ)
	if sc.renew > 0 {
		time.Sleep(5 * sc.renew) // a renewer that outlives its scan would show here
		synctest.Wait()
		tr.Emit("renewQuiet")
	}
	c.Close()
	synctest.Wait()
	// a result belongs to the caller once Next has returned it: whatever the client received afterwards must not show in it
	for i, r := range kept {
		if now := scanResultString(r); now != keptAs[i] && run.mutated == "" {
			run.mutated = fmt.Sprintf("result #%d was %s when Next returned it and reads %s after the scan", i+1, keptAs[i], now)
		}
	}
	run.events = tr.Events()
	return run
}

func scanResultString(r *hrpc.Result) string {
	var b strings.Builder
	for _, c := range r.Cells {
		fmt.Fprintf(&b, "{%x %s %x ts=%d t=%v %x}", c.Row, c.Family, c.Qualifier, (*pb.Cell)(c).GetTimestamp(), (*pb.Cell)(c).GetCellType(), c.Value)
	}
	return b.String()
}

// scanFlush writes the events the trace specification reads (meta scanners are the lookup machinery, not the scan).
func scanFlush(w *verifsim.NDJSONWriter, evs []verifsim.Ev) int {
	metaIDs := map[int]bool{}
	started := false
	n := 0
	for _, e := range evs {
		switch e["ev"] {
		case "scanStart":
			started = true
		case "scanOpen":
			if e["meta"].(bool) {
				metaIDs[e["scanner"].(int)] = true
				continue
			}
		case "scanCont", "scanResp", "scanClose", "scanExc", "scanRenew", "scanUnknown":
			if metaIDs[e["scanner"].(int)] {
				continue
			}
		case "nextCall", "next", "cancel", "userClose", "scanEnd", "renewQuiet":
		default:
			continue
		}
		if !started {
			continue
		}
		w.Write(e)
		n++
	}
	return n
}

func TestVerifScan(t *testing.T) {
	out := os.Getenv("VERIF_OUT")
	if out == "" {
		t.Skip("VERIF_OUT not set")
	}
	seed, _ := strconv.ParseInt(os.Getenv("VERIF_SEED"), 10, 64)
	nrand, _ := strconv.Atoi(os.Getenv("VERIF_N"))
	endings := os.Getenv("VERIF_ENDINGS") == "1" // C14
	maxScripts, _ := strconv.Atoi(os.Getenv("VERIF_MAXSCRIPTS"))
	ndj, err := verifsim.NewNDJSON(out + "/scan_trace.ndjson")
	if err != nil {
		t.Fatal(err)
	}
	rep := &simReport{Extra: map[string]any{}}
	simOnStall("scan_result.json", rep)
	defer func() {
		rep.Events = ndj.Count()
		ndj.Close()
		simWriteReport("scan_result.json", rep)
	}()
	rng := rand.New(rand.NewSource(seed))
	do := func(sc scanScenario) scanRun {
		var run scanRun
		verifsim.Bubble(t, func(t *testing.T) { run = runScan(sc) })
		scanFlush(ndj, run.events)
		rep.Scenarios++
		if run.mutated != "" {
			rep.bad("delivered-row-changed-afterwards", "%s: %s", sc.name, run.mutated)
		}
		if len(run.leftOpen) > 0 {
			rep.bad("region-scanner-left-open", "%s: region scanners %v were neither exhausted nor closed", sc.name, run.leftOpen)
		}
		// "... by the server declaring no more results while a region scanner is still open": that region scanner is sent an
		// explicit close (whether or not the server has already let go of it)
		declared := map[any]bool{}
		for _, e := range run.events {
			switch {
			case e["ev"] == "scanResp" && e["noMoreResults"] == true && e["moreInRegion"] == true:
				declared[e["scanner"]] = true
			case e["ev"] == "scanClose":
				delete(declared, e["scanner"])
			}
		}
		for id := range declared {
			rep.bad("region-scanner-left-open:server-declared-the-scan-over", "%s: the server declared the scan over while region scanner %v still had rows; "+
				"the client never sent it a close", sc.name, id)
		}
		for _, e := range run.events {
			if e["ev"] == "closeBlocked" {
				rep.bad("close-blocked", "%s: Close took %v ns of virtual time", sc.name, e["virtual_ns"])
			}
		}
		return run
	}

	// ---- small scope: every cut
	rows := []scanRow{{[]byte{0}, 2}, {[]byte{0, 1}, 3}, {[]byte{1}, 1}}
	type small struct {
		splits      [][]byte
		start, stop []byte
		reversed    bool
	}
	smalls := []small{
		{nil, nil, nil, false},
		{[][]byte{{0, 1}}, nil, nil, false},
		{[][]byte{{0, 1}, {1}}, []byte{0, 0}, []byte{1, 0}, false},
		{[][]byte{{1}}, []byte{0, 1}, []byte{1}, false},
		{nil, []byte{1, 0}, nil, true},
		{[][]byte{{0, 1}}, []byte{1}, nil, true},
		{[][]byte{{0, 1}, {1}}, []byte{1, 0}, []byte{0}, true},
		{[][]byte{{1}}, []byte{0, 1, 9}, nil, true},
	}
	total := 0
	for si, sm := range smalls {
		for _, partial := range []bool{false, true} {
			base := scanScenario{rows: rows, splits: sm.splits, start: sm.start, stop: sm.stop, reversed: sm.reversed, partial: partial, maxCut: 2}
			script := []int{}
			count := 0
			for {
				sc := base
				sc.script = append([]int{}, script...)
				sc.snappy, sc.hbFlag, sc.zeroID, sc.emptyFirst = count%2 == 1, (count/2)%2 == 1, count%3 == 0, count%5 == 2
				sc.name = fmt.Sprintf("small/%d/partial=%v/script=%v/snappy=%v,hb=%v", si, partial, script, sc.snappy, sc.hbFlag)
				if endings {
					// every script is also run with two of the ways to end, rotating kind and position
					for v := 0; v < 2; v++ {
						e := sc
						switch (count*2 + v) % 4 {
						case 0:
							e.closeBefore = 1 + (count/2)%5
						case 1:
							e.cancelBefore, e.byDeadline = 1+(count/2)%5, (count/8)%2 == 1
						case 2:
							e.excAtResp = 1 + (count/2)%4
						case 3:
							e.earlyAtResp = 1 + (count/2)%3
						}
						e.name += fmt.Sprintf("/end=%d,%d,%d,%d,deadline=%v", e.closeBefore, e.cancelBefore, e.excAtResp, e.earlyAtResp, e.byDeadline)
						do(e)
						total++
					}
				}
				if count%3 == 0 {
					// the same script with lease renewal on and a user who pauses 2.5 renew intervals between Next calls; with
					// endings, one of them rotating
					rn := sc
					rn.renew, rn.think = time.Second, 2500*time.Millisecond
					rn.name += "/renew"
					if endings {
						switch (count / 3) % 4 {
						case 0:
							rn.closeBefore = 2 + (count/12)%3
						case 1:
							rn.cancelBefore, rn.byDeadline = 2+(count/12)%3, (count/24)%2 == 1
						case 2:
							rn.excAtResp = 2 + (count/12)%3
						}
						rn.name += fmt.Sprintf("/end=%d,%d,%d,%d", rn.closeBefore, rn.cancelBefore, rn.excAtResp, rn.earlyAtResp)
					}
					rr := do(rn)
					total++
					quiet := false
					for _, e := range rr.events {
						if e["ev"] == "scanEnd" {
							quiet = true
						} else if quiet && e["ev"] == "scanRenew" {
							rep.bad("renewal-after-scan-end", "%s: a renewal request reached a server after the scan had ended", rn.name)
						}
					}
				}
				run := do(sc)
				count++
				total++
				// odometer: advance the last position that still has options left
				script = append([]int{}, sc.script...)
				for len(script) < len(run.options) {
					script = append(script, 0)
				}
				script = script[:len(run.options)]
				k := len(script) - 1
				for k >= 0 && script[k]+1 >= run.options[k] {
					k--
				}
				if k < 0 || (maxScripts > 0 && count >= maxScripts) {
					break
				}
				script[k]++
				script = script[:k+1]
			}
			rep.Extra[fmt.Sprintf("small%d_partial%v_scripts", si, partial)] = count
		}
	}
	rep.Distinct = total

	// ---- random tables and cuts
	alphabet := []byte{0, 1, ',', 'a', 0xfe, 0xff}
	randKey := func() []byte {
		n := 1 + rng.Intn(3)
		b := make([]byte, n)
		for i := range b {
			b[i] = alphabet[rng.Intn(len(alphabet))]
		}
		return b
	}
	for k := 0; k < nrand; k++ {
		m := map[string]bool{}
		for n := 1 + rng.Intn(12); len(m) < n; {
			m[string(randKey())] = true
		}
		var rws []scanRow
		for key := range m {
			rws = append(rws, scanRow{[]byte(key), 1 + rng.Intn(3)})
		}
		sort.Slice(rws, func(i, j int) bool { return bytes.Compare(rws[i].Key, rws[j].Key) < 0 })
		sm := map[string]bool{}
		for n := rng.Intn(4); len(sm) < n; {
			s := randKey()
			sm[string(s)] = true
		}
		var splits [][]byte
		for s := range sm {
			splits = append(splits, []byte(s))
		}
		sort.Slice(splits, func(i, j int) bool { return bytes.Compare(splits[i], splits[j]) < 0 })
		sc := scanScenario{rows: rws, splits: splits, reversed: rng.Intn(2) == 0, partial: rng.Intn(2) == 0, randCut: rand.New(rand.NewSource(rng.Int63()))}
		a, b := randKey(), randKey()
		if rng.Intn(3) == 0 && len(splits) > 0 {
			a = splits[rng.Intn(len(splits))] // bounds equal to region boundaries
		}
		if bytes.Compare(a, b) > 0 {
			a, b = b, a
		}
		if sc.reversed {
			sc.start, sc.stop = b, a
			if rng.Intn(3) == 0 {
				sc.stop = nil
			}
		} else {
			sc.start, sc.stop = a, b
			if rng.Intn(3) == 0 {
				sc.start = nil
			}
			if rng.Intn(3) == 0 {
				sc.stop = nil
			}
		}
		if endings {
			switch rng.Intn(5) {
			case 0:
				sc.closeBefore = 1 + rng.Intn(len(rws)+2)
			case 1:
				sc.cancelBefore, sc.byDeadline = 1+rng.Intn(len(rws)+2), k%2 == 1
			case 2:
				sc.excAtResp = 1 + rng.Intn(6)
			case 3:
				sc.earlyAtResp = 1 + rng.Intn(4)
			}
		}
		sc.zeroID, sc.emptyFirst = k%3 == 0, k%5 == 2
		sc.snappy, sc.hbFlag = k%2 == 1, (k/2)%2 == 1 // (not drawn from rng: the scenarios stay those of earlier runs)
		sc.name = fmt.Sprintf("random/%d", k)
		do(sc)
		rep.Distinct++
		if k < 2 {
			rep.Samples = append(rep.Samples, map[string]any{"scenario": sc.name, "rows": len(rws), "splits": len(splits), "reversed": sc.reversed, "partial": sc.partial})
		}
	}

	// ---- reversed scans over a region boundary with rows as close below the boundary as a key can get: the boundary's
	// predecessor followed by 1..7 bytes 0xff (and more bytes) - where the client starts the next region decides whether it
	// sees them
	ff := func(n int, tail ...byte) []byte {
		k := []byte("baq")
		for i := 0; i < n; i++ {
			k = append(k, 0xff)
		}
		return append(k, tail...)
	}
	var close []scanRow
	for _, key := range [][]byte{[]byte("b"), []byte("baq"), ff(1), ff(3, 1), ff(6, 0xfe), ff(7), ff(7, 1), ff(7, 0xfe, 2), []byte("bar"), []byte("bar\x00"), []byte("foo")} {
		close = append(close, scanRow{key, 1 + len(key)%2})
	}
	for k := 0; k < 6; k++ {
		sc := scanScenario{rows: close, splits: [][]byte{[]byte("bar")}, reversed: true, start: []byte("zzz"), partial: k%2 == 1,
			randCut: rand.New(rand.NewSource(seed*31 + int64(k)))}
		if k >= 4 {
			sc.splits = [][]byte{[]byte("baq"), []byte("bar")}
		}
		sc.name = fmt.Sprintf("reversed-rows-just-below-a-region-boundary/%d", k)
		do(sc)
		rep.Distinct++
	}
}
