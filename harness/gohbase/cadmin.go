package gohbase

// Admin client driver (Admin.tla / Trace_Admin.tla): table operations against
// the simulated master. Every scenario of the specification's scope (how many
// polls the master answers RUNNING, how the procedure ends, whether the
// submission itself fails) x {create, delete, enable, disable}, plus
// cancellations at every poll and inside every back-off sleep. The master logs
// each request with its virtual time; TLC validates the polling schedule, the
// returned verdict and the promptness of cancellation.

import (
	"context"
	"errors"
	"fmt"
	"os"
	"strings"
	"sync"
	"testing"
	"testing/synctest"
	"time"

	"github.com/tsuna/gohbase/hrpc"
	"github.com/tsuna/gohbase/internal/verifsim"
)

func TestVerifAdmin(t *testing.T) {
	out := os.Getenv("VERIF_OUT")
	if out == "" {
		t.Skip("VERIF_OUT not set")
	}
	ndj, err := verifsim.NewNDJSON(out + "/admin_trace.ndjson")
	if err != nil {
		t.Fatal(err)
	}
	rep := &simReport{Extra: map[string]any{}}
	simOnStall("admin_result.json", rep)
	defer func() {
		rep.Events = ndj.Count()
		ndj.Close()
		simWriteReport("admin_result.json", rep)
	}()
	type scen struct {
		op          string
		running     int
		outcome     string // ok, exception, notfound, rpcerror
		submitFails bool
		cancelPoll  int           // cancel when the master sees the k-th poll (0: never)
		cancelAfter time.Duration // or this long after the call started (0: never)
	}
	var all []scen
	ops := []string{"create", "delete", "enable", "disable"}
	for oi, op := range ops {
		for _, running := range []int{0, 1, 2, 5, 11} {
			for _, outcome := range []string{"ok", "exception", "notfound", "rpcerror"} {
				all = append(all, scen{op: op, running: running, outcome: outcome})
			}
		}
		all = append(all, scen{op: op, outcome: "rpcerror", submitFails: true})
		// cancellations: while the k-th poll is being answered, and in the middle of the back-off after it
		for k := 1; k <= 4; k++ {
			all = append(all, scen{op: ops[(oi+k)%4], running: 1000, outcome: "ok", cancelPoll: k})
		}
		for _, d := range []time.Duration{5 * time.Millisecond, 20 * time.Millisecond, 100 * time.Millisecond, 3 * time.Second, 40 * time.Second} {
			all = append(all, scen{op: op, running: 1000, outcome: "ok", cancelAfter: d})
		}
	}
	for si, s := range all {
		name := fmt.Sprintf("%d/%s/running=%d/%s/submitFails=%v/cancelPoll=%d/cancelAfter=%v", si, s.op, s.running, s.outcome, s.submitFails, s.cancelPoll, s.cancelAfter)
		verifsim.Bubble(t, func(t *testing.T) {
			tr := &verifsim.Trace{}
			cl := verifsim.NewCluster(tr)
			for _, a := range []string{"ms", "master"} {
				cl.AddServer(a)
			}
			cl.MasterAddr = "master"
			cl.ProcPolls = s.running
			t0 := time.Now()
			us := func() int { return int(time.Since(t0) / time.Microsecond) }
			var mu sync.Mutex
			var evs []map[string]any
			emit := func(e map[string]any) { mu.Lock(); evs = append(evs, e); mu.Unlock() }
			ctx, cancel := context.WithCancel(context.Background())
			defer cancel()
			cancelledAt := -1
			doCancel := func() {
				mu.Lock()
				if cancelledAt < 0 {
					cancelledAt = us()
					evs = append(evs, map[string]any{"ev": "cancel", "t": cancelledAt})
				}
				mu.Unlock()
				cancel()
			}
			polls := 0
			cl.Rules = append(cl.Rules, func(c *verifsim.Cluster, rs *verifsim.RS, sc *verifsim.ServerConn, req *verifsim.Request, name []byte) *verifsim.Directive {
				switch req.Method {
				case "CreateTable", "DeleteTable", "EnableTable", "DisableTable":
					if s.submitFails {
						return &verifsim.Directive{Exc: verifsim.ExcDoNotRetry}
					}
					emit(map[string]any{"ev": "submitSeen", "t": us(), "method": req.Method})
				case "getProcedureResult":
					mu.Lock()
					polls++
					k := polls
					mu.Unlock()
					emit(map[string]any{"ev": "procPoll", "n": k, "t": us()})
					if s.cancelPoll == k {
						doCancel()
						return &verifsim.Directive{Silent: true} // the answer never comes: only the cancellation ends the wait
					}
					if k > s.running {
						switch s.outcome {
						case "notfound":
							c.ForgetProcs()
						case "rpcerror":
							return &verifsim.Directive{Exc: verifsim.ExcDoNotRetry}
						case "exception":
							c.Lock()
							c.ProcOutcome = "exception"
							c.Unlock()
						}
					}
				}
				return nil
			})
			c := newSimAdminClient(cl)
			emit(map[string]any{"ev": "adminStart", "scenario": name, "running": s.running, "outcome": s.outcome, "submitFails": s.submitFails})
			done := make(chan error, 1)
			go func() {
				var err error
				switch s.op {
				case "create":
					err = c.CreateTable(hrpc.NewCreateTable(ctx, []byte("nt"), map[string]map[string]string{"f": nil}))
				case "delete":
					err = c.DeleteTable(hrpc.NewDeleteTable(ctx, []byte("nt")))
				case "enable":
					err = c.EnableTable(hrpc.NewEnableTable(ctx, []byte("nt")))
				case "disable":
					err = c.DisableTable(hrpc.NewDisableTable(ctx, []byte("nt")))
				}
				emit(map[string]any{"ev": "adminRet", "t": us(), "result": adminResult(err), "cancelledAt": func() int { mu.Lock(); defer mu.Unlock(); return cancelledAt }(), "err": fmt.Sprint(err)})
				done <- err
			}()
			if s.cancelAfter > 0 {
				time.Sleep(s.cancelAfter)
				doCancel()
			}
			time.Sleep(20 * time.Minute) // the whole schedule for 11 polls is ~ 1 minute
			synctest.Wait()
			select {
			case <-done:
			default:
				rep.bad("admin-call-never-returns", "%s: the admin call has not returned after 20 virtual minutes", name)
				doCancel()
				time.Sleep(time.Second)
				synctest.Wait()
			}
			rep.Scenarios++
			rep.Distinct++
			if ac := c.adminRegionInfo.Client(); ac != nil {
				ac.Close()
			}
			time.Sleep(2 * time.Minute)
			synctest.Wait()
			for _, a := range []string{"ms", "master"} {
				cl.ResetConns(a)
			}
			time.Sleep(time.Minute)
			synctest.Wait()
			mu.Lock()
			for _, e := range evs {
				ndj.Write(e)
			}
			mu.Unlock()
		})
	}
}

func adminResult(err error) string {
	switch {
	case err == nil:
		return "ok"
	case errors.Is(err, context.Canceled) || errors.Is(err, context.DeadlineExceeded):
		return "ctx"
	case strings.Contains(err.Error(), "procedure not found"):
		return "notfound"
	case strings.Contains(err.Error(), "procedure exception"):
		return "exception"
	}
	return "rpcerror"
}
