package gohbase

// C19 / C20 driver: Close is terminal; one connection per regionserver.
//
//  A. forced schedules = the TLC counter-examples of MC_ConnCache_pinned:
//     A1 an establisher that has located its region is parked before
//        clients.put; Close() runs to completion; the establisher goes on;
//     A2 Dial is parked between the dialer returning and the conn being
//        published; Close() runs; Dial goes on;
//     A3 ZooKeeper keeps failing while the client is closed.
//  B. Close at EVERY hook position of a workload (before / during dial,
//     during the probe, while requests are written or answered, ...).
//  C. seeded random workloads with faults, Close at a random virtual time.
//  D. (C20) N regions of one server first used by M concurrent callers, with
//     and without connection failures: dials per address are counted.
//
// After each scenario: every API call has returned (promptly after Close),
// every connection the client opened is closed at both ends, and once the
// calls have returned nothing is dialled or looked up any more and no
// goroutine of the client is left.

import (
	"bytes"
	"context"
	"errors"
	"fmt"
	"math/rand"
	"os"
	"runtime"
	"strconv"
	"strings"
	"sync"
	"sync/atomic"
	"testing"
	"testing/synctest"
	"time"

	"github.com/tsuna/gohbase/hrpc"
	"github.com/tsuna/gohbase/internal/verifsim"
	"google.golang.org/protobuf/proto"
)

// hookBus records every hook point hit (both packages) and can park the k-th hit.
type hookBus struct {
	mu      sync.Mutex
	hits    []string
	parkAt  int // 1-based index of the hit to park (0: none)
	parkPt  string
	parked  chan struct{}
	release chan struct{}
	done    bool
	skip    map[string]bool
}

func newHookBus() *hookBus {
	// points inside a critical section (sync.Once bodies, cache lock) are never used for parking
	return &hookBus{parked: make(chan struct{}), release: make(chan struct{}),
		skip: map[string]bool{"fail.doneClosed": true, "fail.connClosed": true, "close.doneClosed": true,
			// MarkUnavailable is also called by closeAll under the cache lock
			"info.markUnavailable": true}}
}

func (b *hookBus) on(point string, detail string) {
	name := point
	if detail != "" {
		name += ":" + detail
	}
	b.mu.Lock()
	b.hits = append(b.hits, name)
	n := len(b.hits)
	park := !b.done && !b.skip[point] && ((b.parkAt > 0 && n == b.parkAt) || (b.parkPt != "" && name == b.parkPt))
	if park {
		b.done = true
	}
	b.mu.Unlock()
	if park {
		close(b.parked)
		<-b.release
	}
}

func (b *hookBus) install() {
	simSetHook(func(point string, c any, arg any) {
		d := ""
		if r, ok := arg.(hrpc.RegionInfo); ok && r != nil {
			d = string(r.Name())
		}
		b.on(point, d)
	})
	simSetRegionHook(func(point string, c any, arg any) { b.on(point, "") })
}

func (b *hookBus) uninstall() {
	// the hooks stay installed (the next scenario installs its own before it starts anything): writing nil here could race
	// with goroutines that a defective client leaves behind
	b.mu.Lock()
	b.done = true
	b.mu.Unlock()
}

type c19Call struct {
	name     string
	err      error
	returned bool
	at       time.Time
}

type c19Env struct {
	tr    *verifsim.Trace
	cl    *verifsim.Cluster
	c     *client
	mu    sync.Mutex
	calls []*c19Call
	wg    sync.WaitGroup
	conns []*verifsim.Conn
	cmu   sync.Mutex
	// ctx is live during the whole scenario and all its checks; it is only cancelled in the tear-down, so that a caller
	// that is (wrongly) still blocked does not keep the scenario from ending
	ctx    context.Context
	cancel context.CancelFunc
}

// c19gatedGet / c19gatedPut: calls whose serialisation (ToProto, called by the connection that sends them) can be held.
type c19gatedGet struct {
	*hrpc.Get
	gate func()
	once atomic.Bool
}

func (g *c19gatedGet) ToProto() proto.Message {
	if g.once.CompareAndSwap(false, true) {
		g.gate()
	}
	return g.Get.ToProto()
}

type c19gatedPut struct {
	*hrpc.Mutate
	gate func()
	once atomic.Bool
}

func (g *c19gatedPut) ToProto() proto.Message {
	if g.once.CompareAndSwap(false, true) {
		g.gate()
	}
	return g.Mutate.ToProto()
}

func (g *c19gatedPut) SerializeCellBlocks(cbs [][]byte) (proto.Message, [][]byte, uint32) {
	if g.once.CompareAndSwap(false, true) {
		g.gate()
	}
	return g.Mutate.SerializeCellBlocks(cbs)
}

func newC19Env(queue int, opts ...Option) *c19Env {
	e := &c19Env{tr: &verifsim.Trace{}}
	e.ctx, e.cancel = context.WithCancel(context.Background())
	e.cl = verifsim.NewCluster(e.tr)
	for _, h := range []string{"ms", "rs1", "rs2"} {
		e.cl.AddServer(h)
	}
	e.cl.CreateTable("t", [][]byte{[]byte("g"), []byte("p")}, []string{"rs1", "rs1", "rs2"})
	for _, k := range []string{"a5", "a6", "a7"} {
		e.cl.PutRow("t", []byte(k), []verifsim.KV{{Row: []byte(k), Family: []byte("f"), Qualifier: []byte("q"), Timestamp: 1, Type: 4, Value: []byte("v")}})
	}
	e.c = newSimClient(e.cl, append([]Option{RpcQueueSize(queue)}, opts...)...)
	return e
}

func (e *c19Env) goCall(name string, f func() error) {
	cc := &c19Call{name: name}
	e.mu.Lock()
	e.calls = append(e.calls, cc)
	e.mu.Unlock()
	e.wg.Add(1)
	go func() {
		defer e.wg.Done()
		err := f()
		e.mu.Lock()
		cc.err, cc.returned, cc.at = err, true, time.Now()
		e.mu.Unlock()
	}()
}

func (e *c19Env) get(key string) {
	e.goCall("get:"+key, func() error {
		g, _ := hrpc.NewGet(e.ctx, []byte("t"), []byte(key))
		_, err := e.c.Get(g)
		return err
	})
}
func (e *c19Env) put(key string) {
	e.goCall("put:"+key, func() error {
		p, _ := hrpc.NewPut(e.ctx, []byte("t"), []byte(key), map[string]map[string][]byte{"f": {"q": []byte("v")}}, hrpc.SkipBatch())
		_, err := e.c.Put(p)
		return err
	})
}
func (e *c19Env) batch(keys ...string) {
	e.goCall("batch:"+strings.Join(keys, ","), func() error {
		var b []hrpc.Call
		for _, k := range keys {
			p, _ := hrpc.NewPut(e.ctx, []byte("t"), []byte(k), map[string]map[string][]byte{"f": {"q": []byte("v")}})
			b = append(b, p)
		}
		res, ok := e.c.SendBatch(e.ctx, b)
		if !ok {
			for _, r := range res {
				if r.Error != nil {
					return r.Error
				}
			}
		}
		return nil
	})
}
func (e *c19Env) scan() {
	e.goCall("scan", func() error {
		s, _ := hrpc.NewScanStr(e.ctx, "t")
		sc := e.c.Scan(s)
		for {
			_, err := sc.Next()
			if err != nil {
				if err.Error() == "EOF" {
					return nil
				}
				return err
			}
		}
	})
}

// scanRenew: a scan that keeps its region scanner's lease alive in the background (hrpc.RenewInterval); the user reads one
// row and walks away - no further Next, no Close of the scanner, a context that never ends. The renewer is a goroutine of
// the client: Close of the client must end it like everything else.
func (e *c19Env) scanRenew() {
	e.goCall("scan-with-lease-renewal", func() error {
		s, _ := hrpc.NewScanStr(context.Background(), "t", hrpc.NumberOfRows(1), hrpc.RenewInterval(time.Second))
		_, err := e.c.Scan(s).Next()
		if err != nil && err.Error() == "EOF" {
			return nil
		}
		return err
	})
}

// cacheRegions: the entry point that looks up ALL regions of a table (its own retry loop, no context of the caller's)
func (e *c19Env) cacheRegions() {
	e.goCall("cacheRegions", func() error { return e.c.CacheRegions([]byte("t")) })
}

func c19counts(tr *verifsim.Trace) (dials, lookups int) {
	for _, ev := range tr.Events() {
		switch ev["ev"] {
		case "dial":
			dials++
		case "zk", "metaScan":
			lookups++
		}
	}
	return
}

// c19finish closes (twice), waits, and checks the terminal conditions. closedAt is when Close returned (zero: Close is called here).
func c19finish(e *c19Env, rep *simReport, name string, closedAt time.Time, baseGoroutines int) {
	if closedAt.IsZero() {
		t0 := time.Now()
		e.c.Close()
		if time.Since(t0) != 0 {
			rep.bad("close-blocked", "%s: Close took %v of virtual time", name, time.Since(t0))
		}
		closedAt = time.Now()
	}
	e.c.Close() // closing twice is harmless
	synctest.Wait()
	// 1. every call has returned, promptly
	e.mu.Lock()
	for _, cc := range e.calls {
		if !cc.returned {
			rep.bad("call-blocked-after-close", "%s: %s has not returned after Close", name, cc.name)
		} else if cc.at.After(closedAt) && cc.at.Sub(closedAt) > 0 {
			rep.bad("call-slow-after-close", "%s: %s returned %v after Close returned", name, cc.name, cc.at.Sub(closedAt))
		} else if cc.returned && cc.at.After(closedAt.Add(-time.Nanosecond)) && cc.err != nil && cc.err != ErrClientClosed &&
			!errors.Is(cc.err, context.Canceled) && !strings.Contains(cc.err.Error(), "client is closed") {
			// a call ended by Close must say so (an error of its own that it had obtained already is fine too)
			_ = cc
		}
	}
	e.mu.Unlock()
	// a later call is refused at once
	t1 := time.Now()
	g, _ := hrpc.NewGet(context.Background(), []byte("t"), []byte("zz"))
	_, err := e.c.Get(g)
	if err != ErrClientClosed || time.Since(t1) != 0 {
		rep.bad("late-call-after-close", "%s: a Get after Close returned %v after %v, not ErrClientClosed at once", name, err, time.Since(t1))
	}
	p, _ := hrpc.NewPut(context.Background(), []byte("t"), []byte("a1"), map[string]map[string][]byte{"f": {"q": []byte("v")}})
	res, ok := e.c.SendBatch(context.Background(), []hrpc.Call{p})
	if ok || len(res) != 1 || res[0].Error != ErrClientClosed || time.Since(t1) != 0 {
		rep.bad("late-call-after-close", "%s: a batch after Close returned ok=%v %v after %v", name, ok, res, time.Since(t1))
	}
	// ... by every entry point: CacheRegions has a retry loop of its own and no context of the caller's
	crDone := make(chan error, 1)
	go func() { crDone <- e.c.CacheRegions([]byte("t")) }()
	synctest.Wait()
	select {
	case err := <-crDone:
		if err != ErrClientClosed {
			rep.bad("late-call-after-close", "%s: CacheRegions after Close returned %v, not ErrClientClosed", name, err)
		}
	default:
		rep.bad("late-call-after-close", "%s: CacheRegions after Close did not return at once (it keeps looking regions up on a closed client)", name)
	}
	d0, l0 := c19counts(e.tr)
	// 2. nothing goes on afterwards: let every timer of the client expire
	time.Sleep(5 * time.Minute)
	synctest.Wait()
	d1, l1 := c19counts(e.tr)
	if d1 != d0 {
		rep.bad("dial-after-close", "%s: %d connection(s) dialled after Close returned and all calls had returned", name, d1-d0)
	}
	if l1 != l0 {
		rep.bad("lookup-after-close", "%s: %d lookup(s) (ZooKeeper / hbase:meta) after Close returned and all calls had returned", name, l1-l0)
	}
	// 3. every connection the client opened is closed
	for _, a := range []string{"ms", "rs1", "rs2"} {
		if n := e.cl.OpenConns(a); n > 0 {
			rep.bad("conn-open-after-close", "%s: %d connection(s) to %s are still open after Close", name, n, a)
		}
	}
	e.cmu.Lock()
	for _, cn := range e.conns {
		if !cn.IsClosed() {
			rep.bad("conn-open-after-close", "%s: the client never closed its end of %s", name, cn.Name())
		}
	}
	e.cmu.Unlock()
	// 4. no goroutine left behind
	if e.cl.ZKHold != nil { // (ZooKeeper answers at last: whoever asked on the client's behalf must be able to finish)
		select {
		case <-e.cl.ZKHold:
		default:
			close(e.cl.ZKHold)
		}
	}
	e.cancel() // (callers still blocked have been reported above; let them go)
	e.wg.Wait()
	time.Sleep(time.Minute)
	synctest.Wait()
	if n := runtime.NumGoroutine() - baseGoroutines; n > 0 {
		buf := make([]byte, 1<<20)
		buf = buf[:runtime.Stack(buf, true)]
		var left []string
		for _, g := range strings.Split(string(buf), "\n\n") {
			if strings.Contains(g, "tsuna/gohbase.") && !strings.Contains(g, "zz_verif") && !strings.Contains(g, "verifsim.") {
				lines := strings.Split(g, "\n")
				fn := ""
				for _, l := range lines[1:] {
					if strings.Contains(l, "tsuna/gohbase") && !strings.HasPrefix(l, "\t") {
						fn = l
						break
					}
				}
				left = append(left, strings.TrimSpace(lines[0])+" in "+fn)
			}
		}
		if len(left) > 0 {
			rep.bad("goroutine-left-after-close", "%s: %d goroutine(s) of the client are still alive 6 virtual minutes after Close: %v", name, len(left), left)
		}
	}
}

func TestVerifC19(t *testing.T) {
	out := os.Getenv("VERIF_OUT")
	if out == "" {
		t.Skip("VERIF_OUT not set")
	}
	seed, _ := strconv.ParseInt(os.Getenv("VERIF_SEED"), 10, 64)
	nrand, _ := strconv.Atoi(os.Getenv("VERIF_N"))
	rep := &simReport{Extra: map[string]any{}}
	simOnStall("c19_result.json", rep)
	defer simWriteReport("c19_result.json", rep)

	workload := func(e *c19Env) {
		e.get("a1")
		e.put("h1")
		e.batch("b1", "q1", "h2")
		e.get("q2")
		e.scan()
		e.cacheRegions()
		e.scanRenew()
	}
	scenario := func(name string, queue int, prep func(e *c19Env, bus *hookBus), during func(e *c19Env, bus *hookBus) time.Time, opts ...Option) []string {
		var hits []string
		verifsim.Bubble(t, func(t *testing.T) {
			base := runtime.NumGoroutine()
			bus := newHookBus()
			bus.install()
			e := newC19Env(queue, opts...)
			e.cl.ConnHook = nil
			if prep != nil {
				prep(e, bus)
			}
			closedAt := during(e, bus)
			c19finish(e, rep, name, closedAt, base)
			// unblock whatever is still parked or held so that the bubble can end
			bus.mu.Lock()
			bus.done = true
			bus.mu.Unlock()
			select {
			case <-bus.release:
			default:
				close(bus.release)
			}
			e.cl.Lock()
			e.cl.ZKErr = nil
			e.cl.MetaMode = ""
			e.cl.Rules = nil
			e.cl.Unlock()
			if e.cl.ZKHold != nil {
				select {
				case <-e.cl.ZKHold:
				default:
					close(e.cl.ZKHold)
				}
			}
			e.cl.Lock()
			for _, rs := range e.cl.Servers {
				rs.RefuseDial = false
			}
			e.cl.Unlock()
			time.Sleep(3 * time.Minute) // with a healthy cluster every stray retry loop comes to an end ...
			synctest.Wait()
			for _, a := range []string{"ms", "rs1", "rs2"} { // ... then cut whatever connection was leaked so that its goroutines end
				e.cl.ResetConns(a)
			}
			time.Sleep(3 * time.Minute)
			synctest.Wait()
			bus.uninstall()
			hits = bus.hits
			rep.Scenarios++
			rep.Distinct++
		})
		return hits
	}
	parkThenClose := func(e *c19Env, bus *hookBus) time.Time {
		workload(e)
		select {
		case <-bus.parked:
		case <-time.After(30 * time.Second):
			return time.Time{} // the point was not reached in this run: Close at the end instead
		}
		e.c.Close()
		at := time.Now()
		close(bus.release)
		return at
	}

	// ---- A1: establisher parked after locating its region (before clients.put), for each region of the table
	for _, r := range []string{"first", "second", "third"} {
		name := "A1/close-after-located-before-put/" + r
		scenario(name, 1, func(e *c19Env, bus *hookBus) {
			regs := e.cl.OnlineRegions("t")
			idx := map[string]int{"first": 0, "second": 1, "third": 2}[r]
			bus.parkPt = "establish.located:" + string(regs[idx].Name)
		}, parkThenClose)
	}
	// ---- A2: Dial parked between the dialer returning and the conn being published (first dial = meta, k-th dial)
	for k := 1; k <= 3; k++ {
		name := fmt.Sprintf("A2/close-between-dialer-and-publish/dial%d", k)
		scenario(name, 1, func(e *c19Env, bus *hookBus) {
			n := 0
			orig := bus.skip
			_ = orig
			// park the k-th "dial.dialed"
			bus.parkPt = ""
			hook := simRegionHook()
			simSetRegionHook(func(point string, c any, arg any) {
				if point == "dial.dialed" {
					bus.mu.Lock()
					n++
					if n == k {
						bus.parkPt = "dial.dialed"
					}
					bus.mu.Unlock()
				}
				hook(point, c, arg)
			})
		}, parkThenClose)
	}
	// ---- A3: ZooKeeper keeps failing / hangs while the client is closed
	for _, mode := range []string{"error", "hang"} {
		name := "A3/zookeeper-" + mode + "-then-close"
		scenario(name, 1, func(e *c19Env, bus *hookBus) {
			if mode == "error" {
				e.cl.ZKErr = errors.New("zk down")
			} else {
				e.cl.ZKHold = make(chan struct{})
			}
		}, func(e *c19Env, bus *hookBus) time.Time {
			workload(e)
			time.Sleep(2 * time.Second)
			synctest.Wait()
			return time.Time{}
		})
	}
	// ---- A4: a healthy connection that no longer serves any region the client knows (its only region moved away, was split or
	// merged onto another server, or its table was dropped) is still the client's to close
	for _, variant := range []string{"moved", "split", "merged", "dropped"} {
		for _, q := range []int{1, 4} {
			name := fmt.Sprintf("A4/connection-without-regions/%s/q=%d", variant, q)
			scenario(name, q, nil, func(e *c19Env, bus *hookBus) time.Time {
				workload(e)
				time.Sleep(2 * time.Second)
				synctest.Wait()
				regs := e.cl.OnlineRegions("t") // [,g) rs1  [g,p) rs1  [p,) rs2
				switch variant {
				case "moved":
					e.cl.Move(regs[2], "rs1")
				case "split":
					e.cl.Split(regs[2], []byte("t"), "rs1", "rs1")
				case "merged":
					e.cl.Merge(regs[1], regs[2], "rs1")
				case "dropped":
					e.cl.DropTable("t")
				}
				e.get("q3") // answered "not serving" by rs2 over the healthy connection; the region is located again
				e.put("x1")
				time.Sleep(5 * time.Second)
				synctest.Wait()
				return time.Time{}
			})
		}
	}
	// ---- A5 (the TLC behaviour of RegionClient.tla "a sender between the done check and registerRPC while fail() runs", through
	// the top-level client): a request has been admitted by its connection and is being serialised when Close is called;
	// Close gets as far as closing the socket (held there), the sender registers its call and writes it on the still open
	// socket, then Close finishes. The call is in flight when Close returns: it returns promptly with the closed error.
	for _, kind := range []string{"get-unbatched", "put-unbatched", "get-batched"} {
		var closeHeld, closeGo chan struct{}
		var holdClose atomic.Bool
		var target atomic.Pointer[verifsim.Conn] // the connection that carries the requests of the region in question
		scenario("A5/sender-admitted-while-Close-is-closing-the-socket/"+kind, map[string]int{"get-batched": 3}[kind]+1, func(e *c19Env, bus *hookBus) {
			closeHeld, closeGo = make(chan struct{}), make(chan struct{}) // (made inside the bubble: waiting on them lets its clock run)
			// (the server takes its time over that request: whoever completes the call, it is not the response)
			e.cl.Rules = append(e.cl.Rules, func(_ *verifsim.Cluster, rs *verifsim.RS, sc *verifsim.ServerConn, req *verifsim.Request, rn []byte) *verifsim.Directive {
				if !verifsim.IsProbe(req) && (string(verifsim.RowOf(req)) == "a2" || req.Method == "Multi") {
					return &verifsim.Directive{Silent: true}
				}
				return nil
			})
			e.cl.ConnHook = func(op verifsim.Op) *verifsim.Fault {
				if op.Kind == verifsim.OpWrite && bytes.Contains(op.Data, []byte("a1")) {
					target.Store(op.Conn)
				}
				if op.Kind == verifsim.OpClose && op.Conn == target.Load() && holdClose.CompareAndSwap(true, false) {
					close(closeHeld)
					<-closeGo
				}
				return nil
			}
		}, func(e *c19Env, bus *hookBus) time.Time {
			e.get("a1")
			time.Sleep(time.Second)
			synctest.Wait()
			serialising, goOn := make(chan struct{}), make(chan struct{})
			gate := func() { close(serialising); <-goOn }
			e.goCall(kind, func() error {
				var err error
				switch kind {
				case "get-unbatched":
					g, _ := hrpc.NewGet(context.Background(), []byte("t"), []byte("a2"), hrpc.SkipBatch())
					_, err = e.c.SendRPC(&c19gatedGet{Get: g, gate: gate})
				case "get-batched":
					g, _ := hrpc.NewGet(context.Background(), []byte("t"), []byte("a2"))
					_, err = e.c.SendRPC(&c19gatedGet{Get: g, gate: gate})
				default:
					p, _ := hrpc.NewPut(context.Background(), []byte("t"), []byte("a2"), map[string]map[string][]byte{"f": {"q": []byte("v")}}, hrpc.SkipBatch())
					_, err = e.c.SendRPC(&c19gatedPut{Mutate: p, gate: gate})
				}
				return err
			})
			select {
			case <-serialising: // past the connection's closed check, not yet registered
			case <-time.After(10 * time.Second):
				rep.bad("harness:c19-a5", "%s: the request never reached the serialisation step", kind)
				e.c.Close()
				return time.Now()
			}
			holdClose.Store(true)
			closed := make(chan struct{})
			go func() { e.c.Close(); close(closed) }()
			select {
			case <-closeHeld:
			case <-closed: // (the connection of a1 was not the first one closed, or nothing was held)
			}
			close(goOn) // the sender registers and writes
			time.Sleep(10 * time.Millisecond)
			close(closeGo)
			<-closed
			return time.Now()
		})
	}

	// ---- A6 (real time: a caller of Close that has to wait waits inside sync.Once, which is no wait a bubble's clock runs
	// under): two overlapping Close calls. The first is held while it closes its first connection; whenever the second one
	// returns, "Close has returned" holds for its caller too: every connection is closed.
	for rep2 := 0; rep2 < 2; rep2++ {
		func() {
			name := fmt.Sprintf("A6/two-overlapping-Close-calls/%d", rep2)
			e := newC19Env(1 + rep2)
			closeHeld, closeGo := make(chan struct{}), make(chan struct{})
			var holdClose atomic.Bool
			e.cl.Lock()
			var cmu sync.Mutex
			conns := map[*verifsim.Conn]bool{} // the client's ends of its connections
			e.cl.ConnHook = func(op verifsim.Op) *verifsim.Fault {
				cmu.Lock()
				conns[op.Conn] = true
				cmu.Unlock()
				if op.Kind == verifsim.OpClose && holdClose.CompareAndSwap(true, false) {
					close(closeHeld)
					<-closeGo
				}
				return nil
			}
			e.cl.Unlock()
			for _, k := range []string{"a1", "h1", "q1"} { // all three regions: connections to ms, rs1, rs2
				g, _ := hrpc.NewGet(context.Background(), []byte("t"), []byte(k))
				e.c.Get(g)
			}
			holdClose.Store(true)
			first := make(chan struct{})
			go func() { e.c.Close(); close(first) }()
			select {
			case <-closeHeld:
			case <-time.After(5 * time.Second):
				rep.bad("harness:c19-a6", "%s: the first Close never reached a connection", name)
				close(closeGo)
				return
			}
			second := make(chan int, 1)
			go func() {
				e.c.Close()
				open := 0
				cmu.Lock()
				for cn := range conns {
					if !cn.IsClosed() {
						open++
					}
				}
				cmu.Unlock()
				second <- open
			}()
			var open, early = 0, false
			select {
			case open = <-second: // it did not wait for the first one
				early = true
			case <-time.After(300 * time.Millisecond):
			}
			close(closeGo)
			<-first
			if !early {
				select {
				case open = <-second:
				case <-time.After(5 * time.Second):
					rep.bad("close-blocked", "%s: the second Close has not returned 5 s after the first one finished", name)
				}
			}
			if open > 0 {
				rep.bad("conn-open-after-close", "%s: a second Close, called while the first was still closing connections, returned while %d connection(s) "+
					"were still open", name, open)
			}
			time.Sleep(100 * time.Millisecond)
			rep.Scenarios++
			rep.Distinct++
		}()
	}

	// ---- A7 (real time): Close while a request is being written to a regionserver that has stopped reading (the write
	// does not return). Closing the socket is what ends such a write: Close must get there - it returns, with the writer
	// still where it was.
	for _, q := range []int{1, 3} {
		func() {
			name := fmt.Sprintf("A7/Close-while-a-write-to-the-server-is-stalled/queue=%d", q)
			e := newC19Env(q)
			hold, parked := make(chan struct{}), make(chan struct{})
			var armed, once atomic.Bool
			e.cl.Lock()
			e.cl.ConnHook = func(op verifsim.Op) *verifsim.Fault {
				if op.Kind == verifsim.OpWrite && armed.Load() && bytes.Contains(op.Data, []byte("a-stalled")) && once.CompareAndSwap(false, true) {
					close(parked)
					<-hold
				}
				return nil
			}
			e.cl.Unlock()
			g, _ := hrpc.NewGet(context.Background(), []byte("t"), []byte("a1"))
			e.c.Get(g)
			armed.Store(true)
			go func() {
				g2, _ := hrpc.NewGet(context.Background(), []byte("t"), []byte("a-stalled"))
				e.c.Get(g2)
			}()
			select {
			case <-parked:
			case <-time.After(5 * time.Second):
				rep.bad("harness:c19-a7", "%s: the request's write was never seen", name)
				close(hold)
				e.c.Close()
				return
			}
			closed := make(chan struct{})
			go func() { e.c.Close(); close(closed) }()
			select {
			case <-closed:
			case <-time.After(3 * time.Second):
				rep.bad("close-blocked", "%s: Close has not returned after 3 s: it waits for a write that only closing the socket can end", name)
			}
			close(hold)
			time.Sleep(200 * time.Millisecond)
			rep.Scenarios++
			rep.Distinct++
		}()
	}

	// ---- B: Close at every hook position
	for _, q := range []int{1, 5} {
		ref := scenario(fmt.Sprintf("B/reference/q=%d", q), q, nil, func(e *c19Env, bus *hookBus) time.Time {
			workload(e)
			time.Sleep(5 * time.Second)
			synctest.Wait()
			return time.Time{}
		})
		rep.Extra[fmt.Sprintf("hook_positions_q%d", q)] = len(ref)
		for k := 1; k <= len(ref); k++ {
			name := fmt.Sprintf("B/q=%d/close-at-hit-%d(%s)", q, k, ref[k-1])
			scenario(name, q, func(e *c19Env, bus *hookBus) { bus.parkAt = k }, parkThenClose)
		}
	}
	// ---- C: random workloads, faults, Close at a random time
	rng := rand.New(rand.NewSource(seed))
	for i := 0; i < nrand; i++ {
		name := fmt.Sprintf("C/%d", i)
		q := 1 + rng.Intn(6)
		at := time.Duration(rng.Intn(40)) * time.Millisecond
		fault := rng.Intn(5)
		scenario(name, q, func(e *c19Env, bus *hookBus) {
			switch fault {
			case 1:
				e.cl.Flap(e.cl.OnlineRegions("t")[rng.Intn(3)], verifsim.ExcNotServing, 2)
			case 2:
				e.cl.Flap(e.cl.OnlineRegions("t")[rng.Intn(3)], verifsim.ExcTooBusy, 3)
			case 3:
				e.cl.Servers["rs1"].RefuseDial = true
			case 4:
				e.cl.MetaMode = "silent"
			}
		}, func(e *c19Env, bus *hookBus) time.Time {
			keys := []string{"a1", "h1", "q1", "b2", "x9"}
			for j := 0; j < 3+rng.Intn(5); j++ {
				switch rng.Intn(5) {
				case 4:
					e.scanRenew()
				case 0:
					e.get(keys[rng.Intn(len(keys))])
				case 1:
					e.put(keys[rng.Intn(len(keys))])
				case 2:
					e.batch(keys[rng.Intn(len(keys))], keys[rng.Intn(len(keys))]+"x")
				case 3:
					e.scan()
				}
				if rng.Intn(2) == 0 {
					time.Sleep(time.Duration(rng.Intn(5)) * time.Millisecond)
				}
			}
			if fault == 3 && rng.Intn(2) == 0 {
				e.cl.ResetConns("rs2")
			}
			time.Sleep(at)
			return time.Time{}
		})
	}
	_ = fmt.Sprint
}

// TestVerifC20: N regions of one regionserver first used by M concurrent callers, discovered in every order, with and
// without connection failures in between: the server is dialled once, a healthy connection is reused for regions
// discovered later, a new connection is opened only after the client declared the previous one dead.
func TestVerifC20(t *testing.T) {
	out := os.Getenv("VERIF_OUT")
	if out == "" {
		t.Skip("VERIF_OUT not set")
	}
	seed, _ := strconv.ParseInt(os.Getenv("VERIF_SEED"), 10, 64)
	nrand, _ := strconv.Atoi(os.Getenv("VERIF_N"))
	ndj, err := verifsim.NewNDJSON(out + "/cc_trace.ndjson")
	if err != nil {
		t.Fatal(err)
	}
	rep := &simReport{Extra: map[string]any{}}
	simOnStall("c20_result.json", rep)
	defer func() {
		rep.Events = ndj.Count()
		ndj.Close()
		simWriteReport("c20_result.json", rep)
	}()
	type params struct {
		name            string
		nreg, m         int
		order           []int // which region each caller touches first
		resets          int   // connection resets injected between waves
		killDuringProbe bool
		endedCtx        int // that many batchable calls whose context has already ended are made on the established regions
		queue           int
		jitter          int64
	}
	run := func(p params) {
		// (half of the runs: a host name as registered by a server whose name has capitals in it - an address is an opaque string)
		rs1 := "rs1"
		if (p.nreg+p.m+p.queue)%2 == 1 {
			rs1 = "RS1.dc.Example"
		}
		verifsim.Bubble(t, func(t *testing.T) {
			tr := &verifsim.Trace{}
			cl := verifsim.NewCluster(tr)
			cl.AddServer("ms")
			cl.AddServer(rs1)
			var splits [][]byte
			for i := 1; i < p.nreg; i++ {
				splits = append(splits, []byte{byte('a' + i)})
			}
			regs := cl.CreateTable("t", splits, []string{rs1})
			var mu sync.Mutex
			var evs []map[string]any
			emit := func(e map[string]any) { mu.Lock(); evs = append(evs, e); mu.Unlock() }
			hostOf := map[string]string{"hbase:meta,,1": "ms"}
			for _, r := range regs {
				hostOf[string(r.Name)] = rs1
			}
			var jr *rand.Rand
			if p.jitter != 0 {
				jr = rand.New(rand.NewSource(p.jitter))
			}
			simSetHook(func(point string, c any, arg any) {
				if point == "clientDown.removed" {
					if r, ok := arg.(hrpc.RegionInfo); ok {
						emit(map[string]any{"ev": "declaredDead", "addr": hostOf[string(r.Name())]})
					}
				}
				if jr != nil && strings.HasPrefix(point, "establish.") {
					mu.Lock()
					d := time.Duration(jr.Intn(300)) * time.Microsecond
					mu.Unlock()
					time.Sleep(d)
				}
			})
			cl.DialHook = func(addr string) { emit(map[string]any{"ev": "dial", "addr": addr}) }
			if p.killDuringProbe {
				var n atomic.Int32 // (a client that holds several connections to the server has the rule run by several goroutines)
				cl.Rules = append(cl.Rules, func(c *verifsim.Cluster, rs *verifsim.RS, sc *verifsim.ServerConn, req *verifsim.Request, name []byte) *verifsim.Directive {
					if rs.Addr == rs1 && verifsim.IsProbe(req) && n.Add(1) == 2 {
						return &verifsim.Directive{Drop: true}
					}
					return nil
				})
			}
			c := newSimClient(cl, RpcQueueSize(p.queue))
			quiesce := func() {
				time.Sleep(200 * time.Millisecond)
				synctest.Wait()
				open := []map[string]any{}
				for _, a := range []string{"ms", rs1} {
					open = append(open, map[string]any{"addr": a, "n": cl.OpenConns(a)})
				}
				emit(map[string]any{"ev": "quiesce", "open": open})
			}
			var wg sync.WaitGroup
			wave := func() {
				for j := 0; j < p.m; j++ {
					ri := p.order[j%len(p.order)] % p.nreg
					key := append([]byte{}, regs[ri].Start...)
					key = append(key, byte('0'+j))
					wg.Add(1)
					go func() {
						defer wg.Done()
						g, _ := hrpc.NewGet(context.Background(), []byte("t"), key)
						if _, err := c.Get(g); err != nil {
							rep.bad("request-failed", "%s: get %q failed: %v", p.name, key, err)
						}
					}()
				}
				wg.Wait()
			}
			wave()
			quiesce()
			if p.endedCtx > 0 {
				// callers that have given up: nothing is wrong with the connection, it stays the one connection of its server
				dead, cancelDead := context.WithCancel(context.Background())
				cancelDead()
				vals := map[string]map[string][]byte{"f": {"q": []byte("v")}}
				for j := 0; j < p.endedCtx; j++ {
					key := append(append([]byte{}, regs[j%p.nreg].Start...), byte('0'+j%10))
					switch j % 3 {
					case 0:
						g, _ := hrpc.NewGet(dead, []byte("t"), key)
						c.Get(g)
					case 1:
						pt, _ := hrpc.NewPut(dead, []byte("t"), key, vals)
						c.Put(pt)
					case 2:
						pt, _ := hrpc.NewPut(dead, []byte("t"), key, vals)
						c.SendBatch(dead, []hrpc.Call{pt})
					}
				}
				quiesce()
				wave()
				quiesce()
			}
			for r := 0; r < p.resets; r++ {
				cl.ResetConns(rs1)
				time.Sleep(10 * time.Millisecond)
				wave()
				quiesce()
			}
			// a region discovered later reuses the healthy connection - also when its probe is first answered "try again later"
			// (the region is still opening, the server is busy): that says nothing against the connection
			if p.nreg > 1 {
				var once atomic.Bool
				class := []string{verifsim.ExcRegionOpening, verifsim.ExcTooBusy, verifsim.ExcQueueTooBig}[(p.m+p.resets)%3]
				cl.Lock()
				cl.Rules = append(cl.Rules, func(c *verifsim.Cluster, rs *verifsim.RS, sc *verifsim.ServerConn, req *verifsim.Request, name []byte) *verifsim.Directive {
					if rs.Addr == rs1 && verifsim.IsProbe(req) && once.CompareAndSwap(false, true) {
						return &verifsim.Directive{Exc: class}
					}
					return nil
				})
				cl.Unlock()
			}
			if p.m%2 == 0 { // the connection has been up (and idle) for longer than any timeout of its dial by then
				time.Sleep(2 * time.Minute)
				synctest.Wait()
			}
			last := regs[p.nreg-1]
			g, _ := hrpc.NewGet(context.Background(), []byte("t"), append(append([]byte{}, last.Start...), 'z'))
			c.Get(g)
			quiesce()
			c.Close()
			emit(map[string]any{"ev": "closeReturned"})
			quiesce()
			time.Sleep(2 * time.Minute)
			synctest.Wait()
			for _, a := range []string{"ms", rs1} { // cut whatever connection was leaked so that the scenario can end
				cl.ResetConns(a)
			}
			time.Sleep(time.Minute)
			synctest.Wait()
			ndj.Write(map[string]any{"ev": "reset", "scenario": p.name})
			for _, e := range evs {
				ndj.Write(e)
			}
			rep.Scenarios++
			rep.Distinct++
			if p.resets == 0 && !p.killDuringProbe {
				if n := cl.DialCount(rs1); n != 1 {
					rep.bad("dials-exceed", "%s: regionserver dialled %d times for %d regions and %d concurrent first users without any failure", p.name, n, p.nreg, p.m)
				}
			}
		})
	}
	// every number of regions 1..4 x callers 1..6 x discovery orders (rotations and reversal)
	for nreg := 1; nreg <= 4; nreg++ {
		for m := 1; m <= 6; m++ {
			orders := [][]int{{0, 1, 2, 3}, {3, 2, 1, 0}, {1, 0, 3, 2}, {0, 0, 1, 1}}
			for oi, o := range orders {
				if nreg == 1 && oi > 0 {
					continue
				}
				for _, resets := range []int{0, 1, 2} {
					run(params{name: fmt.Sprintf("grid/nreg=%d/m=%d/order=%d/resets=%d", nreg, m, oi, resets), nreg: nreg, m: m, order: o, resets: resets, queue: 1 + (m+oi)%3})
				}
				run(params{name: fmt.Sprintf("grid/nreg=%d/m=%d/order=%d/kill-during-probe", nreg, m, oi), nreg: nreg, m: m, order: o, killDuringProbe: true, queue: 2})
			}
		}
	}
	for nreg := 1; nreg <= 3; nreg++ {
		for _, q := range []int{1, 2, 5} {
			run(params{name: fmt.Sprintf("callers-with-ended-contexts/nreg=%d/queue=%d", nreg, q), nreg: nreg, m: 3, order: []int{0, 1, 2, 3}, endedCtx: 120, queue: q})
		}
	}
	// a connection error that is looked at LATE: two regions share connection 1 of rs1; it breaks while a get (region B) and a
	// batch (a put for region A on rs1 and one for a region on rs2, whose answer is held back) are outstanding; the get's
	// caller declares connection 1 dead and both regions move to connection 2; only then the batch looks at the error its put
	// got from connection 1. That is old news about connection 1: connection 2 must stay. (SendBatch waits for its servers in
	// Go map order, so the scenario is repeated: in about half of the runs the held server is waited for first.)
	for rep2 := 0; rep2 < 10; rep2++ {
		name := fmt.Sprintf("stale-error/%d", rep2)
		verifsim.Bubble(t, func(t *testing.T) {
			tr := &verifsim.Trace{}
			cl := verifsim.NewCluster(tr)
			for _, a := range []string{"ms", "rs1", "rs2"} {
				cl.AddServer(a)
			}
			cl.CreateTable("t", [][]byte{[]byte("h"), []byte("p")}, []string{"rs1", "rs1", "rs2"}) // A=[,h) B=[h,p) on rs1; C=[p,) on rs2
			var mu sync.Mutex
			var evs []map[string]any
			emit := func(e map[string]any) { mu.Lock(); evs = append(evs, e); mu.Unlock() }
			simSetHook(func(point string, c any, arg any) {
				if point == "clientDown.removed" {
					if r, ok := arg.(hrpc.RegionInfo); ok {
						addr := "rs1"
						if bytes.HasPrefix(r.Name(), []byte("t,p")) {
							addr = "rs2"
						} else if bytes.HasPrefix(r.Name(), []byte("hbase:meta")) {
							addr = "ms"
						}
						emit(map[string]any{"ev": "declaredDead", "addr": addr})
					}
				}
			})
			cl.DialHook = func(addr string) { emit(map[string]any{"ev": "dial", "addr": addr}) }
			hold := make(chan struct{})
			var armed, held, cut atomic.Bool
			cl.Rules = append(cl.Rules, func(c *verifsim.Cluster, rs *verifsim.RS, sc *verifsim.ServerConn, req *verifsim.Request, name []byte) *verifsim.Directive {
				if verifsim.IsProbe(req) || !armed.Load() {
					return nil
				}
				if rs.Addr == "rs2" && req.Method == "Multi" && held.CompareAndSwap(false, true) {
					return &verifsim.Directive{Hold: hold}
				}
				if rs.Addr == "rs1" && !cut.Load() && (req.Method == "Multi" || string(verifsim.RowOf(req)) == "k-slow") {
					return &verifsim.Directive{Silent: true} // outstanding on connection 1 until it is cut
				}
				return nil
			})
			c := newSimClient(cl, RpcQueueSize(4))
			get := func(k string) error {
				g, _ := hrpc.NewGet(context.Background(), []byte("t"), []byte(k))
				_, err := c.Get(g)
				return err
			}
			quiesce := func() {
				time.Sleep(200 * time.Millisecond)
				synctest.Wait()
				open := []map[string]any{}
				for _, a := range []string{"ms", "rs1", "rs2"} {
					open = append(open, map[string]any{"addr": a, "n": cl.OpenConns(a)})
				}
				emit(map[string]any{"ev": "quiesce", "open": open})
			}
			for _, k := range []string{"a0", "k0", "q0"} { // all three regions known, one connection per server
				if err := get(k); err != nil {
					rep.bad("request-failed", "%s: get %q failed: %v", name, k, err)
				}
			}
			quiesce()
			armed.Store(true)
			var wg sync.WaitGroup
			wg.Add(2)
			go func() {
				defer wg.Done()
				vals := map[string]map[string][]byte{"f": {"q": []byte("v")}}
				p1, _ := hrpc.NewPut(context.Background(), []byte("t"), []byte("a-batch"), vals)
				p2, _ := hrpc.NewPut(context.Background(), []byte("t"), []byte("q-batch"), vals)
				// (the held server's call comes first: SendBatch waits for its servers in the iteration order of a map filled in batch
				// order, which for two entries is the insertion order in 7 of 8 runs)
				if res, ok := c.SendBatch(context.Background(), []hrpc.Call{p2, p1}); !ok {
					rep.bad("request-failed", "%s: the batch failed: %v", name, res)
				}
			}()
			go func() {
				defer wg.Done()
				if err := get("k-slow"); err != nil {
					rep.bad("request-failed", "%s: get k-slow failed: %v", name, err)
				}
			}()
			time.Sleep(50 * time.Millisecond)
			synctest.Wait()
			cut.Store(true)
			cl.ResetConns("rs1") // connection 1 dies: the get's caller notices at once, the batch is still waiting for rs2
			time.Sleep(2 * time.Second)
			synctest.Wait()
			quiesce()   // both regions of rs1 are on connection 2 by now
			close(hold) // rs2 answers: the batch now looks at what connection 1 told it
			wg.Wait()
			quiesce()
			if err := get("a1"); err != nil {
				rep.bad("request-failed", "%s: get a1 failed: %v", name, err)
			}
			quiesce()
			c.Close()
			emit(map[string]any{"ev": "closeReturned"})
			quiesce()
			time.Sleep(2 * time.Minute)
			synctest.Wait()
			for _, a := range []string{"ms", "rs1", "rs2"} {
				cl.ResetConns(a)
			}
			time.Sleep(time.Minute)
			synctest.Wait()
			ndj.Write(map[string]any{"ev": "reset", "scenario": name})
			for _, e := range evs {
				ndj.Write(e)
			}
			rep.Scenarios++
			rep.Distinct++
		})
	}
	// a server whose only known region has gone (its table was dropped) keeps a healthy connection without regions; then the
	// connection of ANOTHER server fails; then a region of the first server is discovered: its connection is still the one
	// connection of that server
	for rep2 := 0; rep2 < 2; rep2++ {
		name := fmt.Sprintf("server-without-regions-while-another-server-fails/%d", rep2)
		verifsim.Bubble(t, func(t *testing.T) {
			tr := &verifsim.Trace{}
			cl := verifsim.NewCluster(tr)
			for _, a := range []string{"ms", "rs1", "rs2"} {
				cl.AddServer(a)
			}
			cl.CreateTable("t1", nil, []string{"rs1"})
			cl.CreateTable("t2", nil, []string{"rs2"})
			cl.CreateTable("t3", nil, []string{"rs1"})
			var mu sync.Mutex
			var evs []map[string]any
			emit := func(e map[string]any) { mu.Lock(); evs = append(evs, e); mu.Unlock() }
			simSetHook(func(point string, c any, arg any) {
				if point == "clientDown.removed" {
					if r, ok := arg.(hrpc.RegionInfo); ok {
						addr := "rs1"
						if bytes.HasPrefix(r.Name(), []byte("t2,")) {
							addr = "rs2"
						} else if bytes.HasPrefix(r.Name(), []byte("hbase:meta")) {
							addr = "ms"
						}
						emit(map[string]any{"ev": "declaredDead", "addr": addr})
					}
				}
			})
			cl.DialHook = func(addr string) { emit(map[string]any{"ev": "dial", "addr": addr}) }
			c := newSimClient(cl, RpcQueueSize(1+rep2*3))
			get := func(table, k string) error {
				ctx, cancel := context.WithTimeout(context.Background(), time.Minute)
				defer cancel()
				g, _ := hrpc.NewGet(ctx, []byte(table), []byte(k))
				_, err := c.Get(g)
				return err
			}
			quiesce := func() {
				time.Sleep(200 * time.Millisecond)
				synctest.Wait()
				open := []map[string]any{}
				for _, a := range []string{"ms", "rs1", "rs2"} {
					open = append(open, map[string]any{"addr": a, "n": cl.OpenConns(a)})
				}
				emit(map[string]any{"ev": "quiesce", "open": open})
			}
			for _, tb := range []string{"t1", "t2"} {
				if err := get(tb, "k"); err != nil {
					rep.bad("request-failed", "%s: get on %s failed: %v", name, tb, err)
				}
			}
			quiesce()
			cl.DropTable("t1")
			get("t1", "k") // not serving, looked up again: the table is gone - rs1's connection has no region left
			quiesce()
			cl.ResetConns("rs2")
			time.Sleep(10 * time.Millisecond)
			if err := get("t2", "k"); err != nil { // rs2's connection is declared dead and replaced
				rep.bad("request-failed", "%s: get on t2 after the reset failed: %v", name, err)
			}
			quiesce()
			if err := get("t3", "k"); err != nil { // a region of rs1 discovered later
				rep.bad("request-failed", "%s: get on t3 failed: %v", name, err)
			}
			quiesce()
			if n := cl.DialCount("rs1"); n != 1 {
				rep.bad("dials-exceed", "%s: rs1 was dialled %d times although its connection never failed", name, n)
			}
			c.Close()
			emit(map[string]any{"ev": "closeReturned"})
			quiesce()
			time.Sleep(2 * time.Minute)
			synctest.Wait()
			for _, a := range []string{"ms", "rs1", "rs2"} {
				cl.ResetConns(a)
			}
			time.Sleep(time.Minute)
			synctest.Wait()
			simSetHook(nil)
			ndj.Write(map[string]any{"ev": "reset", "scenario": name})
			for _, e := range evs {
				ndj.Write(e)
			}
			rep.Scenarios++
			rep.Distinct++
		})
	}
	// a regionserver that is going away says so inside a multi response (for a whole region, or for one action): the client
	// gives that connection up - really gives it up: it is closed before (or when) a new one is opened, regions that were
	// using it do not stay on it
	for _, level := range []string{"region", "action"} {
		for rep2 := 0; rep2 < 2; rep2++ {
			name := fmt.Sprintf("server-stopping-inside-a-multi/%s/%d", level, rep2)
			verifsim.Bubble(t, func(t *testing.T) {
				tr := &verifsim.Trace{}
				cl := verifsim.NewCluster(tr)
				for _, a := range []string{"ms", "rs1"} {
					cl.AddServer(a)
				}
				regs := cl.CreateTable("t", [][]byte{[]byte("h")}, []string{"rs1", "rs1"})
				var mu sync.Mutex
				var evs []map[string]any
				emit := func(e map[string]any) { mu.Lock(); evs = append(evs, e); mu.Unlock() }
				simSetHook(func(point string, c any, arg any) {
					if point == "clientDown.removed" {
						if r, ok := arg.(hrpc.RegionInfo); ok {
							addr := "rs1"
							if bytes.HasPrefix(r.Name(), []byte("hbase:meta")) {
								addr = "ms"
							}
							emit(map[string]any{"ev": "declaredDead", "addr": addr})
						}
					}
				})
				cl.DialHook = func(addr string) { emit(map[string]any{"ev": "dial", "addr": addr}) }
				c := newSimClient(cl, RpcQueueSize(4))
				get := func(k string) {
					g, _ := hrpc.NewGet(context.Background(), []byte("t"), []byte(k))
					if _, err := c.Get(g); err != nil {
						rep.bad("request-failed", "%s: get %q failed: %v", name, k, err)
					}
				}
				quiesce := func() {
					time.Sleep(200 * time.Millisecond)
					synctest.Wait()
					open := []map[string]any{}
					for _, a := range []string{"ms", "rs1"} {
						open = append(open, map[string]any{"addr": a, "n": cl.OpenConns(a)})
					}
					emit(map[string]any{"ev": "quiesce", "open": open})
				}
				get("a0")
				get("k0")
				quiesce()
				if level == "region" {
					cl.Flap(regs[0], verifsim.ExcStopped, 1) // the next multi that names region A gets a region-level exception
				} else {
					var once atomic.Bool
					cl.ActionHook = func(rs *verifsim.RS, r *verifsim.Region, op string, row []byte) string {
						if string(row) == "a1" && once.CompareAndSwap(false, true) {
							return verifsim.ExcStopped
						}
						return ""
					}
				}
				var wg sync.WaitGroup
				for _, k := range []string{"a1", "k1", "a2", "k2"} {
					wg.Add(1)
					go func() { defer wg.Done(); get(k) }()
				}
				wg.Wait()
				quiesce()
				get("a3")
				get("k3")
				quiesce()
				c.Close()
				emit(map[string]any{"ev": "closeReturned"})
				quiesce()
				time.Sleep(2 * time.Minute)
				synctest.Wait()
				for _, a := range []string{"ms", "rs1"} {
					cl.ResetConns(a)
				}
				time.Sleep(time.Minute)
				synctest.Wait()
				ndj.Write(map[string]any{"ev": "reset", "scenario": name})
				for _, e := range evs {
					ndj.Write(e)
				}
				rep.Scenarios++
				rep.Distinct++
			})
		}
	}
	// the only region a server hosts is replaced (split, merge back) and its successors live at the same address: the
	// healthy connection must be reused, not forgotten
	for _, variant := range []string{"split", "split-then-merge", "move-away-and-back"} {
		for _, queue := range []int{1, 3} {
			name := fmt.Sprintf("replace/%s/q=%d", variant, queue)
			verifsim.Bubble(t, func(t *testing.T) {
				tr := &verifsim.Trace{}
				cl := verifsim.NewCluster(tr)
				cl.AddServer("ms")
				cl.AddServer("rs1")
				cl.AddServer("rs2")
				regs := cl.CreateTable("t", nil, []string{"rs1"})
				var mu sync.Mutex
				var evs []map[string]any
				emit := func(e map[string]any) { mu.Lock(); evs = append(evs, e); mu.Unlock() }
				host := func(name string) string {
					if name == "hbase:meta,,1" {
						return "ms"
					}
					for _, r := range cl.OnlineRegions("t") {
						if string(r.Name) == name {
							return r.Host
						}
					}
					return "rs1"
				}
				simSetHook(func(point string, c any, arg any) {
					if point == "clientDown.removed" {
						if r, ok := arg.(hrpc.RegionInfo); ok {
							emit(map[string]any{"ev": "declaredDead", "addr": host(string(r.Name()))})
						}
					}
				})
				cl.DialHook = func(addr string) { emit(map[string]any{"ev": "dial", "addr": addr}) }
				c := newSimClient(cl, RpcQueueSize(queue))
				get := func(k string) {
					g, _ := hrpc.NewGet(context.Background(), []byte("t"), []byte(k))
					if _, err := c.Get(g); err != nil {
						rep.bad("request-failed", "%s: get %q failed: %v", name, k, err)
					}
				}
				quiesce := func() {
					time.Sleep(200 * time.Millisecond)
					synctest.Wait()
					open := []map[string]any{}
					for _, a := range []string{"ms", "rs1", "rs2"} {
						open = append(open, map[string]any{"addr": a, "n": cl.OpenConns(a)})
					}
					emit(map[string]any{"ev": "quiesce", "open": open})
				}
				get("a")
				quiesce()
				switch variant {
				case "split", "split-then-merge":
					a, b := cl.Split(regs[0], []byte("m"), "rs1", "rs1")
					get("b")
					get("x")
					quiesce()
					if variant == "split-then-merge" {
						cl.Merge(a, b, "rs1")
						get("c")
						get("y")
						quiesce()
					}
				case "move-away-and-back":
					cl.Move(regs[0], "rs2")
					get("b")
					quiesce()
					cl.Move(regs[0], "rs1")
					get("c")
					quiesce()
				}
				c.Close()
				emit(map[string]any{"ev": "closeReturned"})
				quiesce()
				time.Sleep(2 * time.Minute)
				synctest.Wait()
				for _, a := range []string{"ms", "rs1", "rs2"} { // cut whatever connection was leaked so that the scenario can end
					cl.ResetConns(a)
				}
				time.Sleep(time.Minute)
				synctest.Wait()
				ndj.Write(map[string]any{"ev": "reset", "scenario": name})
				for _, e := range evs {
					ndj.Write(e)
				}
				rep.Scenarios++
				rep.Distinct++
			})
		}
	}
	rng := rand.New(rand.NewSource(seed))
	for k := 0; k < nrand; k++ {
		o := rng.Perm(4)
		run(params{name: fmt.Sprintf("random/%d", k), nreg: 1 + rng.Intn(4), m: 1 + rng.Intn(12), order: o, resets: rng.Intn(3),
			killDuringProbe: rng.Intn(3) == 0, queue: 1 + rng.Intn(5), jitter: rng.Int63() | 1})
	}
}
