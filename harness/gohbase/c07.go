package gohbase

// C07 / C12 driver: TLC-generated SendBatch scenarios (Gen_SendBatch) are
// executed against the real SendBatch with the simulated cluster producing
// the scripted per-call outcomes; the returned (results, allOK) are compared
// field by field with what the specification computed, and the multi
// requests the servers received are checked for per-region batch order and
// for re-execution.

import (
	"bytes"
	"context"
	"errors"
	"fmt"
	"os"
	"runtime"
	"sort"
	"strconv"
	"strings"
	"sync"
	"sync/atomic"
	"testing"
	"testing/synctest"
	"time"

	"github.com/tsuna/gohbase/hrpc"
	"github.com/tsuna/gohbase/internal/verifsim"
	"github.com/tsuna/gohbase/pb"
	"github.com/tsuna/gohbase/region"
)

type sbScript struct {
	Scr struct {
		Srv    []string   `json:"srv"`
		Out    [][]string `json:"out"`
		Reloc  []string   `json:"reloc"`
		Own    []int      `json:"own"`
		Cancel struct {
			At    string   `json:"at"`
			Round int      `json:"round"`
			Held  []string `json:"held"`
		} `json:"cancel"`
	} `json:"scr"`
	Kinds    []string `json:"kinds"`
	AllOK    bool     `json:"allOK"`
	Returned bool     `json:"returned"`
	Hung     bool     `json:"hung"`
	Sent     []struct {
		Round int   `json:"round"`
		Calls []int `json:"calls"`
	} `json:"sent"`
}

func sbKind(r hrpc.RPCResult) string {
	switch e := r.Error.(type) {
	case nil:
		if r.Msg == nil {
			return "ok-without-response"
		}
		return "ok"
	case region.RetryableError:
		return "later"
	case region.NotServingRegionError:
		return "nsr"
	case region.ServerError:
		return "dead"
	default:
		switch {
		case errors.Is(e, context.Canceled):
			return "ctx"
		case e == TableNotFound:
			return "tnf"
		case e == NotExecutedError:
			return "notexecuted"
		case strings.Contains(e.Error(), "DoNotRetryIOException"):
			return "fatal"
		}
		return "other:" + e.Error()
	}
}

type sbResult struct {
	kinds    []string
	allOK    bool
	returned bool
	multis   [][]string // per multi received: "region|row" in order
	execs    map[string]int
}

func runSendBatch(s sbScript, variant int, compress bool) sbResult {
	n := len(s.Scr.Srv)
	tr := &verifsim.Trace{}
	cl := verifsim.NewCluster(tr)
	cl.AddServer("ms:1") // hbase:meta lives apart from the faults
	cl.AddServer("s1")
	cl.AddServer("s2")
	cl.CreateTable("t", [][]byte{[]byte("m")}, []string{"s1", "s2"})
	copts := []Option{RpcQueueSize(10), FlushInterval(time.Millisecond)}
	if compress {
		copts = append(copts, CompressionCodec("snappy"))
	}
	c := newSimClient(cl, copts...)
	for _, k := range []string{"a0", "n0"} { // establish both regions
		g, _ := hrpc.NewGet(context.Background(), []byte("t"), []byte(k))
		c.Get(g)
	}
	rowOf := func(i int) string { // call i (1-based)
		if s.Scr.Srv[i-1] == "s1" {
			return fmt.Sprintf("a%d", i)
		}
		return fmt.Sprintf("n%d", i)
	}
	callOf := map[string]int{}
	for i := 1; i <= n; i++ {
		callOf[rowOf(i)] = i
	}
	var mu sync.Mutex
	attempt := map[string]int{}
	roundDone := map[int]int{} // round -> number of calls attempted in it
	holdCh := make(chan struct{})
	cl.ActionHook = func(rs *verifsim.RS, r *verifsim.Region, op string, row []byte) string {
		ci, ok := callOf[string(row)]
		if !ok {
			return ""
		}
		mu.Lock()
		defer mu.Unlock()
		attempt[string(row)]++
		a := attempt[string(row)]
		roundDone[a]++
		o := "ok"
		if a <= len(s.Scr.Out[ci-1]) {
			o = s.Scr.Out[ci-1][a-1]
		}
		// what re-locating will meet before the next round
		if (o == "nsr" || o == "dead" || o == "stopped") && a+1 >= 2 && a+1 <= 3 {
			switch s.Scr.Reloc[a+1-2] {
			case "tnf":
				cl.MetaMode = "empty"
			case "hang":
				cl.MetaMode = "silent"
			}
		}
		switch o {
		case "fatal":
			return verifsim.ExcDoNotRetry
		case "later":
			return verifsim.ExcTooBusy
		case "nsr":
			return verifsim.ExcNotServing
		case "dead":
			return "DROP"
		case "stopped":
			return verifsim.ExcStopped
		}
		return ""
	}
	held := map[string]bool{}
	for _, h := range s.Scr.Cancel.Held {
		held[h] = true
	}
	cl.Rules = append(cl.Rules, func(cc *verifsim.Cluster, rs *verifsim.RS, sc *verifsim.ServerConn, req *verifsim.Request, name []byte) *verifsim.Directive {
		if req.Method != "Multi" || s.Scr.Cancel.At != "wait" || !held[rs.Addr] {
			return nil
		}
		// which round is this multi? the attempt number its first action is about to make
		rows := multiRows(req)
		mu.Lock()
		defer mu.Unlock()
		for _, r := range rows {
			if _, ok := callOf[r]; ok && attempt[r]+1 == s.Scr.Cancel.Round {
				return &verifsim.Directive{Hold: holdCh}
			}
		}
		return nil
	})
	ctx, cancel := context.WithCancel(context.Background())
	defer cancel()
	own := map[int]bool{}
	for _, i := range s.Scr.Own {
		own[i] = true
	}
	batch := make([]hrpc.Call, n)
	for i := 1; i <= n; i++ {
		cctx := ctx
		if own[i] {
			oc, ocancel := context.WithCancel(context.Background())
			ocancel()
			cctx = oc
		}
		if variant == 2 || i%2 == variant {
			// every second call (the even ones, the odd ones, or all of them: it varies with the scenario) reads a row that
			// exists: its result carries cells (in the response's cellblock, after the results of the calls before it), and
			// they must still be ITS cells when SendBatch returns, whatever was received on the connection afterwards
			row := []byte(rowOf(i))
			cl.PutRow("t", row, []verifsim.KV{{Row: row, Family: []byte("f"), Qualifier: []byte("q"), Timestamp: 1, Type: 4, Value: []byte("stored")}})
			// (a read may carry a priority for the server's scheduler - the later the call, the higher here; the order of the
			// calls within the batch is not the scheduler's business)
			g, err := hrpc.NewGet(cctx, []byte("t"), row, hrpc.Priority(uint32(10*(i-1))))
			if err != nil {
				panic(err)
			}
			batch[i-1] = g
			continue
		}
		p, err := hrpc.NewPut(cctx, []byte("t"), []byte(rowOf(i)), map[string]map[string][]byte{"f": {"q": []byte("v")}})
		if err != nil {
			panic(err)
		}
		batch[i-1] = p
	}
	var res []hrpc.RPCResult
	var allOK bool
	done := make(chan struct{})
	go func() {
		res, allOK = c.SendBatch(ctx, batch)
		close(done)
	}()
	isDone := func() bool {
		select {
		case <-done:
			return true
		default:
			return false
		}
	}
	sentIn := func(i, r int) bool { // call i is sent in round r according to the script
		for q := 1; q < r; q++ {
			o := s.Scr.Out[i-1][q-1]
			if o != "later" && o != "nsr" && o != "dead" && o != "stopped" {
				return false
			}
		}
		return !own[i]
	}
	countSent := func(r int) (cnt int, later bool) {
		for i := 1; i <= n; i++ {
			if sentIn(i, r) {
				cnt++
				if s.Scr.Out[i-1][r-1] == "later" {
					later = true
				}
			}
		}
		return
	}
	cancelled := false
	for step := 0; step < 4000 && !isDone(); step++ {
		time.Sleep(time.Millisecond)
		synctest.Wait()
		if cancelled {
			continue
		}
		switch s.Scr.Cancel.At {
		case "wait":
			// cancel once everything that is not held in that round has been answered
			mu.Lock()
			r := s.Scr.Cancel.Round
			want := 0
			for i := 1; i <= n; i++ {
				if sentIn(i, r) && !held[s.Scr.Srv[i-1]] {
					want++
				}
			}
			prevOK := r == 1 || roundDone[r-1] > 0 || true
			ready := roundDone[r] >= want && prevOK && step >= 3
			mu.Unlock()
			// the held multis must have arrived too: give the flush timer and (in later rounds) the back-off their time
			if ready && sbHeldArrived(tr, len(s.Scr.Cancel.Held), s, sentIn) {
				time.Sleep(3 * time.Millisecond)
				synctest.Wait()
				cancel()
				cancelled = true
			}
		case "backoff":
			mu.Lock()
			cnt, later := countSent(s.Scr.Cancel.Round)
			ready := roundDone[s.Scr.Cancel.Round] >= cnt && cnt > 0
			mu.Unlock()
			if ready && later {
				time.Sleep(5 * time.Millisecond) // inside the 16ms * 2^(r-1) sleep
				synctest.Wait()
				cancel()
				cancelled = true
			}
		case "find":
			mu.Lock()
			cnt, _ := countSent(s.Scr.Cancel.Round - 1)
			ready := roundDone[s.Scr.Cancel.Round-1] >= cnt && cnt > 0
			mu.Unlock()
			if ready {
				time.Sleep(200 * time.Millisecond) // the caller is now waiting for regions that do not come back
				synctest.Wait()
				cancel()
				cancelled = true
			}
		}
	}
	out := sbResult{returned: isDone(), execs: map[string]int{}}
	if !out.returned {
		// blocked for good: let three virtual minutes pass to be sure, then unblock it for the tear-down
		time.Sleep(3 * time.Minute)
		synctest.Wait()
		out.returned = isDone()
		cancel()
		time.Sleep(time.Second)
		synctest.Wait()
	}
	if isDone() {
		out.allOK = allOK
		for i, r := range res {
			k := sbKind(r)
			// "the i-th result describes the i-th call and nothing else": a successful Get carries the cell of ITS row
			if g, isGet := batch[i].(*hrpc.Get); isGet && k == "ok" {
				gr, ok := r.Msg.(*pb.GetResponse)
				var rr *hrpc.Result
				if ok {
					rr = hrpc.ToLocalResult(gr.GetResult())
				}
				if rr == nil || len(rr.Cells) != 1 || !bytes.Equal(rr.Cells[0].Row, g.Key()) || string(rr.Cells[0].Value) != "stored" {
					k = fmt.Sprintf("ok-with-foreign-content(%v)", r.Msg)
				}
			}
			out.kinds = append(out.kinds, k)
		}
	}
	close(holdCh)
	cl.Lock()
	cl.MetaMode = ""
	cl.Unlock()
	time.Sleep(100 * time.Millisecond)
	synctest.Wait()
	if !isDone() { // a call dropped by the connection keeps SendBatch blocked even after cancellation? then close the client
		c.Close()
		time.Sleep(time.Second)
		synctest.Wait()
	}
	for _, e := range tr.Events() {
		switch e["ev"] {
		case "multi":
			var m []string
			for _, ra := range e["regions"].([]map[string]any) {
				for _, a := range ra["actions"].([]string) {
					m = append(m, ra["region"].(string)+"|"+strings.TrimPrefix(a, "mut:"))
				}
			}
			out.multis = append(out.multis, m)
		case "exec":
			rb := e["row"].([]int)
			b := make([]byte, len(rb))
			for i, x := range rb {
				b[i] = byte(x)
			}
			if _, isCall := callOf[string(b)]; isCall { // (successful executions of the batch's calls: puts and gets)
				out.execs[string(b)]++
			}
		}
	}
	c.Close()
	time.Sleep(time.Second)
	synctest.Wait()
	return out
}

// sbSlowResult is a Put whose result channel is handed out slowly to the region client's delivering goroutine: the result
// reaches the call a moment after the results of its neighbours in the same multi response.
type sbSlowResult struct {
	*hrpc.Mutate
	delay time.Duration
}

func (p *sbSlowResult) ResultChan() chan hrpc.RPCResult {
	pcs := make([]uintptr, 16)
	frames := runtime.CallersFrames(pcs[:runtime.Callers(2, pcs)])
	for {
		f, more := frames.Next()
		if strings.Contains(f.Function, "gohbase/region.") && strings.Contains(f.Function, "eturnResult") {
			time.Sleep(p.delay)
			break
		}
		if !more {
			break
		}
	}
	return p.Mutate.ResultChan()
}

func multiRows(req *verifsim.Request) []string {
	var rows []string
	mr, ok := req.Param.(*pb.MultiRequest)
	if !ok {
		return rows
	}
	for _, ra := range mr.GetRegionAction() {
		for _, a := range ra.GetAction() {
			if a.Get != nil {
				rows = append(rows, string(a.Get.GetRow()))
			} else if a.Mutation != nil {
				rows = append(rows, string(a.Mutation.GetRow()))
			}
		}
	}
	return rows
}

// sbHeldArrived: have the multis that are to be held reached their servers (they show as "req" without "resp")?
func sbHeldArrived(tr *verifsim.Trace, nheld int, s sbScript, sentIn func(i, r int) bool) bool {
	need := map[string]bool{}
	for i := range s.Scr.Srv {
		for _, h := range s.Scr.Cancel.Held {
			if s.Scr.Srv[i] == h && sentIn(i+1, s.Scr.Cancel.Round) {
				need[h] = true
			}
		}
	}
	pending := map[string]int{}
	for _, e := range tr.Events() {
		if e["ev"] == "req" && e["method"] == "Multi" {
			pending[e["addr"].(string)]++
		}
		if e["ev"] == "multi" {
			pending[e["addr"].(string)]--
		}
	}
	for h := range need {
		if pending[h] <= 0 {
			return false
		}
	}
	return true
}

func TestVerifSendBatch(t *testing.T) {
	in, out := os.Getenv("VERIF_IN"), os.Getenv("VERIF_OUT")
	if in == "" || out == "" {
		t.Skip("VERIF_IN / VERIF_OUT not set")
	}
	seed, _ := strconv.ParseInt(os.Getenv("VERIF_SEED"), 10, 64)
	limit, _ := strconv.Atoi(os.Getenv("VERIF_N"))
	scripts, err := c08readNDJSON[sbScript](in + "/sb_scripts.ndjson")
	if err != nil {
		t.Fatal(err)
	}
	rep := &simReport{Extra: map[string]any{}}
	simOnStall("sb_result.json", rep)
	defer simWriteReport("sb_result.json", rep)
	// the core of the scope - every combination of per-call outcomes and servers without cancellation, re-location failure or
	// a call context of its own - is always run completely; the rest is sampled with a seeded stride
	var core, rest []int
	for idx, s := range scripts {
		if s.Scr.Cancel.At == "never" && s.Scr.Reloc[0] == "ok" && s.Scr.Reloc[1] == "ok" && len(s.Scr.Own) == 0 && len(s.Scr.Srv) <= 2 {
			core = append(core, idx)
		} else {
			rest = append(rest, idx)
		}
	}
	stride := 1
	if limit > 0 && len(rest) > limit {
		stride = len(rest) / limit
	}
	off := int(seed) % stride
	// a core scenario runs twice: plain with every second call a Get of an existing row, and over compressed cellblocks with
	// every call such a Get; the others alternate
	type sbRun struct {
		idx, variant int
		compress     bool
	}
	var order []sbRun
	for _, idx := range core {
		order = append(order, sbRun{idx, idx % 2, false}, sbRun{idx, 2, true})
	}
	for k := off; k < len(rest); k += stride {
		order = append(order, sbRun{rest[k], rest[k] % 3, (rest[k]/3)%2 == 1})
	}
	rep.Extra["core_scenarios"] = len(core)
	ran := 0
	for _, run := range order {
		idx := run.idx
		s := scripts[idx]
		var r sbResult
		verifsim.Bubble(t, func(t *testing.T) { r = runSendBatch(s, run.variant, run.compress) })
		ran++
		desc := fmt.Sprintf("srv=%v out=%v reloc=%v ownCtx=%v cancel=%+v gets=%d snappy=%v", s.Scr.Srv, s.Scr.Out, s.Scr.Reloc, s.Scr.Own, s.Scr.Cancel, run.variant, run.compress)
		switch {
		case s.Hung && r.returned:
			// the model says "waits for a region that never comes back"; returning would be wrong only if results were invented
		case !s.Hung && !r.returned:
			sig := "batch-never-returns"
			if len(s.Scr.Own) > 0 {
				sig = "batch-never-returns:call-context-ended"
			}
			rep.bad(sig, "SendBatch did not return (3 virtual minutes) for %s; the specification expects %v allOK=%v", desc, s.Kinds, s.AllOK)
		case !s.Hung:
			want := append([]string{}, s.Kinds...)
			for i := range want {
				if want[i] == "ownctx" { // the call's own context error: context.Canceled as well
					want[i] = "ctx"
				}
			}
			if fmt.Sprint(r.kinds) != fmt.Sprint(want) {
				sig := "batch-results-differ"
				if s.Scr.Cancel.At == "find" || s.Scr.Reloc[0] != "ok" || s.Scr.Reloc[1] != "ok" {
					sig = "batch-results-differ:relocation-error"
				}
				rep.bad(sig, "SendBatch returned %v for %s; the specification says %v", r.kinds, desc, s.Kinds)
			}
			if r.allOK != s.AllOK {
				rep.bad("batch-allok-differs", "SendBatch returned allOK=%v with results %v for %s; the specification says %v", r.allOK, r.kinds, desc, s.AllOK)
			}
			noErr := true
			for _, k := range r.kinds {
				if k != "ok" {
					noErr = false
				}
			}
			if r.allOK != noErr {
				rep.bad("batch-allok-inconsistent", "allOK=%v but results %v for %s", r.allOK, r.kinds, desc)
			}
		}
		// C12, server side: per-region order inside every multi; nothing executed twice
		for _, m := range r.multis {
			last := map[string]string{}
			for _, x := range m {
				parts := strings.SplitN(x, "|", 2)
				if prev, ok := last[parts[0]]; ok && prev[1:] > parts[1][1:] && len(prev) == len(parts[1]) {
					rep.bad("batch-region-order", "multi %v presents calls of region %s out of batch order for %s", m, parts[0], desc)
				}
				last[parts[0]] = parts[1]
			}
		}
		for row, cnt := range r.execs {
			if cnt > 1 {
				rep.bad("batch-call-executed-twice", "row %s was executed %d times for %s", row, cnt, desc)
			}
		}
		if ran <= 3 {
			rep.Samples = append(rep.Samples, map[string]any{"scenario": desc, "expected": s.Kinds, "got": r.kinds, "allOK": r.allOK})
		}
	}
	// ---- two regions of ONE server in one multi, one of them answered with a region-level exception: only that region's
	// calls fail (or are retried); the other region's calls keep their own answers and are not executed again
	for _, class := range []string{verifsim.ExcNotServing, verifsim.ExcDoNotRetry, verifsim.ExcRegionMoved} {
		for rep2 := 0; rep2 < 4; rep2++ {
			name := fmt.Sprintf("same-server/region-exception=%s/%d", class[strings.LastIndex(class, ".")+1:], rep2)
			var kinds []string
			var allOK bool
			execs := map[string]int{}
			verifsim.Bubble(t, func(t *testing.T) {
				tr := &verifsim.Trace{}
				cl := verifsim.NewCluster(tr)
				cl.AddServer("ms:1")
				cl.AddServer("s1")
				regs := cl.CreateTable("t", [][]byte{[]byte("m")}, []string{"s1", "s1"})
				for _, k := range []string{"a1", "n2"} {
					cl.PutRow("t", []byte(k), []verifsim.KV{{Row: []byte(k), Family: []byte("f"), Qualifier: []byte("q"), Timestamp: 1, Type: 4, Value: []byte("stored")}})
				}
				c := newSimClient(cl, RpcQueueSize(10), FlushInterval(time.Millisecond))
				for _, k := range []string{"a0", "n0"} {
					g, _ := hrpc.NewGet(context.Background(), []byte("t"), []byte(k))
					c.Get(g)
				}
				synctest.Wait()
				cl.Flap(regs[rep2%2], class, 1)
				vals := map[string]map[string][]byte{"f": {"q": []byte("v")}}
				g1, _ := hrpc.NewGet(context.Background(), []byte("t"), []byte("a1"))
				p1, _ := hrpc.NewPut(context.Background(), []byte("t"), []byte("n1"), vals)
				p2, _ := hrpc.NewPut(context.Background(), []byte("t"), []byte("a2"), vals)
				g2, _ := hrpc.NewGet(context.Background(), []byte("t"), []byte("n2"))
				batch := []hrpc.Call{g1, p1, p2, g2}
				res, ok := c.SendBatch(context.Background(), batch)
				synctest.Wait()
				allOK = ok
				for i, r := range res {
					k := sbKind(r)
					if g, isGet := batch[i].(*hrpc.Get); isGet && k == "ok" {
						gr, _ := r.Msg.(*pb.GetResponse)
						if rr := hrpc.ToLocalResult(gr.GetResult()); rr == nil || len(rr.Cells) != 1 || !bytes.Equal(rr.Cells[0].Row, g.Key()) {
							k = "ok-with-foreign-content"
						}
					}
					kinds = append(kinds, k)
				}
				cl.Lock()
				for _, e := range cl.Execs {
					if e.Row == "n1" || e.Row == "a2" {
						execs[e.Row]++
					}
				}
				cl.Unlock()
				c.Close()
				time.Sleep(time.Minute)
				synctest.Wait()
			})
			flapped := "an"[rep2%2]
			var want []string
			for _, row := range []string{"a1", "n1", "a2", "n2"} {
				if class == verifsim.ExcDoNotRetry && row[0] == flapped {
					want = append(want, "fatal")
				} else {
					want = append(want, "ok")
				}
			}
			ran++
			if fmt.Sprint(kinds) != fmt.Sprint(want) {
				rep.bad("batch-results-differ", "%s: SendBatch returned %v for [get a1, put n1, put a2, get n2] with region %c answered %s once; every call's own outcome is %v",
					name, kinds, flapped, class, want)
			}
			if allOK != (class != verifsim.ExcDoNotRetry) {
				rep.bad("batch-allok-differs", "%s: allOK=%v with results %v", name, allOK, kinds)
			}
			for row, n := range execs {
				if n > 1 {
					rep.bad("batch-call-executed-twice", "%s: row %s was executed %d times", name, row, n)
				}
			}
		}
	}
	// ---- one action of a multi is answered "server stopping" (a connection-level outcome for that call) while the results
	// of the other actions of the same multi are still being handed to their calls, one by one, by the connection's reader:
	// SendBatch has to WAIT for them - a call whose success is on its way is not sent again
	for _, pos := range []int{0, 1} {
		for rep2 := 0; rep2 < 2; rep2++ {
			name := fmt.Sprintf("server-stopping-for-action-%d-while-the-other-results-are-on-their-way/%d", pos, rep2)
			execs := map[string]int{}
			var kinds []string
			verifsim.Bubble(t, func(t *testing.T) {
				tr := &verifsim.Trace{}
				cl := verifsim.NewCluster(tr)
				cl.AddServer("ms:1")
				cl.AddServer("s1")
				cl.CreateTable("t", nil, []string{"s1"})
				c := newSimClient(cl, RpcQueueSize(10), FlushInterval(time.Millisecond))
				g, _ := hrpc.NewGet(context.Background(), []byte("t"), []byte("a0"))
				c.Get(g)
				synctest.Wait()
				var once atomic.Bool
				stopRow := fmt.Sprintf("r%d", pos)
				cl.ActionHook = func(rs *verifsim.RS, r *verifsim.Region, op string, row []byte) string {
					if string(row) == stopRow && once.CompareAndSwap(false, true) {
						return verifsim.ExcStopped
					}
					return ""
				}
				vals := map[string]map[string][]byte{"f": {"q": []byte("v")}}
				var batch []hrpc.Call
				for i := 0; i < 3; i++ {
					p, _ := hrpc.NewPut(context.Background(), []byte("t"), []byte(fmt.Sprintf("r%d", i)), vals)
					if i != pos { // its result reaches the call a little later than its neighbours'
						batch = append(batch, &sbSlowResult{Mutate: p, delay: time.Duration(1+rep2*3) * time.Millisecond})
					} else {
						batch = append(batch, p)
					}
				}
				res, _ := c.SendBatch(context.Background(), batch)
				synctest.Wait()
				for _, r := range res {
					kinds = append(kinds, sbKind(r))
				}
				cl.Lock()
				for _, e := range cl.Execs {
					if strings.HasPrefix(e.Row, "r") {
						execs[e.Row]++
					}
				}
				cl.Unlock()
				c.Close()
				time.Sleep(time.Minute)
				synctest.Wait()
			})
			ran++
			if fmt.Sprint(kinds) != "[ok ok ok]" {
				rep.bad("batch-results-differ", "%s: SendBatch returned %v; the stopping server's call is retried elsewhere, every call succeeds", name, kinds)
			}
			for row, n := range execs {
				if n > 1 {
					rep.bad("batch-call-executed-twice", "%s: row %s was executed %d times (its success had been received)", name, row, n)
				}
			}
		}
	}
	// ---- the connection of a server died while it was idle: the client notices when the batch is handed to it. Every call
	// handed to the dead connection is answered at once with the connection-level error (and retried on a new connection):
	// the batch returns, complete. (Several runs: what a dead connection does with a batch must not depend on chance.)
	for rep2 := 0; rep2 < 12; rep2++ {
		name := fmt.Sprintf("connection-died-while-idle/%d", rep2)
		var kinds []string
		returned := false
		idleExecs := map[string]int{}
		verifsim.Bubble(t, func(t *testing.T) {
			tr := &verifsim.Trace{}
			cl := verifsim.NewCluster(tr)
			cl.AddServer("ms:1")
			cl.AddServer("s1")
			cl.AddServer("s2")
			cl.CreateTable("t", [][]byte{[]byte("m")}, []string{"s1", "s2"})
			c := newSimClient(cl, RpcQueueSize(2+rep2%4), FlushInterval(time.Millisecond))
			for _, k := range []string{"a0", "n0"} {
				g, _ := hrpc.NewGet(context.Background(), []byte("t"), []byte(k))
				c.Get(g)
			}
			synctest.Wait()
			cl.ResetConns("s1")
			time.Sleep(10 * time.Millisecond)
			synctest.Wait()
			vals := map[string]map[string][]byte{"f": {"q": []byte("v")}}
			var batch []hrpc.Call
			for _, k := range []string{"a1", "n1", "a2", "a3"} {
				p, _ := hrpc.NewPut(context.Background(), []byte("t"), []byte(k), vals)
				batch = append(batch, p)
			}
			ctx, cancel := context.WithCancel(context.Background())
			done := make(chan struct{})
			var res []hrpc.RPCResult
			go func() { res, _ = c.SendBatch(ctx, batch); close(done) }()
			time.Sleep(3 * time.Minute)
			synctest.Wait()
			select {
			case <-done:
				returned = true
				for _, r := range res {
					kinds = append(kinds, sbKind(r))
				}
			default:
			}
			cancel()
			time.Sleep(time.Second)
			cl.Lock()
			for _, e := range cl.Execs {
				idleExecs[e.Row]++
			}
			cl.Unlock()
			c.Close()
			time.Sleep(time.Minute)
			synctest.Wait()
		})
		ran++
		for _, k := range []string{"a1", "n1", "a2", "a3"} {
			if idleExecs[k] != 1 {
				rep.bad("batch-call-not-executed-once", "%s: the put of row %s was executed %d times; a connection found dead is a retryable outcome: "+
					"every call of the batch is executed once on the connection that replaces it", name, k, idleExecs[k])
			}
		}
		if !returned {
			rep.bad("batch-never-returns", "%s: SendBatch has not returned 3 virtual minutes after being handed to a connection that had died while idle", name)
		} else if fmt.Sprint(kinds) != "[ok ok ok ok]" {
			rep.bad("batch-results-differ", "%s: SendBatch returned %v; every call succeeds after the connection is replaced", name, kinds)
		}
	}
	// ---- a call's OWN context ends while the server still holds the multi that carries it (its action was serialised, its
	// result will come with cells in the shared cellblock): the other calls of that multi keep their own answers - each
	// takes ITS cells from the cellblock - and are not sent again
	for rep2 := 0; rep2 < 4; rep2++ {
		name := fmt.Sprintf("own-context-ends-while-the-server-holds-the-multi/%d", rep2)
		var kinds []string
		execs := map[string]int{}
		verifsim.Bubble(t, func(t *testing.T) {
			tr := &verifsim.Trace{}
			cl := verifsim.NewCluster(tr)
			cl.AddServer("ms:1")
			cl.AddServer("s1")
			cl.CreateTable("t", nil, []string{"s1"})
			for _, k := range []string{"a1", "a2"} {
				cl.PutRow("t", []byte(k), []verifsim.KV{{Row: []byte(k), Family: []byte("f"), Qualifier: []byte("q"), Timestamp: 1, Type: 4, Value: []byte("stored-" + k)}})
			}
			c := newSimClient(cl, RpcQueueSize(10), FlushInterval(time.Millisecond))
			g, _ := hrpc.NewGet(context.Background(), []byte("t"), []byte("a0"))
			c.Get(g)
			synctest.Wait()
			hold := make(chan struct{})
			var held atomic.Bool
			cl.Lock()
			cl.Rules = append(cl.Rules, func(_ *verifsim.Cluster, rs *verifsim.RS, sc *verifsim.ServerConn, req *verifsim.Request, rn []byte) *verifsim.Directive {
				if req.Method == "Multi" && held.CompareAndSwap(false, true) {
					return &verifsim.Directive{Hold: hold}
				}
				return nil
			})
			cl.Unlock()
			own, cancelOwn := context.WithCancel(context.Background())
			defer cancelOwn()
			bctx, cancelBatch := context.WithCancel(context.Background())
			defer cancelBatch()
			mk := func(ctx context.Context, row string) hrpc.Call {
				g, _ := hrpc.NewGet(ctx, []byte("t"), []byte(row))
				return g
			}
			inc, _ := hrpc.NewInc(context.Background(), []byte("t"), []byte("a3"), map[string]map[string][]byte{"f": {"n": {0, 0, 0, 0, 0, 0, 0, 1}}})
			batch := []hrpc.Call{mk(own, "a1"), mk(context.Background(), "a2"), inc}
			if rep2%2 == 1 { // the call that gives up is not the first of its multi
				batch = []hrpc.Call{mk(context.Background(), "a2"), mk(own, "a1"), inc}
			}
			done := make(chan struct{})
			var res []hrpc.RPCResult
			go func() { res, _ = c.SendBatch(bctx, batch); close(done) }()
			time.Sleep(100 * time.Millisecond)
			synctest.Wait()
			cancelOwn()
			synctest.Wait()
			close(hold)
			time.Sleep(10 * time.Millisecond) // (less than the first back-off: whatever is retried has not come back yet)
			synctest.Wait()
			cancelBatch()
			time.Sleep(time.Second)
			synctest.Wait()
			select {
			case <-done:
				for i, r := range res {
					k := sbKind(r)
					if gg, isGet := batch[i].(*hrpc.Get); isGet && k == "ok" {
						gr, _ := r.Msg.(*pb.GetResponse)
						if rr := hrpc.ToLocalResult(gr.GetResult()); rr == nil || len(rr.Cells) != 1 || !bytes.Equal(rr.Cells[0].Row, gg.Key()) ||
							string(rr.Cells[0].Value) != "stored-"+string(gg.Key()) {
							k = fmt.Sprintf("ok-with-foreign-content(%v)", r.Msg)
						}
					}
					if string(batch[i].Key()) == "a1" && k == "ok" {
						k = "ctx" // (its answer and the end of its context race: either is its own outcome)
					}
					kinds = append(kinds, string(batch[i].Key())+":"+k)
				}
			default:
				kinds = []string{"SendBatch did not return"}
			}
			time.Sleep(time.Minute)
			synctest.Wait()
			cl.Lock()
			for _, e := range cl.Execs {
				if e.Row == "a3" {
					execs[e.Row]++
				}
			}
			cl.Unlock()
			c.Close()
			time.Sleep(time.Minute)
			synctest.Wait()
		})
		ran++
		want := "[a1:ctx a2:ok a3:ok]"
		if rep2%2 == 1 {
			want = "[a2:ok a1:ctx a3:ok]"
		}
		if fmt.Sprint(kinds) != want {
			rep.bad("batch-results-differ", "%s: SendBatch returned %v; the server answered every action of the multi, each call's own outcome is %s", name, kinds, want)
		}
		if execs["a3"] > 1 {
			rep.bad("batch-call-executed-twice", "%s: the increment of row a3 was executed %d times (its success had been received)", name, execs["a3"])
		}
	}
	// ---- the server refuses a WHOLE multi request (the exception is in the response header: call queue too big, server too
	// busy, the region of a single-region multi not serving) and answers the re-sent one: every call ends with its own
	// answer, executed once
	for ci, class := range []string{verifsim.ExcQueueTooBig, verifsim.ExcTooBusy, verifsim.ExcNotServing} {
		name := "whole-multi-refused-in-the-response-header/" + class[strings.LastIndex(class, ".")+1:]
		var kinds []string
		returned := false
		execs := map[string]int{}
		verifsim.Bubble(t, func(t *testing.T) {
			tr := &verifsim.Trace{}
			cl := verifsim.NewCluster(tr)
			cl.AddServer("ms:1")
			cl.AddServer("s1")
			cl.CreateTable("t", nil, []string{"s1"})
			c := newSimClient(cl, RpcQueueSize(4+ci), FlushInterval(time.Millisecond))
			g, _ := hrpc.NewGet(context.Background(), []byte("t"), []byte("a0"))
			c.Get(g)
			synctest.Wait()
			var once atomic.Bool
			cl.Lock()
			cl.Rules = append(cl.Rules, func(_ *verifsim.Cluster, rs *verifsim.RS, sc *verifsim.ServerConn, req *verifsim.Request, rn []byte) *verifsim.Directive {
				if req.Method == "Multi" && once.CompareAndSwap(false, true) {
					return &verifsim.Directive{Exc: class, Stack: "at org.apache.hadoop.hbase.ipc.Something"}
				}
				return nil
			})
			cl.Unlock()
			vals := map[string]map[string][]byte{"f": {"q": []byte("v")}}
			var batch []hrpc.Call
			for _, k := range []string{"r1", "r2", "r3"} {
				p, _ := hrpc.NewPut(context.Background(), []byte("t"), []byte(k), vals)
				batch = append(batch, p)
			}
			ctx, cancel := context.WithCancel(context.Background())
			done := make(chan struct{})
			var res []hrpc.RPCResult
			go func() { res, _ = c.SendBatch(ctx, batch); close(done) }()
			time.Sleep(3 * time.Minute)
			synctest.Wait()
			select {
			case <-done:
				returned = true
				for _, r := range res {
					kinds = append(kinds, sbKind(r))
				}
			default:
			}
			cancel()
			time.Sleep(time.Second)
			cl.Lock()
			for _, e := range cl.Execs {
				if strings.HasPrefix(e.Row, "r") {
					execs[e.Row]++
				}
			}
			cl.Unlock()
			c.Close()
			time.Sleep(time.Minute)
			synctest.Wait()
		})
		ran++
		if !returned {
			rep.bad("batch-never-returns", "%s: SendBatch has not returned 3 virtual minutes after its first multi request was refused and the second answered", name)
		} else if fmt.Sprint(kinds) != "[ok ok ok]" {
			rep.bad("batch-results-differ", "%s: SendBatch returned %v; every call succeeds in the re-sent request", name, kinds)
		}
		for _, k := range []string{"r1", "r2", "r3"} {
			if returned && execs[k] != 1 {
				rep.bad("batch-call-not-executed-once", "%s: the put of row %s was executed %d times", name, k, execs[k])
			}
		}
	}
	// ---- results with the smallest cells there are (one-byte row, one-byte family, empty qualifier and / or empty value: 26-27
	// bytes a cell) at the end of the cellblock of a multi response: a well-formed response like any other - every call
	// gets its answer, the mutations of the batch are executed once
	for ci, tiny := range []verifsim.KV{
		{Row: []byte("a"), Family: []byte("f"), Qualifier: []byte("q"), Timestamp: 1, Type: 4, Value: nil},
		{Row: []byte("a"), Family: []byte("f"), Qualifier: nil, Timestamp: 1, Type: 4, Value: []byte("v")},
		{Row: []byte("a"), Family: []byte("f"), Qualifier: nil, Timestamp: 1, Type: 4, Value: nil},
	} {
		name := fmt.Sprintf("smallest-cells-at-the-end-of-the-cellblock/%d", ci)
		var kinds []string
		execs := map[string]int{}
		verifsim.Bubble(t, func(t *testing.T) {
			tr := &verifsim.Trace{}
			cl := verifsim.NewCluster(tr)
			cl.AddServer("ms:1")
			cl.AddServer("s1")
			cl.CreateTable("t", nil, []string{"s1"})
			cl.PutRow("t", []byte("a"), []verifsim.KV{tiny})
			c := newSimClient(cl, RpcQueueSize(4), FlushInterval(time.Millisecond))
			g0, _ := hrpc.NewGet(context.Background(), []byte("t"), []byte("zz"))
			c.Get(g0)
			synctest.Wait()
			vals := map[string]map[string][]byte{"f": {"q": []byte("v")}}
			p1, _ := hrpc.NewPut(context.Background(), []byte("t"), []byte("b"), vals)
			i2, _ := hrpc.NewInc(context.Background(), []byte("t"), []byte("c"), map[string]map[string][]byte{"f": {"n": {0, 0, 0, 0, 0, 0, 0, 1}}})
			g3, _ := hrpc.NewGet(context.Background(), []byte("t"), []byte("a"))
			ctx, cancel := context.WithTimeout(context.Background(), 2*time.Minute)
			res, _ := c.SendBatch(ctx, []hrpc.Call{p1, i2, g3})
			cancel()
			synctest.Wait()
			for _, r := range res {
				kinds = append(kinds, sbKind(r))
			}
			cl.Lock()
			for _, e := range cl.Execs {
				if e.Row == "b" || e.Row == "c" {
					execs[e.Row]++
				}
			}
			cl.Unlock()
			c.Close()
			time.Sleep(time.Minute)
			synctest.Wait()
		})
		ran++
		if fmt.Sprint(kinds) != "[ok ok ok]" {
			rep.bad("batch-results-differ", "%s: SendBatch returned %v for [put b, increment c, get a]; the server answered all three", name, kinds)
		}
		for _, k := range []string{"b", "c"} {
			if execs[k] > 1 {
				rep.bad("batch-call-executed-twice", "%s: the mutation of row %s was executed %d times (its success had been received)", name, k, execs[k])
			}
		}
	}
	rep.Scenarios = ran
	rep.Distinct = ran
	rep.Extra["scripts_available"] = len(scripts)
	_ = sort.Strings
}

// TestVerifC12Reject: a batch that mixes tables, repeats a call or contains a non-batchable call is rejected as a
// whole: nothing reaches any server, for every placement of the invalid entry.
func TestVerifC12Reject(t *testing.T) {
	out := os.Getenv("VERIF_OUT")
	if out == "" {
		t.Skip("VERIF_OUT not set")
	}
	rep := &simReport{Extra: map[string]any{}}
	simOnStall("c12r_result.json", rep)
	defer simWriteReport("c12r_result.json", rep)
	// "each call is sent to the region owning its key": a batch with keys on, just below and just above region boundaries,
	// with every subset of the table's three regions known to the client beforehand
	for known := 0; known < 8; known++ {
		name := fmt.Sprintf("route/known-regions=%03b", known)
		verifsim.Bubble(t, func(t *testing.T) {
			tr := &verifsim.Trace{}
			cl := verifsim.NewCluster(tr)
			cl.AddServer("s1")
			cl.AddServer("s2")
			regs := cl.CreateTable("t", [][]byte{[]byte("g"), []byte("p")}, []string{"s1", "s2", "s1"})
			c := newSimClient(cl, RpcQueueSize(5))
			for i, k := range []string{"a0", "h0", "q0"} {
				if known&(1<<i) != 0 {
					g, _ := hrpc.NewGet(context.Background(), []byte("t"), []byte(k))
					c.Get(g)
				}
			}
			synctest.Wait()
			keys := []string{"f\xff", "g", "g\x00", "o\xff\xff", "p", "p\x00", "", "zz"}
			var batch []hrpc.Call
			for _, k := range keys {
				if k == "" {
					continue // (an empty row key is not a legal mutation)
				}
				p, _ := hrpc.NewPut(context.Background(), []byte("t"), []byte(k), map[string]map[string][]byte{"f": {"q": []byte("v")}})
				batch = append(batch, p)
			}
			res, ok := c.SendBatch(context.Background(), batch)
			synctest.Wait()
			rep.Scenarios++
			rep.Distinct++
			if !ok {
				for i, r := range res {
					if r.Error != nil {
						rep.bad("batch-call-misrouted", "%s: the call for key %q failed with %v on a healthy cluster", name, batch[i].Key(), r.Error)
					}
				}
			}
			cl.Lock()
			for _, e := range cl.Execs {
				if e.Table != "t" {
					continue
				}
				var owner *verifsim.Region
				for _, r := range regs {
					if r.Contains([]byte(e.Row)) {
						owner = r
					}
				}
				if owner == nil || e.Region != string(owner.Name) || e.Server != owner.Host {
					rep.bad("batch-call-misrouted", "%s: key %q was executed at region %q on %s; its owner is %v", name, e.Row, e.Region, e.Server, owner)
				}
			}
			cl.Unlock()
			c.Close()
			time.Sleep(time.Minute)
			synctest.Wait()
		})
	}
	// the same with a hole in hbase:meta (a region of the table is in transition: no row for it): the calls whose keys fall
	// into the hole - the first of them is the key EQUAL to the stop key of the region in front of the hole - have no region;
	// they must not be sent to a neighbour. The batch waits for the region (here: until its context ends); whatever else of
	// it was sent went to the owner.
	for hole := 0; hole < 3; hole++ {
		for v := 0; v < 3; v++ {
			// (v = 2: nothing known and the batch begins with the key that equals the stop key of the region in front of the
			// hole - the lookup made for it is the first thing the client learns about the table)
			warm, first := v == 1, map[int]int{0: 6, 1: 1, 2: 4}[hole]
			name := fmt.Sprintf("route/hole-in-meta/region=%d/neighbours-known=%v/boundary-key-first=%v", hole, warm, v == 2)
			verifsim.Bubble(t, func(t *testing.T) {
				tr := &verifsim.Trace{}
				cl := verifsim.NewCluster(tr)
				cl.AddServer("s1")
				cl.AddServer("s2")
				regs := cl.CreateTable("t", [][]byte{[]byte("g"), []byte("p")}, []string{"s1", "s2", "s1"})
				c := newSimClient(cl, RpcQueueSize(5))
				if warm {
					for i, k := range []string{"a0", "h0", "q0"} {
						if i != hole {
							g, _ := hrpc.NewGet(context.Background(), []byte("t"), []byte(k))
							c.Get(g)
						}
					}
					synctest.Wait()
				}
				cl.Lock()
				regs[hole].Online = false
				type sent struct{ region, row, addr string }
				var wrong []sent
				cl.Rules = append(cl.Rules, func(_ *verifsim.Cluster, rs *verifsim.RS, sc *verifsim.ServerConn, req *verifsim.Request, rn []byte) *verifsim.Directive {
					mr, ok := req.Param.(*pb.MultiRequest)
					if !ok {
						return nil
					}
					for _, ra := range mr.GetRegionAction() {
						for _, a := range ra.GetAction() {
							row := a.GetMutation().GetRow()
							if a.Get != nil {
								row = a.Get.GetRow()
							}
							for _, r := range regs {
								if string(r.Name) == string(ra.GetRegion().GetValue()) && !r.Contains(row) {
									wrong = append(wrong, sent{string(r.Name), string(row), rs.Addr})
								}
							}
						}
					}
					return nil
				})
				cl.Unlock()
				keys := []string{"f\xff", "g", "g\x00", "o\xff\xff", "p", "p\x00", "a", "zz"}
				if v == 2 { // ... and it is the only key of the batch that falls into the hole (the others could keep the batch waiting)
					rot := append(append([]string{}, keys[first:]...), keys[:first]...)
					keys = rot[:1]
					for _, k := range rot[1:] {
						if !regs[hole].Contains([]byte(k)) {
							keys = append(keys, k)
						}
					}
				}
				ctx, cancel := context.WithTimeout(context.Background(), 3*time.Second)
				defer cancel()
				var batch []hrpc.Call
				for _, k := range keys {
					p, _ := hrpc.NewPut(ctx, []byte("t"), []byte(k), map[string]map[string][]byte{"f": {"q": []byte("v")}})
					batch = append(batch, p)
				}
				res, ok := c.SendBatch(ctx, batch)
				synctest.Wait()
				rep.Scenarios++
				rep.Distinct++
				cl.Lock()
				for _, w := range wrong {
					rep.bad("batch-call-misrouted", "%s: the call for key %q was sent to %s addressed to region %q, which does not own it (hbase:meta has no "+
						"region for that key at the moment)", name, w.row, w.addr, w.region)
				}
				for _, e := range cl.Execs {
					if e.Table == "t" && regs[hole].Contains([]byte(e.Row)) {
						rep.bad("batch-call-misrouted", "%s: key %q, which no region owns at the moment, was executed at region %q on %s", name, e.Row, e.Region, e.Server)
					}
				}
				cl.Unlock()
				for i, r := range res {
					if regs[hole].Contains(batch[i].Key()) && r.Error == nil {
						rep.bad("batch-call-misrouted", "%s: the call for key %q is reported successful (batch ok=%v) although no region owns the key", name, batch[i].Key(), ok)
					}
				}
				cl.Lock()
				regs[hole].Online = true
				cl.Rules = nil
				cl.Unlock()
				time.Sleep(time.Minute)
				c.Close()
				time.Sleep(time.Minute)
				synctest.Wait()
			})
		}
	}
	kinds := []string{"othertable", "duplicate", "skipbatch-get", "scan", "skipbatch-put"}
	for n := 1; n <= 4; n++ {
		for pos := 0; pos < n; pos++ {
			for _, kind := range kinds {
				for dupOf := 0; dupOf < n; dupOf++ {
					if kind != "duplicate" && dupOf > 0 {
						continue
					}
					if kind == "duplicate" && (dupOf == pos || n < 2) {
						continue
					}
					name := fmt.Sprintf("n=%d/pos=%d/%s/dupOf=%d", n, pos, kind, dupOf)
					verifsim.Bubble(t, func(t *testing.T) {
						tr := &verifsim.Trace{}
						cl := verifsim.NewCluster(tr)
						cl.AddServer("s1")
						cl.CreateTable("t", [][]byte{[]byte("m")}, []string{"s1"})
						cl.CreateTable("u", nil, []string{"s1"})
						c := newSimClient(cl, RpcQueueSize(5))
						for _, k := range []string{"a0", "n0"} {
							g, _ := hrpc.NewGet(context.Background(), []byte("t"), []byte(k))
							c.Get(g)
						}
						g, _ := hrpc.NewGet(context.Background(), []byte("u"), []byte("x"))
						c.Get(g)
						synctest.Wait()
						before := tr.Len()
						ctx := context.Background()
						batch := make([]hrpc.Call, n)
						for i := range batch {
							row := []byte(fmt.Sprintf("%c%d", "an"[i%2], i))
							p, _ := hrpc.NewPut(ctx, []byte("t"), row, map[string]map[string][]byte{"f": {"q": []byte("v")}})
							batch[i] = p
						}
						switch kind {
						case "othertable":
							if n > 1 { // a single call defines the table
								p, _ := hrpc.NewPut(ctx, []byte("u"), []byte("x1"), map[string]map[string][]byte{"f": {"q": []byte("v")}})
								batch[pos] = p
							} else {
								batch[pos] = nil
							}
						case "duplicate":
							batch[pos] = batch[dupOf]
						case "skipbatch-get":
							g, _ := hrpc.NewGet(ctx, []byte("t"), []byte("a9"), hrpc.SkipBatch())
							batch[pos] = g
						case "skipbatch-put":
							p, _ := hrpc.NewPut(ctx, []byte("t"), []byte("a9"), map[string]map[string][]byte{"f": {"q": []byte("v")}}, hrpc.SkipBatch())
							batch[pos] = p
						case "scan":
							s, _ := hrpc.NewScanStr(ctx, "t")
							batch[pos] = s
						}
						if batch[0] == nil {
							c.Close()
							time.Sleep(time.Second)
							return
						}
						res, ok := c.SendBatch(ctx, batch)
						time.Sleep(50 * time.Millisecond)
						synctest.Wait()
						rep.Scenarios++
						rep.Distinct++
						if ok {
							rep.bad("batch-rejected:accepted", "%s: an invalid batch was reported as successful", name)
						}
						if len(res) != n {
							rep.bad("batch-rejected:results", "%s: %d results for %d calls", name, len(res), n)
						}
						for i, r := range res {
							if r.Error == nil {
								rep.bad("batch-rejected:results", "%s: call %d of a rejected batch has a nil error", name, i)
							}
						}
						for _, e := range tr.Events()[before:] {
							if e["ev"] == "req" || e["ev"] == "exec" {
								rep.bad("batch-rejected:something-sent", "%s: a rejected batch still sent %v", name, e)
								break
							}
						}
						c.Close()
						time.Sleep(time.Second)
					})
				}
			}
		}
	}
}
