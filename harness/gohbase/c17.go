package gohbase

// C17 driver: the persistent-failure scenarios of the property, in virtual
// time with the real sleepAndIncreaseBackoff. Every attempt that reaches the
// simulated cluster is logged with its virtual time; TLC validates the gaps
// against the schedule (Trace_Backoff).

import (
	"bytes"
	"context"
	"errors"
	"fmt"
	"os"
	"sync"
	"sync/atomic"
	"testing"
	"testing/synctest"
	"time"

	"github.com/tsuna/gohbase/hrpc"
	"github.com/tsuna/gohbase/internal/verifsim"
)

type c17Scenario struct {
	name         string
	imm          int  // immediate retries allowed before the schedule applies
	cost         int  // ms one attempt takes besides the wait
	tol          int  // ms of tolerance (flush interval, re-establishing a region)
	zero         bool // the loop's first pass does not wait (establishRegion)
	batch        bool
	two          bool // two regions on two servers, a batch with one call each
	same         bool // ... two regions of ONE server
	swap         bool // ... in the other order
	warm         bool // the region is used successfully first; the failure begins afterwards
	scan         bool // the entry point is a scanner's Next
	cacheRegions bool // the entry point is CacheRegions(table) (the meta lookup for a whole table; it has no context: only Close ends it)
	burst        int  // > 0: that many concurrent requests for ONE region; they report its outage at the same instant (held at the entry of MarkUnavailable)
	loops        int  // > 1: that many regions on the failing server, one concurrent request each (attempts of the loops interleave)
	setup        func(cl *verifsim.Cluster, mark func())
	opts         []Option
	// run for this much virtual time
	dur time.Duration
}

func TestVerifC17(t *testing.T) {
	out := os.Getenv("VERIF_OUT")
	if out == "" {
		t.Skip("VERIF_OUT not set")
	}
	long := os.Getenv("VERIF_TIER") == "thorough"
	ndj, err := verifsim.NewNDJSON(out + "/c17_trace.ndjson")
	if err != nil {
		t.Fatal(err)
	}
	rep := &simReport{Extra: map[string]any{}}
	simOnStall("c17_result.json", rep)
	defer func() {
		rep.Events = ndj.Count()
		ndj.Close()
		simWriteReport("c17_result.json", rep)
	}()
	dur := 330 * time.Second // the whole schedule: ... 8.192 s, 13.192 .. 33.192 s, then constant
	if long {
		dur = 700 * time.Second
	}
	isUser := func(req *verifsim.Request) bool {
		return (req.Method == "Get" || req.Method == "Mutate" || req.Method == "Multi") && !isProbeReq(req)
	}
	scenarios := []c17Scenario{
		{name: "retry-later-forever", tol: 1, setup: func(cl *verifsim.Cluster, mark func()) {
			cl.Rules = append(cl.Rules, func(c *verifsim.Cluster, rs *verifsim.RS, sc *verifsim.ServerConn, req *verifsim.Request, name []byte) *verifsim.Directive {
				if isUser(req) {
					mark()
					return &verifsim.Directive{Exc: verifsim.ExcTooBusy}
				}
				return nil
			})
		}},
		{name: "call-queue-too-big-forever", tol: 1, setup: func(cl *verifsim.Cluster, mark func()) {
			cl.Rules = append(cl.Rules, func(c *verifsim.Cluster, rs *verifsim.RS, sc *verifsim.ServerConn, req *verifsim.Request, name []byte) *verifsim.Directive {
				if isUser(req) {
					mark()
					return &verifsim.Directive{Exc: verifsim.ExcQueueTooBig}
				}
				return nil
			})
		}},
		{name: "server-accepts-then-drops-requests", imm: 2, tol: 3, setup: func(cl *verifsim.Cluster, mark func()) {
			// the probe is answered (the region looks online) but every real request kills the connection
			cl.Rules = append(cl.Rules, func(c *verifsim.Cluster, rs *verifsim.RS, sc *verifsim.ServerConn, req *verifsim.Request, name []byte) *verifsim.Directive {
				if isUser(req) {
					mark()
					return &verifsim.Directive{Drop: true}
				}
				return nil
			})
		}},
		{name: "server-drops-every-connection", tol: 3, setup: func(cl *verifsim.Cluster, mark func()) {
			// even the probe dies: the region is never established; its establisher must back off
			cl.Rules = append(cl.Rules, func(c *verifsim.Cluster, rs *verifsim.RS, sc *verifsim.ServerConn, req *verifsim.Request, name []byte) *verifsim.Directive {
				if rs.Addr == "rs1" && req.Method == "Get" {
					mark()
					return &verifsim.Directive{Drop: true}
				}
				return nil
			})
		}},
		{name: "region-never-online", tol: 3, setup: func(cl *verifsim.Cluster, mark func()) {
			cl.Rules = append(cl.Rules, func(c *verifsim.Cluster, rs *verifsim.RS, sc *verifsim.ServerConn, req *verifsim.Request, name []byte) *verifsim.Directive {
				if rs.Addr == "rs1" && req.Method == "Get" {
					mark()
					return &verifsim.Directive{Exc: verifsim.ExcNotServing}
				}
				return nil
			})
		}},
		{name: "region-goes-offline-after-being-online", imm: 1, tol: 3, warm: true, setup: func(cl *verifsim.Cluster, mark func()) {
			// an established region (it has a connection) starts answering "not serving" to requests and probes alike: the
			// request waits for the re-establishment, whose probes follow the schedule - it is not re-sent at full speed
			cl.Rules = append(cl.Rules, func(c *verifsim.Cluster, rs *verifsim.RS, sc *verifsim.ServerConn, req *verifsim.Request, name []byte) *verifsim.Directive {
				if rs.Addr == "rs1" && (req.Method == "Get" || req.Method == "Mutate" || req.Method == "Multi") {
					mark() // the request itself (once), then the probes of the re-establishment
					return &verifsim.Directive{Exc: verifsim.ExcNotServing}
				}
				return nil
			})
		}},
		{name: "region-opening-forever-on-probe", tol: 3, setup: func(cl *verifsim.Cluster, mark func()) {
			cl.Rules = append(cl.Rules, func(c *verifsim.Cluster, rs *verifsim.RS, sc *verifsim.ServerConn, req *verifsim.Request, name []byte) *verifsim.Directive {
				if rs.Addr == "rs1" && req.Method == "Get" {
					mark()
					return &verifsim.Directive{Exc: verifsim.ExcRegionOpening}
				}
				return nil
			})
		}},
		{name: "dial-refused-forever", tol: 3, setup: func(cl *verifsim.Cluster, mark func()) {
			cl.Servers["rs1"].RefuseDial = true
			cl.DialHook = func(addr string) {
				if addr == "rs1" {
					mark()
				}
			}
		}},
		{name: "meta-unreachable", cost: 1000, tol: 3, opts: []Option{RegionLookupTimeout(time.Second)}, setup: func(cl *verifsim.Cluster, mark func()) {
			cl.Rules = append(cl.Rules, func(c *verifsim.Cluster, rs *verifsim.RS, sc *verifsim.ServerConn, req *verifsim.Request, name []byte) *verifsim.Directive {
				if req.Method == "Scan" && string(name) == "hbase:meta,,1" {
					mark()
					return &verifsim.Directive{Silent: true}
				}
				return nil
			})
		}},
		{name: "meta-answers-an-error", tol: 3, setup: func(cl *verifsim.Cluster, mark func()) {
			// hbase:meta is reachable but answers every lookup with an exception the client has no class for
			cl.Rules = append(cl.Rules, func(c *verifsim.Cluster, rs *verifsim.RS, sc *verifsim.ServerConn, req *verifsim.Request, name []byte) *verifsim.Directive {
				if req.Method == "Scan" && string(name) == "hbase:meta,,1" {
					mark()
					return &verifsim.Directive{Exc: "org.apache.hadoop.hbase.security.AccessDeniedException"}
				}
				return nil
			})
		}},
		{name: "zookeeper-errors", tol: 1, setup: func(cl *verifsim.Cluster, mark func()) {
			cl.ZKErr = errors.New("zk: could not connect to a server")
			cl.ZKMark = mark
		}},
	}
	// a batch over two servers: one region answers retry-later for ever, the other one "not serving" (its probe is fine, so it is
	// re-established at once): every round must still back off, whichever server's group is waited for last
	twoServers := c17Scenario{name: "retry-later-on-one-server-not-serving-on-the-other", tol: 4, batch: true, two: true,
		setup: func(cl *verifsim.Cluster, mark func()) {
			cl.ActionHook = func(rs *verifsim.RS, r *verifsim.Region, op string, row []byte) string {
				if len(row) == 0 || row[len(row)-1] != '!' {
					return ""
				}
				if rs.Addr == "rs1" {
					mark()
					return verifsim.ExcTooBusy
				}
				return verifsim.ExcNotServing
			}
		}}
	var all []c17Scenario
	for _, s := range scenarios {
		all = append(all, s)
		b := s
		b.batch = true
		b.name += "/batch"
		if b.tol < 3 {
			b.tol = 3 // the flush interval of the multi
		}
		all = append(all, b)
	}
	// several regions of one persistently failing server, each with a waiting request: one retry loop per region, none more
	for _, s := range scenarios {
		switch s.name {
		case "dial-refused-forever", "server-drops-every-connection", "region-never-online", "server-accepts-then-drops-requests":
			m := s
			m.loops = 3
			m.name += "/3-regions"
			all = append(all, m)
		}
	}
	// a scanner's Next as the entry point
	all = append(all, c17Scenario{name: "retry-later-forever/scan", tol: 1, scan: true, setup: func(cl *verifsim.Cluster, mark func()) {
		cl.Rules = append(cl.Rules, func(c *verifsim.Cluster, rs *verifsim.RS, sc *verifsim.ServerConn, req *verifsim.Request, name []byte) *verifsim.Directive {
			if rs.Addr == "rs1" && req.Method == "Scan" {
				mark()
				return &verifsim.Directive{Exc: verifsim.ExcRegionOpening}
			}
			return nil
		})
	}})
	for _, s := range scenarios {
		switch s.name {
		case "region-never-online", "dial-refused-forever", "meta-unreachable", "server-drops-every-connection":
			m := s
			m.scan = true
			m.name += "/scan"
			all = append(all, m)
		}
	}
	// the lookup of a whole table (CacheRegions) against a failing hbase:meta / ZooKeeper
	for _, s := range scenarios {
		switch s.name {
		case "meta-unreachable", "meta-answers-an-error", "zookeeper-errors":
			m := s
			m.cacheRegions = true
			m.name += "/cacheregions"
			all = append(all, m)
		}
	}
	// the same with both regions on ONE server (one multi request, one group of results): the retry-later answer asks for the
	// back-off whichever of the two results is looked at last
	oneServer := c17Scenario{name: "retry-later-for-one-region-not-serving-for-another-region-of-the-same-server", tol: 4, batch: true, two: true, same: true,
		setup: func(cl *verifsim.Cluster, mark func()) {
			cl.ActionHook = func(rs *verifsim.RS, r *verifsim.Region, op string, row []byte) string {
				if len(row) == 0 || row[len(row)-1] != '!' {
					return ""
				}
				if row[0] == 'a' {
					mark()
					return verifsim.ExcTooBusy
				}
				return verifsim.ExcNotServing
			}
		}}
	for rep2 := 0; rep2 < 4; rep2++ {
		x := oneServer
		x.swap = rep2%2 == 1
		x.name = fmt.Sprintf("%s/%d", oneServer.name, rep2)
		all = append(all, x)
	}
	for rep2 := 0; rep2 < 6; rep2++ { // the order in which SendBatch waits for the servers is Go map order: several runs
		x := twoServers
		x.swap = rep2%2 == 1
		x.name = fmt.Sprintf("%s/%d", twoServers.name, rep2)
		all = append(all, x)
	}
	// several callers learn of ONE outage at the same instant (a burst of "not serving" answers for requests that were in
	// flight together): one of them starts the re-establishment, whose probes are paced by ONE schedule - not one schedule per
	// caller who noticed
	for _, n := range []int{4, 16} {
		for k := 0; k < 25; k++ {
			x := scenarios[5] // region-goes-offline-after-being-online
			if x.name != "region-goes-offline-after-being-online" {
				t.Fatal("scenario table changed")
			}
			x.name = fmt.Sprintf("several-callers-report-the-same-outage-at-once/n=%d/%d", n, k)
			x.burst, x.imm = n, n
			x.dur = 40 * time.Second
			all = append(all, x)
		}
	}
	for _, s := range all {
		if only := os.Getenv("VERIF_ONLY"); only != "" && only != s.name {
			continue
		}
		verifsim.Bubble(t, func(t *testing.T) {
			tr := &verifsim.Trace{}
			cl := verifsim.NewCluster(tr)
			cl.AddServer("ms")
			cl.AddServer("rs1")
			if s.two && s.same {
				cl.CreateTable("t", [][]byte{[]byte("m")}, []string{"rs1", "rs1"})
			} else if s.two {
				cl.AddServer("rs2")
				cl.CreateTable("t", [][]byte{[]byte("m")}, []string{"rs1", "rs2"})
			} else if s.loops > 1 {
				var sp [][]byte
				for i := 1; i < s.loops; i++ {
					sp = append(sp, []byte{byte('a' + 6*i)})
				}
				cl.CreateTable("t", sp, []string{"rs1"})
			} else {
				cl.CreateTable("t", nil, []string{"rs1"})
			}
			t0 := time.Now()
			var times []int
			ctx, cancel := context.WithCancel(context.Background())
			hot := false
			var tmu sync.Mutex
			mark := func() {
				tmu.Lock()
				defer tmu.Unlock()
				times = append(times, int(time.Since(t0)/time.Microsecond))
				if len(times) > 3000 && !hot { // no virtual time passes between attempts: a hot loop; stop it
					hot = true
					cancel()
					// (a loop that is not the request's own - an establisher - cannot be stopped and keeps virtual time from
					// advancing: the scenario may never end; the verdict is left for the stall guard)
					verifsim.SetStallVerdict("hot-loop:"+s.name, fmt.Sprintf("%s: more than 3000 attempts reached the cluster within %v of virtual time (first gaps %v us): retries do not back off",
						s.name, time.Duration(times[len(times)-1]-times[0])*time.Microsecond, gaps(times, 8)))
				}
			}
			if !s.warm {
				s.setup(cl, mark)
			}
			c := newSimClient(cl, append([]Option{RpcQueueSize(5), FlushInterval(time.Millisecond)}, s.opts...)...)
			if s.warm {
				g, _ := hrpc.NewGet(context.Background(), []byte("t"), []byte("k"))
				c.Get(g)
				synctest.Wait()
				t0 = time.Now()
				cl.Lock()
				s.setup(cl, mark)
				cl.Unlock()
			}
			done := make(chan struct{})
			go func() {
				defer close(done)
				if s.cacheRegions {
					c.CacheRegions([]byte("t"))
				} else if s.scan {
					sc, _ := hrpc.NewScanStr(ctx, "t")
					c.Scan(sc).Next()
				} else if s.two {
					p1, _ := hrpc.NewPut(ctx, []byte("t"), []byte("a!"), map[string]map[string][]byte{"f": {"q": []byte("v")}})
					p2, _ := hrpc.NewPut(ctx, []byte("t"), []byte("n!"), map[string]map[string][]byte{"f": {"q": []byte("v")}})
					if s.swap { // SendBatch waits for its servers in (nearly always) batch order: both orders are run
						c.SendBatch(ctx, []hrpc.Call{p2, p1})
					} else {
						c.SendBatch(ctx, []hrpc.Call{p1, p2})
					}
				} else if s.loops > 1 {
					var wg sync.WaitGroup
					for i := 0; i < s.loops; i++ {
						wg.Add(1)
						go func() {
							defer wg.Done()
							g, _ := hrpc.NewGet(ctx, []byte("t"), []byte{byte('a' + 6*i), 'x'}, hrpc.SkipBatch())
							c.Get(g)
						}()
					}
					wg.Wait()
				} else if s.batch {
					p, _ := hrpc.NewPut(ctx, []byte("t"), []byte("k"), map[string]map[string][]byte{"f": {"q": []byte("v")}})
					c.SendBatch(ctx, []hrpc.Call{p})
				} else if s.burst > 0 {
					var arrived atomic.Int32
					release := make(chan struct{})
					var once sync.Once
					simSetRegionHook(func(point string, c any, arg any) {
						if point != "info.markUnavailable" {
							return
						}
						if r, ok := c.(hrpc.RegionInfo); !ok || !bytes.HasPrefix(r.Name(), []byte("t,,")) {
							return
						}
						if int(arrived.Add(1)) >= s.burst {
							once.Do(func() { close(release) })
						}
						select {
						case <-release: // (all of them are here: they go on together)
						case <-time.After(time.Millisecond): // (the establisher's own reports come later and alone)
						}
					})
					var wg sync.WaitGroup
					for i := 0; i < s.burst; i++ {
						wg.Add(1)
						go func() {
							defer wg.Done()
							g, _ := hrpc.NewGet(ctx, []byte("t"), []byte("k"), hrpc.SkipBatch())
							c.Get(g)
						}()
					}
					wg.Wait()
				} else {
					g, _ := hrpc.NewGet(ctx, []byte("t"), []byte("k"), hrpc.SkipBatch())
					c.Get(g)
				}
			}()
			if s.dur > 0 {
				time.Sleep(s.dur)
			} else {
				time.Sleep(dur)
			}
			if s.burst > 0 {
				simSetRegionHook(nil)
			}
			_ = dur
			synctest.Wait()
			if hot {
				rep.bad("hot-loop:"+s.name, "%s: more than 3000 attempts reached the cluster within %v of virtual time (first gaps %v us): retries do not back off",
					s.name, time.Duration(times[len(times)-1]-times[0])*time.Microsecond, gaps(times, 8))
			}
			select {
			case <-done:
				if hot {
					break
				}
				rep.bad("request-gave-up", "%s: the request returned although the failure persists and its context is live", s.name)
			default:
			}
			// a wait ends early only through cancellation: cancel now, the call must return at once
			tc := time.Now()
			cancel()
			synctest.Wait()
			select {
			case <-done:
				if time.Since(tc) != 0 {
					rep.bad("cancel-not-prompt", "%s: returned %v after cancellation", s.name, time.Since(tc))
				}
			default:
				if !s.cacheRegions { // (CacheRegions takes no context)
					rep.bad("cancel-ignored-in-backoff", "%s: cancellation did not end the wait", s.name)
				}
			}
			// let the failure end so that every retry loop can wind down, then close
			cl.Lock()
			cl.Rules = nil
			cl.ActionHook = nil
			cl.ZKErr = nil
			cl.Servers["rs1"].RefuseDial = false
			cl.Unlock()
			time.Sleep(40 * time.Second)
			c.Close()
			time.Sleep(40 * time.Second)
			synctest.Wait()
			ndj.Write(map[string]any{"ev": "scenario", "name": s.name, "imm": s.imm, "cost": s.cost, "tol": s.tol, "zero": s.zero, "loops": max(1, s.loops)})
			for _, x := range times {
				ndj.Write(map[string]any{"ev": "attempt", "t": x})
			}
			rep.Scenarios++
			rep.Distinct++
			if len(times) < 15 && s.burst == 0 {
				rep.bad("too-few-attempts", "%s: only %d attempts reached the cluster in %v: the scenario does not exercise the schedule", s.name, len(times), dur)
			}
			rep.Samples = append(rep.Samples, map[string]any{"scenario": s.name, "attempts": len(times), "first_gaps_us": gaps(times, 6)})
		})
	}
	_ = fmt.Sprint
}

func gaps(t []int, n int) []int {
	var g []int
	for i := 0; i+1 < len(t) && i < n; i++ {
		g = append(g, t[i+1]-t[i])
	}
	return g
}

// isProbeReq: the establisher's probe is an exists-only Get.
func isProbeReq(req *verifsim.Request) bool { return verifsim.IsProbe(req) }
