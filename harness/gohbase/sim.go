package gohbase

// Shared gohbase-level harness: a real client wired to the simulated cluster.

import (
	"strings"
	"context"
	"fmt"
	"os"
	"sync/atomic"
	"time"

	"github.com/tsuna/gohbase/hrpc"
	"github.com/tsuna/gohbase/internal/verifsim"
	"github.com/tsuna/gohbase/region"
	"github.com/tsuna/gohbase/zk"
)

type simZK struct{ cl *verifsim.Cluster }

func (z simZK) LocateResource(r zk.ResourceName) (string, error) { return z.cl.ZKLocate(string(r)) }

// newSimClient builds the real client against cl. Extra options are applied after the defaults.
func newSimClient(cl *verifsim.Cluster, opts ...Option) *client {
	all := append([]Option{RegionDialer(cl.Dial), Logger(discardLogger), FlushInterval(time.Millisecond)}, opts...)
	c := newClient("zk.invalid:2181", all...)
	c.zkClient = simZK{cl}
	return c
}

// newSimAdminClient builds the real admin client against cl (the master is the server cl.MasterAddr).
func newSimAdminClient(cl *verifsim.Cluster, opts ...Option) *client {
	all := append([]Option{RegionDialer(cl.Dial), Logger(discardLogger), FlushInterval(time.Millisecond)}, opts...)
	c := newAdminClient("zk.invalid:2181", all...).(*client)
	c.zkClient = simZK{cl}
	return c
}

type simReport struct {
	Scenarios  int              `json:"scenarios"`
	Events     int              `json:"events"`
	Violations []map[string]any `json:"violations"`
	Samples    []any            `json:"samples"`
	Distinct   int              `json:"distinct"`
	Extra      map[string]any   `json:"extra"`
}

func (r *simReport) bad(sig, f string, a ...any) {
	if len(r.Violations) < 40 {
		r.Violations = append(r.Violations, map[string]any{"sig": sig, "desc": fmt.Sprintf(f, a...)})
	}
	if !strings.HasPrefix(sig, "harness:") {
		// should a later scenario never end (a client damaged like this may well hang), this is what the check reports
		verifsim.SetStallVerdict(sig, fmt.Sprintf(f, a...))
	}
}

// simOnStall: if a scenario stalls (see verifsim.Bubble) what was found so far is still written.
func simOnStall(file string, r *simReport) {
	verifsim.OnStall(func() { simWriteReport(file, r) })
}

func simWriteReport(file string, r *simReport) {
	b, _ := jsonMarshal(r)
	os.WriteFile(os.Getenv("VERIF_OUT")+"/"+file, b, 0o644)
}

func errClass(err error) string {
	switch err {
	case nil:
		return "none"
	case TableNotFound:
		return "tableNotFound"
	case ErrClientClosed:
		return "closed"
	case ErrCannotFindRegion:
		return "cannotFindRegion"
	case context.Canceled, context.DeadlineExceeded:
		return "ctx"
	}
	return "other"
}

var _ = hrpc.SkipBatch


// The hook variables of the client and of the region package are written once per process; scenarios swap the function
// behind them atomically (an assignment must not race with goroutines an earlier scenario's client left behind).
var simHookCur, simRegionHookCur atomic.Pointer[func(point string, c any, arg any)]

func init() {
	VerifHook = func(point string, c any, arg any) {
		if h := simHookCur.Load(); h != nil {
			(*h)(point, c, arg)
		}
	}
	region.VerifHook = func(point string, c any, arg any) {
		if h := simRegionHookCur.Load(); h != nil {
			(*h)(point, c, arg)
		}
	}
}

func simSetHook(f func(point string, c any, arg any)) {
	if f == nil {
		simHookCur.Store(nil)
		return
	}
	simHookCur.Store(&f)
}

func simSetRegionHook(f func(point string, c any, arg any)) {
	if f == nil {
		simRegionHookCur.Store(nil)
		return
	}
	simRegionHookCur.Store(&f)
}

func simRegionHook() func(point string, c any, arg any) {
	if h := simRegionHookCur.Load(); h != nil {
		return *h
	}
	return nil
}
