package gohbase

import "encoding/json"

func jsonMarshal(v any) ([]byte, error) { return json.Marshal(v) }
