package gohbase

// C18, client level: the read timeout a user configures (RegionReadTimeout) is
// the one that governs how long a silent server goes undetected - for the
// connections to regionservers and for the admin client's connection to the
// master - and an idle connection is left alone however long it idles.

import (
	"context"
	"fmt"
	"os"
	"sync"
	"testing"
	"testing/synctest"
	"time"

	"github.com/tsuna/gohbase/hrpc"
	"github.com/tsuna/gohbase/internal/verifsim"
)

func TestVerifC18Client(t *testing.T) {
	out := os.Getenv("VERIF_OUT")
	if out == "" {
		t.Skip("VERIF_OUT not set")
	}
	rep := &simReport{Extra: map[string]any{}}
	simOnStall("c18c_result.json", rep)
	defer simWriteReport("c18c_result.json", rep)
	for _, admin := range []bool{false, true} {
		for _, rt := range []time.Duration{150 * time.Millisecond, 2 * time.Second, 90 * time.Second} {
			for _, lookup := range []time.Duration{30 * time.Second, 7 * time.Second} {
				name := fmt.Sprintf("admin=%v/read-timeout=%v/lookup-timeout=%v", admin, rt, lookup)
				verifsim.Bubble(t, func(t *testing.T) {
					tr := &verifsim.Trace{}
					cl := verifsim.NewCluster(tr)
					for _, a := range []string{"ms", "rs1", "master"} {
						cl.AddServer(a)
					}
					cl.MasterAddr = "master"
					cl.CreateTable("t", nil, []string{"rs1"})
					target := "rs1"
					if admin {
						target = "master"
					}
					var mu sync.Mutex
					var silentAt, closedAt time.Time
					silent := false
					cl.Rules = append(cl.Rules, func(c *verifsim.Cluster, rs *verifsim.RS, sc *verifsim.ServerConn, req *verifsim.Request, name []byte) *verifsim.Directive {
						mu.Lock()
						defer mu.Unlock()
						if silent && rs.Addr == target && !verifsim.IsProbe(req) && silentAt.IsZero() {
							silentAt = time.Now()
							return &verifsim.Directive{Silent: true}
						}
						return nil
					})
					cl.ConnHook = func(op verifsim.Op) *verifsim.Fault { // the client hangs up on the silent server
						if op.Kind == verifsim.OpClose && op.Conn.RemoteAddr().String() == target {
							mu.Lock()
							if !silentAt.IsZero() && closedAt.IsZero() {
								closedAt = time.Now()
							}
							mu.Unlock()
						}
						return nil
					}
					opts := []Option{RegionReadTimeout(rt), RegionLookupTimeout(lookup), RpcQueueSize(1)}
					var c *client
					if admin {
						c = newSimAdminClient(cl, opts...)
					} else {
						c = newSimClient(cl, opts...)
					}
					call := func(ctx context.Context) error {
						if admin {
							_, err := c.ClusterStatus()
							return err
						}
						g, _ := hrpc.NewGet(ctx, []byte("t"), []byte("k"))
						_, err := c.Get(g)
						return err
					}
					// 1. a healthy exchange, then the connection idles for 20 read timeouts and still works
					if err := call(context.Background()); err != nil {
						rep.bad("request-failed", "%s: the first request failed: %v", name, err)
					}
					time.Sleep(20 * rt)
					synctest.Wait()
					if n := cl.OpenConns(target); n != 1 {
						rep.bad("idle-connection-torn-down", "%s: %d connections to %s after idling 20 x %v with nothing outstanding", name, n, target, rt)
					}
					if err := call(context.Background()); err != nil {
						rep.bad("request-failed", "%s: the request after the idle period failed: %v", name, err)
					}
					// 2. the server swallows the next request: the client must give the connection up one read timeout later
					mu.Lock()
					silent = true
					mu.Unlock()
					done := make(chan error, 1)
					go func() { done <- call(context.Background()) }()
					time.Sleep(rt + lookup + 5*time.Second)
					synctest.Wait()
					mu.Lock()
					s, cAt := silentAt, closedAt
					mu.Unlock()
					switch {
					case s.IsZero():
						rep.bad("harness:c18c", "%s: the request never reached %s", name, target)
					case cAt.IsZero():
						rep.bad("silent-server-not-detected", "%s: the connection to the silent %s is still open %v after the request was sent (configured read timeout %v)", name, target, time.Since(s), rt)
					case cAt.Sub(s) != rt:
						rep.bad("read-timeout-not-the-configured-one", "%s: the connection to the silent %s was given up %v after the request was sent; the configured read timeout is %v", name, target, cAt.Sub(s), rt)
					}
					select {
					case err := <-done: // the server answers again after the first swallowed request: the retry succeeds
						if err != nil {
							rep.bad("request-failed", "%s: the request was not failed over after the silent connection was given up: %v", name, err)
						}
					default:
						rep.bad("request-stranded", "%s: the request is still blocked %v after the server went silent", name, time.Since(s))
					}
					rep.Scenarios++
					rep.Distinct++
					if !admin {
						c.Close()
					} else if ac := c.adminRegionInfo.Client(); ac != nil {
						ac.Close()
					}
					time.Sleep(2 * time.Minute)
					synctest.Wait()
					for _, a := range []string{"ms", "rs1", "master"} {
						cl.ResetConns(a)
					}
					time.Sleep(time.Minute)
					synctest.Wait()
				})
			}
		}
	}
}
