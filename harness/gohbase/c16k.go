package gohbase

// C16, the producer of search keys: createRegionSearchKey must build exactly
// the bytes RegionName.tla's SearchName denotes - a fresh value each time: a
// key that shares memory with the caller's table slice (or with an earlier
// key) changes under the feet of whoever still holds it, and the order of the
// names in the cache with it.

import (
	"bytes"
	"fmt"
	"os"
	"testing"

	"github.com/tsuna/gohbase/region"
)

func TestVerifC16Keys(t *testing.T) {
	in, out := os.Getenv("VERIF_IN"), os.Getenv("VERIF_OUT")
	if in == "" || out == "" {
		t.Skip("VERIF_IN / VERIF_OUT not set")
	}
	type kc struct{ Table, Key, Bytes []int }
	cases, err := c08readNDJSON[kc](in + "/c16_searchkeys.ndjson")
	if err != nil {
		t.Fatal(err)
	}
	rep := &simReport{Extra: map[string]any{}}
	defer simWriteReport("c16k_result.json", rep)
	b := func(x []int) []byte {
		o := make([]byte, len(x))
		for i, v := range x {
			o[i] = byte(v)
		}
		return o
	}
	for _, spare := range []int{0, 3, 64} { // spare capacity behind the caller's table slice
		type built struct {
			want, got []byte
		}
		var keys []built
		for _, c := range cases {
			// the caller's table name lives in a larger buffer: [table | sentinel...]
			buf := make([]byte, len(c.Table)+spare)
			copy(buf, b(c.Table))
			for i := len(c.Table); i < len(buf); i++ {
				buf[i] = 0xA5
			}
			table := buf[:len(c.Table)]
			key := b(c.Key)
			keyCopy := append([]byte{}, key...)
			got := createRegionSearchKey(table, key)
			rep.Scenarios++
			if !bytes.Equal(got, b(c.Bytes)) {
				rep.bad("search-key-bytes", "createRegionSearchKey(%q, %q) = %q, the specification's SearchName is %q", table, key, got, b(c.Bytes))
			}
			if !bytes.Equal(buf[:len(c.Table)], b(c.Table)) || !bytes.Equal(key, keyCopy) {
				rep.bad("search-key-modifies-input", "createRegionSearchKey(%q, %q) modified its arguments", b(c.Table), keyCopy)
			}
			for i := len(c.Table); i < len(buf); i++ {
				if buf[i] != 0xA5 {
					rep.bad("search-key-writes-into-callers-buffer", "createRegionSearchKey(%q, %q) with %d spare bytes behind the table slice: "+
						"the caller's buffer was overwritten at offset %d", b(c.Table), keyCopy, spare, i)
					break
				}
			}
			// a second key from the SAME table slice while the first is alive
			got2 := createRegionSearchKey(table, append(append([]byte{}, key...), 'z'))
			if !bytes.Equal(got, b(c.Bytes)) {
				rep.bad("search-key-aliases-table", "the key %q built from table %q changed to %q when a second key (%q) was built from the same table slice",
					b(c.Bytes), b(c.Table), got, got2)
			}
			keys = append(keys, built{b(c.Bytes), got})
		}
		// the order of the keys held (all built from slices of the same shape) is the specification's
		for i := 0; i+1 < len(keys) && i < 400; i++ {
			w := region.Compare(keys[i].want, keys[i+1].want)
			g := region.Compare(keys[i].got, keys[i+1].got)
			if (w < 0) != (g < 0) || (w == 0) != (g == 0) {
				rep.bad("search-key-order", "Compare of the built keys %q, %q = %d; of the specification's keys = %d", keys[i].got, keys[i+1].got, g, w)
			}
		}
	}
	rep.Distinct = len(cases)
	_ = fmt.Sprint
}
