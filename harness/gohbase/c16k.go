package gohbase

// C16, the producer of search keys: createRegionSearchKey must build exactly
// the bytes RegionName.tla's SearchName denotes - a fresh value each time: a
// key that shares memory with the caller's table slice (or with an earlier
// key) changes under the feet of whoever still holds it, and the order of the
// names in the cache with it.

import (
	"bytes"
	"fmt"
	"os"
	"testing"

	"github.com/tsuna/gohbase/region"
)

func TestVerifC16Keys(t *testing.T) {
	in, out := os.Getenv("VERIF_IN"), os.Getenv("VERIF_OUT")
	if in == "" || out == "" {
		t.Skip("VERIF_IN / VERIF_OUT not set")
	}
	type kc struct{ Table, Key, Bytes []int }
	cases, err := c08readNDJSON[kc](in + "/c16_searchkeys.ndjson")
	if err != nil {
		t.Fatal(err)
	}
	rep := &simReport{Extra: map[string]any{}}
	defer simWriteReport("c16k_result.json", rep)
	b := func(x []int) []byte {
		o := make([]byte, len(x))
		for i, v := range x {
			o[i] = byte(v)
		}
		return o
	}
	for _, spare := range []int{0, 3, 64} { // spare capacity behind the caller's table slice
		type built struct {
			want, got []byte
		}
		var keys []built
		for _, c := range cases {
			// the caller's table name lives in a larger buffer: [table | sentinel...]
			buf := make([]byte, len(c.Table)+spare)
			copy(buf, b(c.Table))
			for i := len(c.Table); i < len(buf); i++ {
				buf[i] = 0xA5
			}
			table := buf[:len(c.Table)]
			key := b(c.Key)
			keyCopy := append([]byte{}, key...)
			got := createRegionSearchKey(table, key)
			rep.Scenarios++
			if !bytes.Equal(got, b(c.Bytes)) {
				rep.bad("search-key-bytes", "createRegionSearchKey(%q, %q) = %q, the specification's SearchName is %q", table, key, got, b(c.Bytes))
			}
			if !bytes.Equal(buf[:len(c.Table)], b(c.Table)) || !bytes.Equal(key, keyCopy) {
				rep.bad("search-key-modifies-input", "createRegionSearchKey(%q, %q) modified its arguments", b(c.Table), keyCopy)
			}
			for i := len(c.Table); i < len(buf); i++ {
				if buf[i] != 0xA5 {
					rep.bad("search-key-writes-into-callers-buffer", "createRegionSearchKey(%q, %q) with %d spare bytes behind the table slice: "+
						"the caller's buffer was overwritten at offset %d", b(c.Table), keyCopy, spare, i)
					break
				}
			}
			// a second key from the SAME table slice while the first is alive
			got2 := createRegionSearchKey(table, append(append([]byte{}, key...), 'z'))
			if !bytes.Equal(got, b(c.Bytes)) {
				rep.bad("search-key-aliases-table", "the key %q built from table %q changed to %q when a second key (%q) was built from the same table slice",
					b(c.Bytes), b(c.Table), got, got2)
			}
			keys = append(keys, built{b(c.Bytes), got})
		}
		// the order of the keys held (all built from slices of the same shape) is the specification's
		for i := 0; i+1 < len(keys) && i < 400; i++ {
			w := region.Compare(keys[i].want, keys[i+1].want)
			g := region.Compare(keys[i].got, keys[i+1].got)
			if (w < 0) != (g < 0) || (w == 0) != (g == 0) {
				rep.bad("search-key-order", "Compare of the built keys %q, %q = %d; of the specification's keys = %d", keys[i].got, keys[i+1].got, g, w)
			}
		}
	}
	rep.Distinct = len(cases)

	// the order of the CLIENT's region cache (the tree a new client builds, with whatever comparator it hands it): filled with
	// the names of the scope in a scrambled order, its enumeration must be the specification's sorted list
	type nm struct{ Table, Start, ID []int }
	sorted, err := c08readNDJSON[nm](in + "/c16_sorted.ndjson")
	if err != nil {
		t.Fatal(err)
	}
	flat := func(n nm) []byte {
		o := append([]byte{}, b(n.Table)...)
		o = append(o, ',')
		o = append(o, b(n.Start)...)
		o = append(o, ',')
		return append(o, b(n.ID)...)
	}
	c := newClient("zk.invalid:2181", Logger(discardLogger))
	perm := make([]int, len(sorted))
	for i := range perm {
		perm[i] = (i*7919 + 13) % len(sorted)
	}
	seen := map[string]bool{}
	for _, i := range perm {
		name := flat(sorted[i])
		if seen[string(name)] {
			continue
		}
		seen[string(name)] = true
		c.regions.regions.Set(name, region.NewInfo(1, nil, b(sorted[i].Table), name, b(sorted[i].Start), nil))
	}
	enum, err := c.regions.regions.SeekFirst()
	var got [][]byte
	for err == nil {
		var k []byte
		k, _, err = enum.Next()
		if err == nil {
			got = append(got, k)
		}
	}
	var want [][]byte
	for _, n := range sorted {
		if k := flat(n); len(want) == 0 || !bytes.Equal(want[len(want)-1], k) {
			want = append(want, k)
		}
	}
	rep.Scenarios++
	if len(got) != len(want) {
		rep.bad("client-cache-order", "the client's region cache holds %d of the %d names inserted (its comparator takes different names for equal)", len(got), len(want))
	} else {
		for i := range got {
			if !bytes.Equal(got[i], want[i]) {
				rep.bad("client-cache-order", "the client's region cache enumerates %q at position %d; the specification's order has %q there", got[i], i, want[i])
				break
			}
		}
	}
	c.Close()

	// ... and LOOKUPS in that cache follow the same order: for caches holding a prefix of the sorted names (so that every
	// name is the greatest cached one once), the cache's answer for the search key of (table, key) is the greatest cached
	// name that is not above the key in the specification's (component-wise) order
	tupleCmp := func(t1, s1, i1, t2, s2, i2 []byte) int {
		if c := bytes.Compare(t1, t2); c != 0 {
			return c
		}
		if c := bytes.Compare(s1, s2); c != 0 {
			return c
		}
		return bytes.Compare(i1, i2)
	}
	var uniq []nm
	for _, n := range sorted {
		if len(uniq) == 0 || !bytes.Equal(flat(uniq[len(uniq)-1]), flat(n)) {
			uniq = append(uniq, n)
		}
	}
	type tup struct{ t, s, i, flat []byte }
	tups := make([]tup, len(uniq))
	tups = tups[:0]
	for _, n := range uniq {
		if string(b(n.ID)) == ":" { // (the id of search keys: a cached name equal to a search key is not a state of the cache)
			continue
		}
		tups = append(tups, tup{b(n.Table), b(n.Start), b(n.ID), flat(n)})
	}
	type skey struct{ t, k, bytes []byte }
	skeys := make([]skey, len(cases))
	for k, cs := range cases {
		skeys[k] = skey{b(cs.Table), b(cs.Key), b(cs.Bytes)}
	}
	lookups := 0
	c2 := newClient("zk.invalid:2181", Logger(discardLogger))
	failed := false
	for j := 0; j < len(tups) && !failed; j++ { // the cache grows by one name (the new greatest one) per round
		c2.regions.regions.Set(tups[j].flat, region.NewInfo(1, nil, tups[j].t, tups[j].flat, tups[j].s, nil))
		for _, sk := range skeys {
			// the greatest of tups[0..j] below the search key (binary search: tups is sorted in the specification's order)
			lo, hi := 0, j+1
			for lo < hi {
				mid := (lo + hi) / 2
				if tupleCmp(tups[mid].t, tups[mid].s, tups[mid].i, sk.t, sk.k, []byte(":")) < 0 {
					lo = mid + 1
				} else {
					hi = mid
				}
			}
			if lo <= j && tupleCmp(tups[lo].t, tups[lo].s, tups[lo].i, sk.t, sk.k, []byte(":")) == 0 {
				continue // (the cache treats an exact match of a search key as impossible)
			}
			var exp []byte
			if lo > 0 {
				exp = tups[lo-1].flat
			}
			gotK, _ := c2.regions.get(sk.bytes)
			lookups++
			if !bytes.Equal(gotK, exp) {
				rep.bad("client-cache-lookup-order", "a cache holding the %d smallest names of the scope (greatest: %q) answers the search key %q with %q; "+
					"the greatest cached name not above it in the specification's order is %q", j+1, tups[j].flat, sk.bytes, gotK, exp)
				failed = true
				break
			}
		}
	}
	c2.Close()
	rep.Scenarios += lookups
	rep.Extra["cache_lookups"] = lookups
	_ = fmt.Sprint
}
