package gohbase

// C08 / C01(lookup) conformance driver: drives the real keyRegionCache and
// getRegionFromCache and logs every step for TLC (Trace_RegionCache).
//
//  part 1: breadth-first over every cache state reachable in the TLC scope
//          (universe written by Gen_RegionCache); from every distinct state
//          every put and every del is tried once, and every lookup key is
//          looked up once per state.
//  part 2: seeded random walks over arbitrary byte keys and many regions, so
//          that the B-tree spans several pages.

import (
	"bufio"
	"encoding/json"
	"fmt"
	"io"
	"log/slog"
	"math/rand"
	"os"
	"sort"
	"strconv"
	"strings"
	"testing"

	"github.com/tsuna/gohbase/hrpc"
	"github.com/tsuna/gohbase/region"
	"modernc.org/b/v2"
)

type c08Rec struct {
	Obj   int   `json:"obj"`
	Table []int `json:"table"`
	Start []int `json:"start"`
	Stop  []int `json:"stop"`
	ID    int   `json:"id"`
}

func c08bytes(x []int) []byte {
	b := make([]byte, len(x))
	for i, v := range x {
		b[i] = byte(v)
	}
	return b
}

func c08ints(b []byte) []int {
	out := make([]int, len(b))
	for i, x := range b {
		out[i] = int(x)
	}
	return out
}

var discardLogger = slog.New(slog.NewTextHandler(io.Discard, nil))

// c08World wraps a real client (only its caches are used) and the objects made so far.
type c08World struct {
	c     *client
	objs  []hrpc.RegionInfo // index = obj id
	recs  []c08Rec
	w     *bufio.Writer
	n     int
	gets  bool
	panic string
}

func newC08World(w *bufio.Writer) *c08World {
	wd := &c08World{w: w}
	wd.reset(false)
	return wd
}

func (wd *c08World) emit(v map[string]any) {
	b, err := json.Marshal(v)
	if err != nil {
		panic(err)
	}
	wd.w.Write(b)
	wd.w.WriteByte('\n')
	wd.n++
}

func (wd *c08World) reset(log bool) {
	wd.c = &client{
		clientType: region.RegionClient,
		regions:    keyRegionCache{logger: discardLogger, regions: b.TreeNew[[]byte, hrpc.RegionInfo](region.Compare)},
		clients:    clientRegionCache{logger: discardLogger, regions: make(map[hrpc.RegionClient]map[hrpc.RegionInfo]struct{})},
		logger:     discardLogger,
		metaRegionInfo: region.NewInfo(0, []byte("hbase"), []byte("meta"), []byte("hbase:meta,,1"), nil, nil),
	}
	wd.objs = nil
	wd.recs = nil
	if log {
		wd.emit(map[string]any{"ev": "reset"})
	}
}

// newObj creates a fresh region object for the abstract region r.
func (wd *c08World) newObj(r c08Rec) int {
	r.Obj = len(wd.objs)
	fq := c08bytes(r.Table)
	var ns, tb []byte
	if i := strings.IndexByte(string(fq), ':'); i >= 0 {
		ns, tb = fq[:i], fq[i+1:]
	} else {
		tb = fq
	}
	name := append(append(append(append(append([]byte{}, fq...), ','), c08bytes(r.Start)...), ','), []byte(strconv.Itoa(r.ID))...)
	if r.ID%2 == 0 {
		name = append(name, []byte(".0f3a.")...)
	}
	info := region.NewInfo(uint64(r.ID), ns, tb, name, c08bytes(r.Start), c08bytes(r.Stop))
	wd.objs = append(wd.objs, info)
	wd.recs = append(wd.recs, r)
	return r.Obj
}

func (wd *c08World) objOf(info hrpc.RegionInfo) int {
	for i, o := range wd.objs {
		if o == info {
			return i
		}
	}
	return -2 // not one of ours: reported as a mismatch by TLC
}

func (wd *c08World) cacheObjs() []int {
	out := []int{}
	krc := &wd.c.regions
	krc.m.RLock()
	defer krc.m.RUnlock()
	enum, err := krc.regions.SeekFirst()
	if err != nil {
		return out
	}
	for {
		_, v, err := enum.Next()
		if err != nil {
			break
		}
		out = append(out, wd.objOf(v))
	}
	enum.Close()
	return out
}

func (wd *c08World) deadObjs() []int {
	out := []int{}
	for i, o := range wd.objs {
		if o.Context().Err() != nil {
			out = append(out, i)
		}
	}
	return out
}

func (wd *c08World) guard(what string, f func()) {
	defer func() {
		if p := recover(); p != nil && wd.panic == "" {
			wd.panic = fmt.Sprintf("%s panicked: %v", what, p)
		}
	}()
	f()
}

func (wd *c08World) put(obj int) {
	wd.guard("put", func() {
		ov, replaced := wd.c.regions.put(wd.objs[obj])
		ovs := []int{}
		for _, o := range ov {
			ovs = append(ovs, wd.objOf(o))
		}
		wd.emit(map[string]any{"ev": "put", "r": wd.recs[obj], "overlaps": ovs, "replaced": replaced,
			"cache": wd.cacheObjs(), "dead": wd.deadObjs()})
	})
}

func (wd *c08World) del(obj int) {
	wd.guard("del", func() {
		ok := wd.c.regions.del(wd.objs[obj])
		wd.emit(map[string]any{"ev": "del", "r": wd.recs[obj], "ok": ok, "cache": wd.cacheObjs(), "dead": wd.deadObjs()})
	})
}

func (wd *c08World) get(table, key []int) {
	wd.guard("getRegionFromCache", func() {
		r := wd.c.getRegionFromCache(c08bytes(table), c08bytes(key))
		res := -1
		if r != nil {
			res = wd.objOf(r)
		}
		wd.emit(map[string]any{"ev": "get", "table": table, "key": key, "res": res})
	})
}

func c08readNDJSON[T any](path string) ([]T, error) {
	fh, err := os.Open(path)
	if err != nil {
		return nil, err
	}
	defer fh.Close()
	var out []T
	sc := bufio.NewScanner(fh)
	sc.Buffer(make([]byte, 1<<20), 1<<22)
	for sc.Scan() {
		var v T
		if err := json.Unmarshal(sc.Bytes(), &v); err != nil {
			return nil, err
		}
		out = append(out, v)
	}
	return out, nil
}

type c08Key struct {
	Table []int `json:"table"`
	Key   []int `json:"key"`
}

type c08Op struct {
	del bool
	u   int // universe index
}

func TestVerifC08(t *testing.T) {
	in, out := os.Getenv("VERIF_IN"), os.Getenv("VERIF_OUT")
	if in == "" || out == "" {
		t.Skip("VERIF_IN / VERIF_OUT not set")
	}
	seed, _ := strconv.ParseInt(os.Getenv("VERIF_SEED"), 10, 64)
	walks, _ := strconv.Atoi(os.Getenv("VERIF_WALKS"))
	walkLen, _ := strconv.Atoi(os.Getenv("VERIF_WALKLEN"))
	maxStates, _ := strconv.Atoi(os.Getenv("VERIF_MAXSTATES"))
	withGets := os.Getenv("VERIF_GETS") == "1"

	universe, err := c08readNDJSON[c08Rec](in + "/c08_universe.ndjson")
	if err != nil {
		t.Fatal(err)
	}
	keys, err := c08readNDJSON[c08Key](in + "/c08_keys.ndjson")
	if err != nil {
		t.Fatal(err)
	}
	fh, err := os.Create(out + "/c08_trace.ndjson")
	if err != nil {
		t.Fatal(err)
	}
	bw := bufio.NewWriterSize(fh, 1<<20)
	wd := newC08World(bw)
	wd.gets = withGets

	// ---- part 1: BFS over reachable states of the scope
	type st struct{ path []c08Op }
	stateKey := func() string { // contents by universe index
		objs := wd.cacheObjs()
		ks := make([]string, 0, len(objs))
		for _, o := range objs {
			if o < 0 {
				ks = append(ks, "?")
				continue
			}
			r := wd.recs[o]
			ks = append(ks, fmt.Sprint(r.Table, r.Start, r.Stop, r.ID))
		}
		sort.Strings(ks)
		return strings.Join(ks, "|")
	}
	replayPath := func(path []c08Op) map[int]int { // returns universe idx -> last obj created for it
		wd.reset(true)
		last := map[int]int{}
		for _, op := range path {
			if op.del {
				o, ok := last[op.u]
				if !ok {
					o = wd.newObj(universe[op.u])
				}
				wd.del(o)
			} else {
				o := wd.newObj(universe[op.u])
				last[op.u] = o
				wd.put(o)
			}
		}
		return last
	}
	seen := map[string]bool{"": true}
	queue := []st{{}}
	states, transitions := 0, 0
	for len(queue) > 0 && (maxStates == 0 || states < maxStates) {
		cur := queue[0]
		queue = queue[1:]
		states++
		if withGets {
			replayPath(cur.path)
			for _, k := range keys {
				wd.get(k.Table, k.Key)
			}
		}
		for u := range universe {
			for _, isDel := range []bool{false, true} {
				last := replayPath(cur.path)
				if isDel {
					// delete through the cached object if we have one, else through a twin object
					o, ok := last[u]
					if !ok {
						o = wd.newObj(universe[u])
					}
					wd.del(o)
				} else {
					wd.put(wd.newObj(universe[u]))
				}
				transitions++
				k := stateKey()
				if !seen[k] {
					seen[k] = true
					queue = append(queue, st{path: append(append([]c08Op{}, cur.path...), c08Op{isDel, u})})
				}
			}
		}
	}

	// ---- part 2: random walks, arbitrary bytes, many regions
	rng := rand.New(rand.NewSource(seed))
	tables := [][]byte{[]byte("t"), []byte("tt"), []byte("n:t"), []byte("t-")}
	alphabet := []byte{0, 1, '+', ',', '-', ':', 'a', 0xfe, 0xff}
	randKey := func() []byte {
		n := 1 + rng.Intn(4)
		b := make([]byte, n)
		for i := range b {
			if rng.Intn(4) == 0 {
				b[i] = byte(rng.Intn(256))
			} else {
				b[i] = alphabet[rng.Intn(len(alphabet))]
			}
		}
		return b
	}
	walkEvents := 0
	for wk := 0; wk < walks; wk++ {
		wd.reset(true)
		// boundary pools per table
		pools := make([][][]byte, len(tables))
		nb := 8 + rng.Intn(120)
		for ti := range tables {
			m := map[string]bool{}
			for len(m) < nb {
				m[string(randKey())] = true
			}
			var p [][]byte
			for k := range m {
				p = append(p, []byte(k))
			}
			sort.Slice(p, func(i, j int) bool { return string(p[i]) < string(p[j]) })
			pools[ti] = append([][]byte{{}}, p...) // index 0 = "" (unbounded start)
		}
		var live []int
		for step := 0; step < walkLen; step++ {
			switch x := rng.Intn(10); {
			case x < 7 || len(live) == 0:
				ti := rng.Intn(len(tables))
				if rng.Intn(3) > 0 {
					ti = 0
				}
				p := pools[ti]
				i := rng.Intn(len(p))
				span := 1
				if rng.Intn(4) == 0 {
					span += rng.Intn(6)
				}
				var stop []byte
				if i+span < len(p) {
					stop = p[i+span]
				}
				r := c08Rec{Table: c08ints(tables[ti]), Start: c08ints(p[i]), Stop: c08ints(stop), ID: 1000 + rng.Intn(40)}
				if rng.Intn(8) == 0 && len(live) > 0 { // re-discover a known region with a fresh object
					r = wd.recs[live[rng.Intn(len(live))]]
				}
				// names are unique in HBase: never reuse (table,start,id) with a different stop
				dup := false
				for _, o := range wd.recs {
					if fmt.Sprint(o.Table, o.Start, o.ID) == fmt.Sprint(r.Table, r.Start, r.ID) && fmt.Sprint(o.Stop) != fmt.Sprint(r.Stop) {
						dup = true
						break
					}
				}
				if dup {
					continue
				}
				o := wd.newObj(r)
				live = append(live, o)
				wd.put(o)
			case x < 9:
				wd.del(live[rng.Intn(len(live))])
			default:
			}
			if withGets {
				for g := 0; g < 3; g++ {
					ti := rng.Intn(len(tables))
					p := pools[ti]
					k := append([]byte{}, p[rng.Intn(len(p))]...)
					switch rng.Intn(4) {
					case 0:
						k = append(k, 0)
					case 1:
						if len(k) > 0 {
							k = k[:len(k)-1]
						}
					case 2:
						k = randKey()
					}
					wd.get(c08ints(tables[ti]), c08ints(k))
				}
			}
			walkEvents++
		}
	}
	bw.Flush()
	fh.Close()
	res := map[string]any{"events": wd.n, "bfs_states": states, "bfs_transitions": transitions, "bfs_complete": len(queue) == 0,
		"walks": walks, "walk_steps": walkEvents, "panic": wd.panic, "universe": len(universe)}
	rb, _ := json.Marshal(res)
	os.WriteFile(out+"/c08_result.json", rb, 0o644)
}
