package gohbase

// C08 at the level of the client: whatever the client does with the regions it
// has cached - route single calls and batches, scan forward and backward
// across their boundaries, re-establish them, learn their successors after
// splits and merges - the cache keeps holding regions exactly as the cluster
// defined them (name -> [start, stop)) and no two of them intersect. (The
// cache itself is driven exhaustively in c08.go; this is about its users.)

import (
	"bytes"
	"context"
	"fmt"
	"io"
	"os"
	"sort"
	"sync"
	"testing"
	"testing/synctest"
	"time"

	"github.com/tsuna/gohbase/hrpc"
	"github.com/tsuna/gohbase/internal/verifsim"
	"github.com/tsuna/gohbase/region"
)

func TestVerifC08Client(t *testing.T) {
	out := os.Getenv("VERIF_OUT")
	if out == "" {
		t.Skip("VERIF_OUT not set")
	}
	rep := &simReport{Extra: map[string]any{}}
	simOnStall("c08c_result.json", rep)
	defer simWriteReport("c08c_result.json", rep)
	for _, variant := range []string{"static", "split", "merge", "move"} {
		for _, q := range []int{1, 4} {
			name := fmt.Sprintf("%s/q=%d", variant, q)
			verifsim.Bubble(t, func(t *testing.T) {
				tr := &verifsim.Trace{}
				cl := verifsim.NewCluster(tr)
				for _, a := range []string{"ms", "rs1", "rs2"} {
					cl.AddServer(a)
				}
				cl.CreateTable("t", [][]byte{[]byte("foo"), []byte("p\x00")}, []string{"rs1", "rs2", "rs1"})
				cl.CreateTable("tt", [][]byte{[]byte("k")}, []string{"rs2"})
				for _, k := range []string{"a", "bar", "fon", "foo", "fop", "o\xff", "p\x00", "q", "zz"} {
					cl.PutRow("t", []byte(k), []verifsim.KV{{Row: []byte(k), Family: []byte("f"), Qualifier: []byte("q"), Timestamp: 1, Type: 4, Value: []byte("v")}})
				}
				c := newSimClient(cl, RpcQueueSize(q))
				step := 0
				check := func(after string) {
					synctest.Wait()
					step++
					cached := map[string]hrpc.RegionInfo{}
					c.regions.debugInfo(cached)
					var rs []hrpc.RegionInfo
					for _, r := range cached {
						rs = append(rs, r)
					}
					sort.Slice(rs, func(i, j int) bool { return bytes.Compare(rs[i].Name(), rs[j].Name()) < 0 })
					cl.Lock()
					defined := map[string]*verifsim.Region{}
					for _, r := range cl.Regions {
						defined[string(r.Name)] = r
					}
					cl.Unlock()
					for _, r := range rs {
						d := defined[string(r.Name())]
						if d == nil {
							rep.bad("cached-region-unknown-to-the-cluster", "%s after %s: the cache holds %q which the cluster never defined", name, after, r.Name())
							continue
						}
						if !bytes.Equal(r.StartKey(), d.Start) || !bytes.Equal(r.StopKey(), d.Stop) {
							rep.bad("cached-region-range-changed", "%s after %s: cached region %q has range [%q, %q), the cluster defined it as [%q, %q)",
								name, after, r.Name(), r.StartKey(), r.StopKey(), d.Start, d.Stop)
						}
					}
					// a lookup of a key inside a cached region that is the cluster's current region for that key finds that region
					for _, r := range rs {
						d := defined[string(r.Name())]
						if d == nil || !d.Online {
							continue
						}
						key := append(append([]byte{}, d.Start...), 1)
						if len(d.Stop) > 0 && bytes.Compare(key, d.Stop) >= 0 {
							key = append([]byte{}, d.Start...)
						}
						got := c.getRegionFromCache([]byte(d.Table), key)
						if got == nil || !bytes.Equal(got.Name(), r.Name()) {
							var gn []byte
							if got != nil {
								gn = got.Name()
							}
							rep.bad("cached-region-not-found-by-lookup", "%s after %s: %q is cached and is the cluster's region for key %q of table %q, but the cache lookup returns %q",
								name, after, r.Name(), key, d.Table, gn)
						}
					}
					for i := range rs {
						for j := i + 1; j < len(rs); j++ {
							a, b := rs[i], rs[j]
							if !bytes.Equal(a.Table(), b.Table()) || !bytes.Equal(a.Namespace(), b.Namespace()) {
								continue
							}
							if (len(b.StopKey()) == 0 || bytes.Compare(a.StartKey(), b.StopKey()) < 0) && (len(a.StopKey()) == 0 || bytes.Compare(a.StopKey(), b.StartKey()) > 0) {
								rep.bad("cached-regions-overlap", "%s after %s: the cache holds %q [%q,%q) and %q [%q,%q) which intersect", name, after,
									a.Name(), a.StartKey(), a.StopKey(), b.Name(), b.StartKey(), b.StopKey())
							}
						}
					}
					rep.Scenarios++
				}
				// (every request has a deadline: with a damaged cache a request may wait for ever - the cache is inspected all the same)
				get := func(table, k string) {
					ctx, cancel := context.WithTimeout(context.Background(), 2*time.Minute)
					defer cancel()
					g, _ := hrpc.NewGet(ctx, []byte(table), []byte(k))
					if _, err := c.Get(g); err != nil {
						rep.bad("request-failed", "%s: get %q failed: %v", name, k, err)
					}
				}
				scan := func(opts ...func(hrpc.Call) error) {
					start := ""
					if len(opts) > 0 {
						start = "zzzz" // a reversed scan starts from an explicit row, as the API documents
					}
					ctx, cancel := context.WithTimeout(context.Background(), 2*time.Minute)
					defer cancel()
					s, _ := hrpc.NewScanRangeStr(ctx, "t", start, "", append(opts, hrpc.NumberOfRows(2))...)
					sc := c.Scan(s)
					n := 0
					for n < 500 {
						_, err := sc.Next()
						if err == io.EOF {
							break
						}
						if err != nil {
							rep.bad("request-failed", "%s: scan failed: %v", name, err)
							break
						}
						n++
					}
					if n < 9 {
						rep.bad("harness:c08c-scan", "%s: a scan of the whole table returned %d rows, at least 9 are stored: it did not cross every region", name, n)
					}
				}
				batch := func(keys ...string) {
					ctx, cancel := context.WithTimeout(context.Background(), 2*time.Minute)
					defer cancel()
					var b []hrpc.Call
					for _, k := range keys {
						p, _ := hrpc.NewPut(ctx, []byte("t"), []byte(k+"-b"), map[string]map[string][]byte{"f": {"q": []byte("v")}})
						b = append(b, p)
					}
					c.SendBatch(ctx, b)
				}
				for _, k := range []string{"a", "fop", "q"} {
					get("t", k)
				}
				get("tt", "a")
				check("first use of every region")
				scan()
				check("a forward scan")
				scan(hrpc.Reversed())
				check("a reversed scan")
				scan(hrpc.Reversed())
				check("a second reversed scan")
				regs := cl.OnlineRegions("t")
				switch variant {
				case "split":
					cl.Split(regs[1], []byte("h"), "rs1", "rs2")
				case "merge":
					cl.Merge(regs[0], regs[1], "rs2")
				case "move":
					cl.Move(regs[2], "rs2")
				}
				for _, k := range []string{"fop", "a", "q", "o\xff", "foo"} {
					get("t", k)
				}
				batch("b", "g", "p\x00", "z")
				check("the layout change and more requests")
				scan(hrpc.Reversed())
				check("a reversed scan after the layout change")
				scan()
				get("tt", "z")
				check("a forward scan after the layout change")
				rep.Distinct++
				c.Close()
				time.Sleep(time.Minute)
				synctest.Wait()
				for _, a := range []string{"ms", "rs1", "rs2"} { // cut whatever connection a defective client leaves open
					cl.ResetConns(a)
				}
				time.Sleep(time.Minute)
				synctest.Wait()
			})
		}
	}
	// ---- the cache under concurrent users (run under the race detector): establishers put newer regions over older ones,
	// others delete regions of a dropped table, requests look keys up - all at once, as they do when a table is dropped or a
	// server restarts. Afterwards the cache holds no two intersecting regions; an unsynchronised access shows as a race.
	func() {
		c := newClient("zk.invalid:2181", Logger(discardLogger))
		defer c.Close()
		mk := func(table string, slot, id int) hrpc.RegionInfo {
			start, stop := []byte{byte('a' + slot)}, []byte{byte('a' + slot + 1)}
			name := []byte(fmt.Sprintf("%s,%s,%d", table, start, id))
			return region.NewInfo(uint64(id), nil, []byte(table), name, start, stop)
		}
		var wg sync.WaitGroup
		for g := 0; g < 8; g++ {
			wg.Add(1)
			go func() {
				defer wg.Done()
				for i := 0; i < 400; i++ {
					slot := (g*7 + i) % 20
					switch (g + i) % 4 {
					case 0, 1:
						c.regions.put(mk("t", slot, 1000+i))
					case 2:
						c.regions.del(mk("t", slot, 1000+i-1))
						c.regions.del(mk("dropped", slot, 1))
					case 3:
						c.regions.get(createRegionSearchKey([]byte("t"), []byte{byte('a' + slot), 'x'}))
					}
					if i%5 == 0 {
						c.regions.put(mk("dropped", slot, 1))
					}
				}
			}()
		}
		wg.Wait()
		var cached []hrpc.RegionInfo
		enum, err := c.regions.regions.SeekFirst()
		for err == nil {
			var r hrpc.RegionInfo
			_, r, err = enum.Next()
			if err == nil {
				cached = append(cached, r)
			}
		}
		rep.Scenarios++
		rep.Distinct++
		for i, a := range cached {
			for _, b := range cached[i+1:] {
				if bytes.Equal(a.Table(), b.Table()) && bytes.Compare(a.StartKey(), b.StopKey()) < 0 && bytes.Compare(b.StartKey(), a.StopKey()) < 0 {
					rep.bad("cached-regions-overlap", "concurrent users: the cache holds %q and %q which intersect", a.Name(), b.Name())
				}
			}
		}
	}()
	// ---- several establishers publish what they found at the same instant: generations of one range (a region closed and
	// reopened several times while lookups were under way), or a parent and its daughters. Whatever the order in which the
	// puts take effect, afterwards the cache holds no two intersecting regions and the newest generation is the one that
	// stayed; a region that lost its place is dead.
	func() {
		c := newClient("zk.invalid:2181", Logger(discardLogger))
		defer c.Close()
		mkr := func(start, stop string, id int) hrpc.RegionInfo {
			name := []byte(fmt.Sprintf("t,%s,%d", start, id))
			return region.NewInfo(uint64(id), nil, []byte("t"), name, []byte(start), []byte(stop))
		}
		rounds := 3000
		for round := 0; round < rounds && len(rep.Violations) < 5; round++ {
			base := 10 * (round + 1)
			var regs []hrpc.RegionInfo
			if round%2 == 0 {
				for k := 1; k <= 8; k++ {
					regs = append(regs, mkr("b", "f", base+k))
				}
			} else { // a parent, its daughters, their daughters - and one more generation of the parent's range
				regs = []hrpc.RegionInfo{mkr("b", "f", base+1), mkr("b", "d", base+2), mkr("d", "f", base+3), mkr("b", "c", base+4),
					mkr("c", "d", base+5), mkr("b", "f", base+6), mkr("d", "e", base+7), mkr("e", "f", base+8)}
			}
			start := make(chan struct{})
			var wg sync.WaitGroup
			for _, r := range regs {
				wg.Add(1)
				go func() {
					defer wg.Done()
					<-start
					c.regions.put(r)
				}()
			}
			close(start)
			wg.Wait()
			var cached []hrpc.RegionInfo
			enum, err := c.regions.regions.SeekFirst()
			for err == nil {
				var r hrpc.RegionInfo
				_, r, err = enum.Next()
				if err == nil {
					cached = append(cached, r)
				}
			}
			for i, a := range cached {
				for _, b := range cached[i+1:] {
					if bytes.Compare(a.StartKey(), b.StopKey()) < 0 && bytes.Compare(b.StartKey(), a.StopKey()) < 0 {
						rep.bad("cached-regions-overlap", "simultaneous puts, round %d: the cache holds %q [%q,%q) and %q [%q,%q) which intersect",
							round, a.Name(), a.StartKey(), a.StopKey(), b.Name(), b.StartKey(), b.StopKey())
					}
				}
			}
			if round%2 == 0 && (len(cached) != 1 || cached[0].ID() != uint64(base+8)) {
				var ids []uint64
				for _, r := range cached {
					ids = append(ids, r.ID())
				}
				rep.bad("older-region-survived", "simultaneous puts, round %d: generations %d..%d of one range were put at the same time and the cache is left with %v "+
					"(the newest, %d, must be the one that stays)", round, base+1, base+8, ids, base+8)
			}
			for _, r := range cached { // the next round starts from an empty cache
				c.regions.del(r)
			}
		}
		rep.Scenarios++
		rep.Distinct++
	}()
}
