package verifsim

// Stall guard: a scenario that runs inside a testing/synctest bubble cannot
// time out by itself when a goroutine of the client blocks for ever on a
// sync.Mutex (such a goroutine is not "durably blocked": virtual time stops,
// the scenario simply never ends). Bubble() runs a scenario with a REAL-time
// limit; when it is exceeded the stacks of all goroutines are saved to
// $VERIF_OUT/stall.txt, the registered report writers run (so that what was
// found so far is not lost) and the process exits with code 3. The Python
// side decides from the stacks whether the client dead-locked (a verdict) or
// the harness parked something where it must not (exit 2).

import (
	"encoding/json"
	"strings"
	"fmt"
	"os"
	"runtime"
	"sync"
	"testing"
	"testing/synctest"
	"time"
)

var stall struct {
	mu      sync.Mutex
	timer   *time.Timer
	writers []func()
	n       int
	verdict *[2]string
	armed   *[2]string
}

// StallLimit is the real time one scenario may take.
var StallLimit = func() time.Duration {
	if v, err := time.ParseDuration(os.Getenv("VERIF_STALL")); err == nil && v > 0 {
		return v
	}
	return 150 * time.Second
}()

// SetStallVerdict: a driver that has already observed a violation which may keep the scenario from ever ending (a retry loop
// that spins without letting virtual time advance) leaves its verdict here; if the scenario then stalls, it is what the
// check reports.
func SetStallVerdict(sig, desc string) {
	stall.mu.Lock()
	if stall.verdict == nil {
		stall.verdict = &[2]string{sig, desc}
	}
	stall.mu.Unlock()
}

// ArmStallVerdict: a driver about to do the one thing whose failure mode is "the client spins / blocks and the scenario never
// ends" (end a context and expect the call back, close a client and expect everything to stop) says so; DisarmStallVerdict
// when it got past that point. An armed verdict takes precedence over SetStallVerdict's.
func ArmStallVerdict(sig, desc string) {
	stall.mu.Lock()
	stall.armed = &[2]string{sig, desc}
	stall.mu.Unlock()
}

func DisarmStallVerdict() {
	stall.mu.Lock()
	stall.armed = nil
	stall.mu.Unlock()
}

// OnStall registers a function that saves a driver's partial report.
func OnStall(f func()) {
	stall.mu.Lock()
	stall.writers = append(stall.writers, f)
	stall.mu.Unlock()
}

// Bubble is synctest.Test under the stall guard.
func Bubble(t *testing.T, f func(t *testing.T)) {
	stall.mu.Lock()
	stall.n++
	stall.armed = nil
	n := stall.n
	stall.timer = time.AfterFunc(StallLimit, func() { stalled(n) })
	tm := stall.timer
	stall.mu.Unlock()
	defer func() {
		// "deadlock: main bubble goroutine has exited but blocked goroutines remain": goroutines that never end keep the
		// bubble from ending (and kill the test process, with everything the driver found). If the driver has already
		// recorded a violation (or armed a verdict), that is what gets reported; otherwise the panic goes on (exit 2).
		if r := recover(); r != nil {
			stall.mu.Lock()
			has := stall.verdict != nil || stall.armed != nil
			stall.mu.Unlock()
			if msg := fmt.Sprint(r); has && strings.Contains(msg, "deadlock:") {
				stalledBecause(n, "the bubble could not end: "+msg)
			}
			panic(r)
		}
	}()
	synctest.Test(t, f)
	tm.Stop()
}

func stalled(n int) {
	stalledBecause(n, fmt.Sprintf("did not end within %v of real time", StallLimit))
}

func stalledBecause(n int, why string) {
	stall.mu.Lock()
	cur := stall.n
	ws := append([]func(){}, stall.writers...)
	verdict := stall.verdict
	if stall.armed != nil {
		verdict = stall.armed
	}
	stall.mu.Unlock()
	if cur != n {
		return // that scenario ended in the meantime
	}
	buf := make([]byte, 64<<20)
	buf = buf[:runtime.Stack(buf, true)]
	if dir := os.Getenv("VERIF_OUT"); dir != "" {
		os.WriteFile(dir+"/stall.txt", append([]byte(fmt.Sprintf("scenario #%d %s\n\n", n, why)), buf...), 0o644)
	}
	if dir := os.Getenv("VERIF_OUT"); dir != "" && verdict != nil {
		b, _ := json.Marshal(map[string]string{"sig": verdict[0], "desc": verdict[1]})
		os.WriteFile(dir+"/stall_verdict.json", b, 0o644)
	}
	for _, w := range ws {
		func() {
			defer func() { recover() }()
			w()
		}()
	}
	os.Exit(3)
}
