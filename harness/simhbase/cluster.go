package verifsim

import (
	"bytes"
	"context"
	"encoding/binary"
	"errors"
	"fmt"
	"net"
	"sort"
	"strconv"
	"strings"
	"sync"

	"github.com/tsuna/gohbase/pb"
	"google.golang.org/protobuf/proto"
)

// Java class names used by the simulated cluster.
const (
	ExcNotServing     = "org.apache.hadoop.hbase.NotServingRegionException"
	ExcRegionMoved    = "org.apache.hadoop.hbase.exceptions.RegionMovedException"
	ExcRegionOpening  = "org.apache.hadoop.hbase.exceptions.RegionOpeningException"
	ExcTooBusy        = "org.apache.hadoop.hbase.RegionTooBusyException"
	ExcQueueTooBig    = "org.apache.hadoop.hbase.CallQueueTooBigException"
	ExcThrottling     = "org.apache.hadoop.hbase.quotas.RpcThrottlingException"
	ExcAborted        = "org.apache.hadoop.hbase.regionserver.RegionServerAbortedException"
	ExcStopped        = "org.apache.hadoop.hbase.regionserver.RegionServerStoppedException"
	ExcWrongRegion    = "org.apache.hadoop.hbase.regionserver.WrongRegionException"
	ExcDoNotRetry     = "org.apache.hadoop.hbase.DoNotRetryIOException"
	ExcUnknownScanner = "org.apache.hadoop.hbase.UnknownScannerException"
	ExcNoSuchCF       = "org.apache.hadoop.hbase.regionserver.NoSuchColumnFamilyException"
)

// Region is one region of the simulated cluster.
type Region struct {
	Table string // fully qualified
	Start []byte
	Stop  []byte
	ID    uint64
	Name  []byte
	Host  string
	// MetaHost, if non-empty, is what hbase:meta still reports while a move is in progress (the region is served at Host)
	MetaHost    string
	ReplicaHost string // non-empty: hbase:meta lists a secondary replica of the region there (info:server_0001 ...)
	Online      bool   // false: split/merged away or table dropped
	// transient unavailability: the next Flaps requests get exception FlapClass
	Flaps     int
	FlapClass string
}

func (r *Region) String() string {
	return fmt.Sprintf("%s[%q,%q)#%d@%s", r.Table, r.Start, r.Stop, r.ID, r.Host)
}

// Contains reports whether key lies in [Start, Stop).
func (r *Region) Contains(key []byte) bool {
	return bytes.Compare(r.Start, key) <= 0 && (len(r.Stop) == 0 || bytes.Compare(key, r.Stop) < 0)
}

// Row is one stored row: cells sorted by (family, qualifier).
type Row struct {
	Key   []byte
	Cells []KV
}

// Table is the data of one table.
type Table struct {
	Name string
	Rows map[string]*Row
}

// SortedKeys returns the row keys in byte order.
func (t *Table) SortedKeys() [][]byte {
	ks := make([][]byte, 0, len(t.Rows))
	for k := range t.Rows {
		ks = append(ks, []byte(k))
	}
	sort.Slice(ks, func(i, j int) bool { return bytes.Compare(ks[i], ks[j]) < 0 })
	return ks
}

// Directive is what a Rule tells the server to do with a request.
type Directive struct {
	Exc    string // answer with this Java exception class
	Stack  string
	Drop   bool          // close the connection instead of answering
	Silent bool          // never answer
	Hold   chan struct{} // answer only after this is closed
	Pass   bool          // explicitly do nothing special
}

// Rule lets a test override the behaviour for matching requests.
type Rule func(c *Cluster, rs *RS, sc *ServerConn, req *Request, regionName []byte) *Directive

// RS is one regionserver (or master) address.
type RS struct {
	Addr         string
	Up           bool
	RefuseDial   bool // dial attempts fail
	DropOnAccept bool // accepts, then closes at once
	conns        []*ServerConn
	Dials        int
	Accepts      int
}

// Cluster is the simulated HBase cluster.
type Cluster struct {
	mu       sync.Mutex
	Trace    *Trace
	Tables   map[string]*Table
	Regions  []*Region
	Servers  map[string]*RS
	MetaAddr string
	Rules    []Rule
	nextID   uint64
	nextConn int
	scanners map[uint64]*regionScanner
	nextScan uint64
	// ScanChunker decides how a scan response is cut (nil: everything at once).
	ScanChunker func(sc *ScanCtx) ScanCut
	// ZKErr, if set, is returned by ZKLocate.
	ZKErr  error
	ZKHold chan struct{}
	ZKMark func()
	// InCellblock: put result cells in the cellblock (true) or inline in protobuf (false).
	InCellblock bool
	// DialHook, if set, is called before a dial is processed (may block: a slow connect).
	DialHook func(addr string)
	// ConnHook is installed on the client end of every new connection.
	ConnHook Hook
	// ActionHook, if set, is asked before every get / mutation (single or inside a multi) is executed; it returns a
	// Java exception class to answer with, "" to execute, or "DROP" to cut the connection without answering.
	// It is called with the cluster lock held and must not call back into the cluster.
	ActionHook func(rs *RS, r *Region, op string, row []byte) string
	// ZeroScanID: the first region scanner opened on a user table gets the id 0
	ZeroScanID   bool
	zeroScanUsed bool
	// the master (MasterService for the admin client) lives at MasterAddr; ZooKeeper names it for the "master" resource
	MasterAddr  string
	ProcPolls   int    // polls answered RUNNING before a procedure is FINISHED
	ProcOutcome string // "" = success, "exception" = finished with an exception
	procs       map[uint64]int
	nextProc    uint64
	// Mangle, if set, may rewrite a response (message and cellblock) just before it is sent: the means to make an otherwise
	// healthy server answer one request with something malformed.
	Mangle func(rs *RS, req *Request, resp *Response)
	// MetaMode: "" normal, "silent" (meta scans are never answered), "empty" (meta knows no region)
	MetaMode string
	Execs    []Exec
}

// Exec records one operation executed against the data.
type Exec struct {
	Op     string
	Table  string
	Row    string
	Region string
	Server string
	Seq    int
}

// NewCluster makes an empty cluster.
func NewCluster(tr *Trace) *Cluster {
	return &Cluster{Trace: tr, Tables: map[string]*Table{}, Servers: map[string]*RS{}, nextID: 1000,
		scanners: map[uint64]*regionScanner{}, nextScan: 1, InCellblock: true}
}

// Lock / Unlock expose the cluster mutex for compound test operations.
func (c *Cluster) Lock()   { c.mu.Lock() }
func (c *Cluster) Unlock() { c.mu.Unlock() }

// AddServer registers a server address (up).
func (c *Cluster) AddServer(addr string) *RS {
	c.mu.Lock()
	defer c.mu.Unlock()
	rs := &RS{Addr: addr, Up: true}
	c.Servers[addr] = rs
	if c.MetaAddr == "" {
		c.MetaAddr = addr
	}
	return rs
}

// RegionName builds "table,start,id." the way HBase does (without the md5 suffix for odd ids, with one for even ids).
func RegionName(table string, start []byte, id uint64) []byte {
	n := append([]byte(table), ',')
	n = append(n, start...)
	n = append(n, ',')
	n = append(n, []byte(strconv.FormatUint(id, 10))...)
	if id%2 == 0 {
		n = append(n, []byte(".0f3a5c.")...)
	}
	return n
}

// CreateTable creates a table pre-split at the given keys; hosts are assigned round-robin.
func (c *Cluster) CreateTable(table string, splits [][]byte, hosts []string) []*Region {
	c.mu.Lock()
	defer c.mu.Unlock()
	c.Tables[table] = &Table{Name: table, Rows: map[string]*Row{}}
	bounds := append([][]byte{{}}, splits...)
	var out []*Region
	for i, s := range bounds {
		var stop []byte
		if i+1 < len(bounds) {
			stop = bounds[i+1]
		}
		c.nextID++
		r := &Region{Table: table, Start: s, Stop: stop, ID: c.nextID, Host: hosts[i%len(hosts)], Online: true}
		r.Name = RegionName(table, s, r.ID)
		c.Regions = append(c.Regions, r)
		out = append(out, r)
	}
	c.Trace.Emit("layout", "table", table, "regions", c.layoutLocked(table))
	return out
}

func (c *Cluster) layoutLocked(table string) []map[string]any {
	var out []map[string]any
	for _, r := range c.Regions {
		if r.Online && r.Table == table {
			out = append(out, map[string]any{"name": string(r.Name), "start": Bytes(r.Start), "stop": Bytes(r.Stop), "id": int(r.ID), "host": r.Host})
		}
	}
	return out
}

// OnlineRegions returns the current regions of a table in key order.
func (c *Cluster) OnlineRegions(table string) []*Region {
	c.mu.Lock()
	defer c.mu.Unlock()
	return c.onlineLocked(table)
}

func (c *Cluster) onlineLocked(table string) []*Region {
	var out []*Region
	for _, r := range c.Regions {
		if r.Online && r.Table == table {
			out = append(out, r)
		}
	}
	sort.Slice(out, func(i, j int) bool { return bytes.Compare(out[i].Start, out[j].Start) < 0 })
	return out
}

// RegionFor returns the online region owning key.
func (c *Cluster) RegionFor(table string, key []byte) *Region {
	c.mu.Lock()
	defer c.mu.Unlock()
	for _, r := range c.Regions {
		if r.Online && r.Table == table && r.Contains(key) {
			return r
		}
	}
	return nil
}

// PutRow stores cells directly (test set-up).
func (c *Cluster) PutRow(table string, key []byte, cells []KV) {
	c.mu.Lock()
	defer c.mu.Unlock()
	c.Tables[table].Rows[string(key)] = &Row{Key: key, Cells: cells}
}

// ---- cluster events ------------------------------------------------------

// MoveSlowly starts serving the region at host but leaves hbase:meta pointing at the old server until MetaCatchUp.
func (c *Cluster) MoveSlowly(r *Region, host string) {
	c.mu.Lock()
	if r.MetaHost == "" {
		r.MetaHost = r.Host
	}
	r.Host = host
	c.mu.Unlock()
	c.Trace.Emit("event", "what", "moveslowly", "region", string(r.Name), "to", host)
}

// MetaCatchUp makes hbase:meta report the current server of every region.
func (c *Cluster) MetaCatchUp() {
	c.mu.Lock()
	for _, r := range c.Regions {
		r.MetaHost = ""
	}
	c.mu.Unlock()
	c.Trace.Emit("event", "what", "metacatchup")
}

// Move moves a region to another server.
func (c *Cluster) Move(r *Region, host string) {
	c.mu.Lock()
	r.Host = host
	c.mu.Unlock()
	c.Trace.Emit("event", "what", "move", "region", string(r.Name), "to", host)
}

// Split replaces r by two daughters at key.
func (c *Cluster) Split(r *Region, key []byte, hostA, hostB string) (*Region, *Region) {
	c.mu.Lock()
	defer c.mu.Unlock()
	r.Online = false
	c.nextID++
	a := &Region{Table: r.Table, Start: r.Start, Stop: key, ID: c.nextID, Host: hostA, Online: true}
	a.Name = RegionName(r.Table, a.Start, a.ID)
	b := &Region{Table: r.Table, Start: key, Stop: r.Stop, ID: c.nextID, Host: hostB, Online: true}
	b.Name = RegionName(r.Table, b.Start, b.ID)
	c.Regions = append(c.Regions, a, b)
	c.Trace.Emit("event", "what", "split", "region", string(r.Name), "at", Bytes(key))
	return a, b
}

// Merge replaces adjacent a, b by one region.
func (c *Cluster) Merge(a, b *Region, host string) *Region {
	c.mu.Lock()
	defer c.mu.Unlock()
	a.Online, b.Online = false, false
	c.nextID++
	m := &Region{Table: a.Table, Start: a.Start, Stop: b.Stop, ID: c.nextID, Host: host, Online: true}
	m.Name = RegionName(a.Table, m.Start, m.ID)
	c.Regions = append(c.Regions, m)
	c.Trace.Emit("event", "what", "merge", "a", string(a.Name), "b", string(b.Name))
	return m
}

// Flap makes the next n requests to r fail with class.
func (c *Cluster) Flap(r *Region, class string, n int) {
	c.mu.Lock()
	r.Flaps, r.FlapClass = n, class
	c.mu.Unlock()
	c.Trace.Emit("event", "what", "flap", "region", string(r.Name), "class", class, "n", n)
}

// StopServer takes a server down: its connections are cut; dials fail until StartServer.
func (c *Cluster) StopServer(addr string) {
	c.mu.Lock()
	rs := c.Servers[addr]
	rs.Up = false
	conns := rs.conns
	rs.conns = nil
	c.mu.Unlock()
	for _, sc := range conns {
		sc.C.Break()
	}
	c.Trace.Emit("event", "what", "stop", "server", addr)
}

// StartServer brings a server back.
func (c *Cluster) StartServer(addr string) {
	c.mu.Lock()
	c.Servers[addr].Up = true
	c.mu.Unlock()
	c.Trace.Emit("event", "what", "start", "server", addr)
}

// ResetConns cuts every connection to addr but keeps the server up.
func (c *Cluster) ResetConns(addr string) {
	c.mu.Lock()
	rs := c.Servers[addr]
	conns := rs.conns
	rs.conns = nil
	c.mu.Unlock()
	for _, sc := range conns {
		sc.C.Break()
	}
	c.Trace.Emit("event", "what", "reset", "server", addr)
}

// MoveMeta relocates hbase:meta.
func (c *Cluster) MoveMeta(addr string) {
	c.mu.Lock()
	c.MetaAddr = addr
	c.mu.Unlock()
	c.Trace.Emit("event", "what", "metamove", "to", addr)
}

// DropTable removes a table and its regions.
func (c *Cluster) DropTable(table string) {
	c.mu.Lock()
	for _, r := range c.Regions {
		if r.Table == table {
			r.Online = false
		}
	}
	delete(c.Tables, table)
	c.mu.Unlock()
	c.Trace.Emit("event", "what", "drop", "table", table)
}

// OpenConns returns how many server-side connections of addr are still open.
func (c *Cluster) OpenConns(addr string) int {
	c.mu.Lock()
	defer c.mu.Unlock()
	n := 0
	for _, sc := range c.Servers[addr].conns {
		select {
		case <-sc.Ended():
		default:
			n++
		}
	}
	return n
}

// DialCount returns the number of dial attempts to addr.
func (c *Cluster) DialCount(addr string) int {
	c.mu.Lock()
	defer c.mu.Unlock()
	if rs := c.Servers[addr]; rs != nil {
		return rs.Dials
	}
	return 0
}

// OpenScanners returns the ids of region scanners still open on the servers.
func (c *Cluster) OpenScanners() []uint64 {
	c.mu.Lock()
	defer c.mu.Unlock()
	var out []uint64
	for id := range c.scanners {
		out = append(out, id)
	}
	sort.Slice(out, func(i, j int) bool { return out[i] < out[j] })
	return out
}

// ---- dialing -------------------------------------------------------------

var errRefused = errors.New("connection refused (simulated)")

// Dial is a RegionDialer.
func (c *Cluster) Dial(ctx context.Context, network, addr string) (net.Conn, error) {
	if h := c.DialHook; h != nil {
		h(addr)
	}
	if err := ctx.Err(); err != nil {
		return nil, err
	}
	c.mu.Lock()
	rs := c.Servers[addr]
	if rs == nil {
		// (host names are resolved as DNS resolves them: case does not matter to the network, whatever it means to the client)
		for a, s := range c.Servers {
			if strings.EqualFold(a, addr) {
				rs, addr = s, a
			}
		}
	}
	if rs == nil {
		c.mu.Unlock()
		c.Trace.Emit("dial", "addr", addr, "ok", false)
		return nil, fmt.Errorf("no such host %q (simulated)", addr)
	}
	rs.Dials++
	if !rs.Up || rs.RefuseDial {
		c.mu.Unlock()
		c.Trace.Emit("dial", "addr", addr, "ok", false)
		return nil, errRefused
	}
	rs.Accepts++
	c.nextConn++
	id := c.nextConn
	drop := rs.DropOnAccept
	c.mu.Unlock()
	cli, srv := Pipe(fmt.Sprintf("client#%d", id), addr)
	if c.ConnHook != nil {
		cli.SetHook(c.ConnHook)
	}
	cli.OnClose = func() { c.Trace.Emit("connClosed", "conn", id, "addr", addr) }
	c.Trace.Emit("dial", "addr", addr, "ok", true, "conn", id)
	if drop {
		srv.Close()
		return cli, nil
	}
	sc := Serve(srv, addr, id, HandlerFunc(func(sc *ServerConn, req *Request) { c.handle(rs, sc, req) }), c.Trace)
	c.mu.Lock()
	rs.conns = append(rs.conns, sc)
	c.mu.Unlock()
	return cli, nil
}

// ZKLocate answers the two ZooKeeper lookups (meta location, master location).
func (c *Cluster) ZKLocate(resource string) (string, error) {
	c.Trace.Emit("zk", "resource", resource)
	if m := c.ZKMark; m != nil {
		m()
	}
	if h := c.ZKHold; h != nil {
		<-h
	}
	c.mu.Lock()
	defer c.mu.Unlock()
	if c.ZKErr != nil {
		return "", c.ZKErr
	}
	if strings.Contains(resource, "master") && c.MasterAddr != "" {
		return c.MasterAddr, nil
	}
	return c.MetaAddr, nil
}

// ---- request handling ----------------------------------------------------

func regionOf(req *Request) []byte {
	switch p := req.Param.(type) {
	case *pb.GetRequest:
		return p.GetRegion().GetValue()
	case *pb.MutateRequest:
		return p.GetRegion().GetValue()
	case *pb.ScanRequest:
		return p.GetRegion().GetValue()
	}
	return nil
}

func (c *Cluster) findRegionLocked(name []byte) *Region {
	for _, r := range c.Regions {
		if bytes.Equal(r.Name, name) {
			return r
		}
	}
	return nil
}

// regionProblem decides whether rs may serve region `name` now; returns exception class or "".
func (c *Cluster) regionProblemLocked(rs *RS, name []byte) (*Region, string) {
	if bytes.Equal(name, []byte("hbase:meta,,1")) {
		if c.MetaAddr != rs.Addr {
			return nil, ExcNotServing
		}
		return nil, ""
	}
	r := c.findRegionLocked(name)
	if r == nil || !r.Online || r.Host != rs.Addr {
		return r, ExcNotServing
	}
	if r.Flaps > 0 {
		r.Flaps--
		return r, r.FlapClass
	}
	return r, ""
}

func (c *Cluster) handle(rs *RS, sc *ServerConn, req *Request) {
	name := regionOf(req)
	c.Trace.Emit("req", "conn", sc.ID, "addr", rs.Addr, "id", int(req.CallID), "method", req.Method, "region", string(name), "prio", int(req.Priority),
		"row", string(RowOf(req)), "probe", IsProbe(req))
	c.mu.Lock()
	rules := c.Rules
	c.mu.Unlock()
	for _, rule := range rules {
		if d := rule(c, rs, sc, req, name); d != nil {
			if d.Pass {
				break
			}
			if d.Hold != nil {
				hold := d.Hold
				go func() {
					<-hold
					c.serve(rs, sc, req, name)
				}()
				return
			}
			if d.Silent {
				c.Trace.Emit("silent", "conn", sc.ID, "id", int(req.CallID))
				return
			}
			if d.Drop {
				c.Trace.Emit("drop", "conn", sc.ID, "id", int(req.CallID))
				sc.C.Break()
				return
			}
			if d.Exc != "" {
				c.Trace.Emit("resp", "conn", sc.ID, "id", int(req.CallID), "exc", d.Exc)
				sc.SendException(req.CallID, d.Exc, d.Stack)
				return
			}
		}
	}
	c.serve(rs, sc, req, name)
}

func (c *Cluster) serve(rs *RS, sc *ServerConn, req *Request, name []byte) {
	switch p := req.Param.(type) {
	case *pb.GetRequest:
		c.mu.Lock()
		r, prob := c.regionProblemLocked(rs, name)
		if prob != "" {
			c.mu.Unlock()
			c.sendExc(sc, req, prob)
			return
		}
		res, exc := c.doGetLocked(rs, r, p.GetGet())
		c.mu.Unlock()
		if exc == "DROP" {
			c.Trace.Emit("drop", "conn", sc.ID, "id", int(req.CallID))
			sc.C.Break()
			return
		}
		if exc != "" {
			c.sendExc(sc, req, exc)
			return
		}
		var cb []byte
		msg := &pb.GetResponse{Result: c.resultMsg(res, p.GetGet().GetExistenceOnly(), &cb)}
		c.Trace.Emit("resp", "conn", sc.ID, "id", int(req.CallID), "exc", "")
		c.send(sc, req, Response{CallID: req.CallID, Msg: msg, CellBlock: cb})
	case *pb.MutateRequest:
		c.mu.Lock()
		r, prob := c.regionProblemLocked(rs, name)
		if prob != "" {
			c.mu.Unlock()
			c.sendExc(sc, req, prob)
			return
		}
		kvs, _ := DecodeKVs(req.CellBlock)
		res, processed, exc, _ := c.doMutateLocked(rs, r, p.GetMutation(), p.GetCondition(), kvs)
		c.mu.Unlock()
		if exc == "DROP" {
			c.Trace.Emit("drop", "conn", sc.ID, "id", int(req.CallID))
			sc.C.Break()
			return
		}
		if exc != "" {
			c.sendExc(sc, req, exc)
			return
		}
		var cb []byte
		msg := &pb.MutateResponse{Processed: proto.Bool(processed)}
		if res != nil {
			msg.Result = c.resultMsg(res, false, &cb)
		}
		c.Trace.Emit("resp", "conn", sc.ID, "id", int(req.CallID), "exc", "")
		c.send(sc, req, Response{CallID: req.CallID, Msg: msg, CellBlock: cb})
	case *pb.MultiRequest:
		c.serveMulti(rs, sc, req, p)
	case *pb.ScanRequest:
		c.serveScan(rs, sc, req, p, name)
	default:
		c.serveMaster(rs, sc, req)
	}
}

// ForgetProcs makes the master forget every procedure (as after a master restart): polls are answered NOT_FOUND.
func (c *Cluster) ForgetProcs() {
	c.mu.Lock()
	c.procs = map[uint64]int{}
	c.mu.Unlock()
}

// serveMaster: the few MasterService calls of the admin client. Table operations are procedures: the answer carries a
// procedure id; getProcedureResult says RUNNING for ProcPolls polls, then FINISHED (or what ProcOutcome says).
func (c *Cluster) serveMaster(rs *RS, sc *ServerConn, req *Request) {
	c.mu.Lock()
	isMaster := rs.Addr == c.MasterAddr
	c.mu.Unlock()
	if !isMaster {
		c.sendExc(sc, req, "org.apache.hadoop.hbase.ipc.UnknownServiceException")
		return
	}
	newProc := func() uint64 {
		c.mu.Lock()
		defer c.mu.Unlock()
		c.nextProc++
		if c.procs == nil {
			c.procs = map[uint64]int{}
		}
		c.procs[c.nextProc] = 0
		return c.nextProc
	}
	var msg proto.Message
	switch p := req.Param.(type) {
	case *pb.GetClusterStatusRequest:
		msg = &pb.GetClusterStatusResponse{ClusterStatus: &pb.ClusterStatus{}}
	case *pb.CreateTableRequest:
		msg = &pb.CreateTableResponse{ProcId: proto.Uint64(newProc())}
	case *pb.DeleteTableRequest:
		msg = &pb.DeleteTableResponse{ProcId: proto.Uint64(newProc())}
	case *pb.EnableTableRequest:
		msg = &pb.EnableTableResponse{ProcId: proto.Uint64(newProc())}
	case *pb.DisableTableRequest:
		msg = &pb.DisableTableResponse{ProcId: proto.Uint64(newProc())}
	case *pb.GetProcedureResultRequest:
		c.mu.Lock()
		n, ok := c.procs[p.GetProcId()]
		if ok {
			c.procs[p.GetProcId()] = n + 1
		}
		polls, outcome := c.ProcPolls, c.ProcOutcome
		c.mu.Unlock()
		c.Trace.Emit("procPoll", "proc", int(p.GetProcId()), "n", n+1)
		switch {
		case !ok:
			msg = &pb.GetProcedureResultResponse{State: pb.GetProcedureResultResponse_NOT_FOUND.Enum()}
		case n < polls:
			msg = &pb.GetProcedureResultResponse{State: pb.GetProcedureResultResponse_RUNNING.Enum()}
		case outcome == "exception":
			msg = &pb.GetProcedureResultResponse{State: pb.GetProcedureResultResponse_FINISHED.Enum(),
				Exception: &pb.ForeignExceptionMessage{GenericException: &pb.GenericExceptionMessage{ClassName: proto.String("org.apache.hadoop.hbase.TableExistsException"), Message: proto.String("simulated")}}}
		default:
			msg = &pb.GetProcedureResultResponse{State: pb.GetProcedureResultResponse_FINISHED.Enum()}
		}
	case *pb.GetTableNamesRequest:
		r := &pb.GetTableNamesResponse{}
		c.mu.Lock()
		seen := map[string]bool{}
		for _, reg := range c.Regions {
			if !seen[reg.Table] {
				seen[reg.Table] = true
				r.TableNames = append(r.TableNames, &pb.TableName{Namespace: []byte("default"), Qualifier: []byte(reg.Table)})
			}
		}
		c.mu.Unlock()
		msg = r
	case *pb.MoveRegionRequest:
		msg = &pb.MoveRegionResponse{}
	case *pb.SetBalancerRunningRequest:
		msg = &pb.SetBalancerRunningResponse{PrevBalanceValue: proto.Bool(true)}
	default:
		c.sendExc(sc, req, ExcDoNotRetry)
		return
	}
	c.Trace.Emit("resp", "conn", sc.ID, "id", int(req.CallID), "exc", "")
	c.send(sc, req, Response{CallID: req.CallID, Msg: msg})
}

func (c *Cluster) send(sc *ServerConn, req *Request, resp Response) {
	c.mu.Lock()
	m, rs := c.Mangle, c.Servers[sc.Addr]
	c.mu.Unlock()
	if m != nil {
		m(rs, req, &resp)
	}
	sc.Send(resp)
}

func (c *Cluster) sendExc(sc *ServerConn, req *Request, class string) {
	c.Trace.Emit("resp", "conn", sc.ID, "id", int(req.CallID), "exc", class)
	sc.SendException(req.CallID, class, "simulated "+class)
}

func (c *Cluster) resultMsg(kvs []KV, existsOnly bool, cb *[]byte) *pb.Result {
	if existsOnly {
		return &pb.Result{Exists: proto.Bool(len(kvs) > 0)}
	}
	return ResultMsg(kvs, c.InCellblock, cb)
}

func (c *Cluster) exec(op string, rs *RS, r *Region, row []byte) {
	e := Exec{Op: op, Row: string(row), Server: rs.Addr, Seq: len(c.Execs) + 1}
	if r != nil {
		e.Table, e.Region = r.Table, string(r.Name)
	}
	c.Execs = append(c.Execs, e)
	c.Trace.Emit("exec", "op", op, "table", e.Table, "row", Bytes(row), "region", e.Region, "server", rs.Addr)
}

func (c *Cluster) doGetLocked(rs *RS, r *Region, g *pb.Get) ([]KV, string) {
	if r == nil {
		if g.GetExistenceOnly() {
			return nil, "" // the establisher's probe of hbase:meta: no such row, as a regionserver would answer
		}
		return nil, ExcDoNotRetry // (other gets on hbase:meta are not used by the client)
	}
	if !r.Contains(g.GetRow()) {
		return nil, ExcWrongRegion
	}
	if c.ActionHook != nil {
		if e := c.ActionHook(rs, r, "get", g.GetRow()); e != "" {
			return nil, e
		}
	}
	c.exec("get", rs, r, g.GetRow())
	t := c.Tables[r.Table]
	if t == nil {
		return nil, ""
	}
	row := t.Rows[string(g.GetRow())]
	if row == nil {
		return nil, ""
	}
	return row.Cells, ""
}

// protoCells converts the protobuf form of a mutation to cells (HBase's server-side rule).
func protoCells(m *pb.MutationProto) []KV {
	var out []KV
	for _, cv := range m.GetColumnValue() {
		for _, qv := range cv.GetQualifierValue() {
			ts := uint64(1<<63 - 1)
			if qv.Timestamp != nil {
				ts = qv.GetTimestamp()
			} else if m.Timestamp != nil {
				ts = m.GetTimestamp()
			}
			typ := byte(TypePut)
			if m.GetMutateType() == pb.MutationProto_DELETE {
				switch qv.GetDeleteType() {
				case pb.MutationProto_DELETE_ONE_VERSION:
					typ = TypeDelete
				case pb.MutationProto_DELETE_MULTIPLE_VERSIONS:
					typ = TypeDeleteColumn
				case pb.MutationProto_DELETE_FAMILY:
					typ = TypeDeleteFamily
				case pb.MutationProto_DELETE_FAMILY_VERSION:
					typ = TypeDeleteFamilyVersion
				}
			}
			out = append(out, KV{Row: m.GetRow(), Family: cv.GetFamily(), Qualifier: qv.GetQualifier(), Timestamp: ts, Type: typ, Value: qv.GetValue()})
		}
	}
	return out
}

// doMutateLocked applies a mutation. kvs are the cells that came in the cellblock for this mutation.
// Returns result cells (append/increment), processed flag, exception class, number of cellblock cells consumed.
func (c *Cluster) doMutateLocked(rs *RS, r *Region, m *pb.MutationProto, cond *pb.Condition, kvs []KV) ([]KV, bool, string, int) {
	n := int(m.GetAssociatedCellCount())
	if n > len(kvs) {
		return nil, false, ExcDoNotRetry, 0
	}
	cells := append(protoCells(m), kvs[:n]...)
	if r == nil {
		return nil, false, ExcDoNotRetry, n
	}
	if !r.Contains(m.GetRow()) {
		return nil, false, ExcWrongRegion, n
	}
	t := c.Tables[r.Table]
	if t == nil {
		return nil, false, ExcNotServing, n
	}
	if c.ActionHook != nil {
		if e := c.ActionHook(rs, r, "mutate", m.GetRow()); e != "" {
			return nil, false, e, n
		}
	}
	key := string(m.GetRow())
	row := t.Rows[key]
	find := func(f, q []byte) int {
		if row == nil {
			return -1
		}
		for i, kv := range row.Cells {
			if bytes.Equal(kv.Family, f) && bytes.Equal(kv.Qualifier, q) {
				return i
			}
		}
		return -1
	}
	ensure := func() {
		if row == nil {
			row = &Row{Key: m.GetRow()}
			t.Rows[key] = row
		}
	}
	op := map[pb.MutationProto_MutationType]string{pb.MutationProto_PUT: "put", pb.MutationProto_DELETE: "delete",
		pb.MutationProto_APPEND: "append", pb.MutationProto_INCREMENT: "increment"}[m.GetMutateType()]
	if cond != nil {
		op = "checkandput"
		i := find(cond.GetFamily(), cond.GetQualifier())
		var cur []byte
		if i >= 0 {
			cur = row.Cells[i].Value
		}
		var want []byte
		if cmp := cond.GetComparator(); cmp != nil {
			var bc pb.BinaryComparator
			if proto.Unmarshal(cmp.GetSerializedComparator(), &bc) == nil {
				want = bc.GetComparable().GetValue()
			}
		}
		c.exec(op, rs, r, m.GetRow())
		if !bytes.Equal(cur, want) {
			return nil, false, "", n
		}
	} else {
		c.exec(op, rs, r, m.GetRow())
	}
	var res []KV
	switch m.GetMutateType() {
	case pb.MutationProto_PUT:
		for _, kv := range cells {
			ensure()
			if i := find(kv.Family, kv.Qualifier); i >= 0 {
				row.Cells[i] = kv
			} else {
				row.Cells = append(row.Cells, kv)
			}
		}
	case pb.MutationProto_DELETE:
		if len(cells) == 0 {
			delete(t.Rows, key)
		}
		for _, kv := range cells {
			if row == nil {
				break
			}
			var keep []KV
			for _, old := range row.Cells {
				fam := bytes.Equal(old.Family, kv.Family)
				switch kv.Type {
				case TypeDeleteFamily, TypeDeleteFamilyVersion:
					if fam {
						continue
					}
				default:
					if fam && bytes.Equal(old.Qualifier, kv.Qualifier) {
						continue
					}
				}
				keep = append(keep, old)
			}
			row.Cells = keep
		}
		if row != nil && len(row.Cells) == 0 {
			delete(t.Rows, key)
		}
	case pb.MutationProto_APPEND:
		for _, kv := range cells {
			ensure()
			if i := find(kv.Family, kv.Qualifier); i >= 0 {
				row.Cells[i].Value = append(append([]byte{}, row.Cells[i].Value...), kv.Value...)
				res = append(res, row.Cells[i])
			} else {
				row.Cells = append(row.Cells, kv)
				res = append(res, kv)
			}
		}
	case pb.MutationProto_INCREMENT:
		for _, kv := range cells {
			ensure()
			var cur uint64
			i := find(kv.Family, kv.Qualifier)
			if i >= 0 && len(row.Cells[i].Value) == 8 {
				cur = binary.BigEndian.Uint64(row.Cells[i].Value)
			}
			var d uint64
			if len(kv.Value) == 8 {
				d = binary.BigEndian.Uint64(kv.Value)
			}
			nv := binary.BigEndian.AppendUint64(nil, cur+d)
			nk := KV{Row: m.GetRow(), Family: kv.Family, Qualifier: kv.Qualifier, Timestamp: 1, Type: TypePut, Value: nv}
			if i >= 0 {
				row.Cells[i] = nk
			} else {
				row.Cells = append(row.Cells, nk)
			}
			res = append(res, nk)
		}
	}
	if row != nil {
		sort.SliceStable(row.Cells, func(i, j int) bool {
			if c := bytes.Compare(row.Cells[i].Family, row.Cells[j].Family); c != 0 {
				return c < 0
			}
			return bytes.Compare(row.Cells[i].Qualifier, row.Cells[j].Qualifier) < 0
		})
	}
	return res, true, "", n
}

func (c *Cluster) serveMulti(rs *RS, sc *ServerConn, req *Request, p *pb.MultiRequest) {
	kvs, _ := DecodeKVs(req.CellBlock)
	resp := &pb.MultiResponse{}
	var cb []byte
	summary := []map[string]any{}
	drop := false
	c.mu.Lock()
	for _, ra := range p.GetRegionAction() {
		name := ra.GetRegion().GetValue()
		rar := &pb.RegionActionResult{}
		r, prob := c.regionProblemLocked(rs, name)
		rows := []string{}
		for _, a := range ra.GetAction() {
			if a.Get != nil {
				rows = append(rows, "get:"+string(a.Get.GetRow()))
			} else if a.Mutation != nil {
				rows = append(rows, "mut:"+string(a.Mutation.GetRow()))
			}
		}
		summary = append(summary, map[string]any{"region": string(name), "actions": rows, "exc": prob})
		if prob != "" {
			// the cells of this region's mutations are still in the cellblock: skip them
			for _, a := range ra.GetAction() {
				if a.Mutation != nil {
					n := int(a.Mutation.GetAssociatedCellCount())
					if n <= len(kvs) {
						kvs = kvs[n:]
					}
				}
			}
			rar.Exception = &pb.NameBytesPair{Name: proto.String(prob), Value: []byte("simulated " + prob)}
			resp.RegionActionResult = append(resp.RegionActionResult, rar)
			continue
		}
		for _, a := range ra.GetAction() {
			roe := &pb.ResultOrException{Index: proto.Uint32(a.GetIndex())}
			if a.Get != nil {
				res, exc := c.doGetLocked(rs, r, a.Get)
				if exc == "DROP" {
					drop = true
				}
				if exc != "" {
					roe.Exception = &pb.NameBytesPair{Name: proto.String(exc), Value: []byte("simulated " + exc)}
				} else {
					roe.Result = c.resultMsg(res, a.Get.GetExistenceOnly(), &cb)
				}
			} else if a.Mutation != nil {
				res, _, exc, n := c.doMutateLocked(rs, r, a.Mutation, nil, kvs)
				kvs = kvs[n:]
				if exc == "DROP" {
					drop = true
				}
				if exc != "" {
					roe.Exception = &pb.NameBytesPair{Name: proto.String(exc), Value: []byte("simulated " + exc)}
				} else {
					roe.Result = c.resultMsg(res, false, &cb)
				}
			}
			rar.ResultOrException = append(rar.ResultOrException, roe)
		}
		resp.RegionActionResult = append(resp.RegionActionResult, rar)
	}
	c.mu.Unlock()
	c.Trace.Emit("multi", "conn", sc.ID, "id", int(req.CallID), "addr", rs.Addr, "regions", summary)
	if drop {
		c.Trace.Emit("drop", "conn", sc.ID, "id", int(req.CallID))
		sc.C.Break()
		return
	}
	c.Trace.Emit("resp", "conn", sc.ID, "id", int(req.CallID), "exc", "")
	c.send(sc, req, Response{CallID: req.CallID, Msg: resp, CellBlock: cb})
}

// IsProbe recognises the establisher's probe: an exists-only Get.
func IsProbe(req *Request) bool {
	g, ok := req.Param.(*pb.GetRequest)
	return ok && g.GetGet().GetExistenceOnly()
}

// RowOf returns the row a single get / mutate addresses (scan: the start row; multi: nil).
func RowOf(req *Request) []byte {
	switch p := req.Param.(type) {
	case *pb.GetRequest:
		return p.GetGet().GetRow()
	case *pb.MutateRequest:
		return p.GetMutation().GetRow()
	case *pb.ScanRequest:
		return p.GetScan().GetStartRow()
	}
	return nil
}
