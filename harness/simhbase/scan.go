package verifsim

import (
	"bytes"
	"sort"

	"github.com/tsuna/gohbase/pb"
	"google.golang.org/protobuf/proto"
)

// MetaName is a parsed region name or search key.
type MetaName struct {
	Table, Start, ID []byte
}

// ParseMetaName splits "table,start,id" at the first and the last comma. A
// string without two commas is taken as a bare table name.
func ParseMetaName(b []byte) MetaName {
	i := bytes.IndexByte(b, ',')
	j := bytes.LastIndexByte(b, ',')
	if i < 0 || j <= i {
		if i >= 0 {
			return MetaName{Table: b[:i], Start: b[i+1:]}
		}
		return MetaName{Table: b}
	}
	return MetaName{Table: b[:i], Start: b[i+1 : j], ID: b[j+1:]}
}

// MetaCompare is the order of hbase:meta rows: (table, start key, id) component-wise.
func MetaCompare(a, b []byte) int {
	x, y := ParseMetaName(a), ParseMetaName(b)
	if c := bytes.Compare(x.Table, y.Table); c != 0 {
		return c
	}
	if c := bytes.Compare(x.Start, y.Start); c != 0 {
		return c
	}
	return bytes.Compare(x.ID, y.ID)
}

// MetaRow builds the hbase:meta row of a region.
func MetaRow(r *Region) Row {
	ns, q := []byte("default"), []byte(r.Table)
	if i := bytes.IndexByte(q, ':'); i >= 0 {
		ns, q = q[:i], q[i+1:]
	}
	ri := &pb.RegionInfo{RegionId: proto.Uint64(r.ID), TableName: &pb.TableName{Namespace: ns, Qualifier: q},
		StartKey: r.Start, EndKey: r.Stop, Offline: proto.Bool(false), Split: proto.Bool(false)}
	b, _ := proto.Marshal(ri)
	cells := []KV{
		{Row: r.Name, Family: []byte("info"), Qualifier: []byte("regioninfo"), Timestamp: 1, Type: TypePut, Value: append([]byte("PBUF"), b...)},
		{Row: r.Name, Family: []byte("info"), Qualifier: []byte("seqnumDuringOpen"), Timestamp: 1, Type: TypePut, Value: []byte{0, 0, 0, 0, 0, 0, 0, 2}},
		{Row: r.Name, Family: []byte("info"), Qualifier: []byte("server"), Timestamp: 1, Type: TypePut, Value: []byte(metaHostOf(r))},
		{Row: r.Name, Family: []byte("info"), Qualifier: []byte("serverstartcode"), Timestamp: 1, Type: TypePut, Value: []byte{0, 0, 1, 0, 0, 0, 0, 1}},
	}
	if r.ReplicaHost != "" {
		// region replication: the row also carries the location columns of the secondary replica (qualifier + "_0001"), in
		// qualifier order like every row; the primary's columns are still the ones without a suffix
		cells = []KV{cells[0], cells[1],
			{Row: r.Name, Family: []byte("info"), Qualifier: []byte("seqnumDuringOpen_0001"), Timestamp: 1, Type: TypePut, Value: []byte{0, 0, 0, 0, 0, 0, 0, 3}},
			cells[2],
			{Row: r.Name, Family: []byte("info"), Qualifier: []byte("server_0001"), Timestamp: 1, Type: TypePut, Value: []byte(r.ReplicaHost)},
			cells[3],
			{Row: r.Name, Family: []byte("info"), Qualifier: []byte("serverstartcode_0001"), Timestamp: 1, Type: TypePut, Value: []byte{0, 0, 1, 0, 0, 0, 0, 2}},
		}
	}
	return Row{Key: r.Name, Cells: cells}
}

type regionScanner struct {
	id       uint64
	region   *Region
	meta     bool
	rows     []Row // the rows this scanner will return, in scan order
	pos      int   // next row
	cellsOut int   // cells of rows[pos] already returned as partial fragments
	addr     string
	reversed bool
}

// ScanCtx is what a chunker sees.
type ScanCtx struct {
	ScannerID    uint64
	Region       *Region
	Meta         bool
	Remaining    int // whole rows not yet (fully) returned
	CurRowCells  int // cells left of the row at the cursor
	NumberOfRows int
	Reversed     bool
	Call         int // 1 for the opening request, 2.. for continuations
}

// ScanCut is a chunker's decision for one response.
type ScanCut struct {
	Entries              int  // results in this response (0 = heartbeat); capped by what is left and by number_of_rows
	CutLastAfter         int  // >0: return only this many cells of the last entry's row (a partial fragment) if it has more
	NoMoreResults        bool // claim more_results = false (end of the whole scan) although the region scanner may stay open
	Exc                  string
	Heartbeat            bool // an empty response carries heartbeat_message = true (the server ran into its time limit)
	HeartbeatWithResults bool // ... and so does a response WITH results that is not the region's last
	EmptyFirst           bool // a response with results begins with a result of no cells, flagged partial (an empty fragment)
}

func (c *Cluster) metaRowsLocked() []Row {
	var rows []Row
	if c.MetaMode == "empty" {
		return nil
	}
	for _, r := range c.Regions {
		if r.Online {
			rows = append(rows, MetaRow(r))
		}
	}
	sort.Slice(rows, func(i, j int) bool { return MetaCompare(rows[i].Key, rows[j].Key) < 0 })
	return rows
}

// selectRows computes the rows a region scanner returns.
func (c *Cluster) selectRowsLocked(r *Region, meta bool, s *pb.Scan) []Row {
	var all []Row
	cmp := bytes.Compare
	if meta {
		all = c.metaRowsLocked()
		cmp = MetaCompare
	} else {
		t := c.Tables[r.Table]
		if t == nil {
			return nil
		}
		for _, k := range t.SortedKeys() {
			if r.Contains(k) {
				all = append(all, *t.Rows[string(k)])
			}
		}
	}
	start, stop := s.GetStartRow(), s.GetStopRow()
	var out []Row
	if !s.GetReversed() {
		for _, row := range all {
			if len(start) > 0 && cmp(row.Key, start) < 0 {
				continue
			}
			if len(stop) > 0 && cmp(row.Key, stop) >= 0 {
				continue
			}
			out = append(out, row)
		}
		return out
	}
	for i := len(all) - 1; i >= 0; i-- {
		row := all[i]
		if len(start) > 0 && cmp(row.Key, start) > 0 {
			continue
		}
		if len(stop) > 0 && cmp(row.Key, stop) <= 0 {
			continue
		}
		out = append(out, row)
	}
	return out
}

func (c *Cluster) serveScan(rs *RS, sc *ServerConn, req *Request, p *pb.ScanRequest, name []byte) {
	c.mu.Lock()
	if c.MetaMode == "silent" && bytes.Equal(name, []byte("hbase:meta,,1")) {
		c.mu.Unlock()
		c.Trace.Emit("silent", "conn", sc.ID, "id", int(req.CallID))
		return
	}
	var scn *regionScanner
	callNo := 1
	if p.ScannerId != nil {
		scn = c.scanners[p.GetScannerId()]
		if scn == nil || scn.addr != rs.Addr {
			c.mu.Unlock()
			if p.GetCloseScanner() { // closing an unknown / already closed scanner is harmless
				c.Trace.Emit("scanClose", "scanner", int(p.GetScannerId()), "known", false)
				c.send(sc, req, Response{CallID: req.CallID, Msg: &pb.ScanResponse{MoreResults: proto.Bool(false)}})
				return
			}
			if p.GetRenew() {
				c.Trace.Emit("scanRenew", "scanner", -1, "known", false)
			} else {
				c.Trace.Emit("scanUnknown", "scanner", int(p.GetScannerId())) // a continuation for a scanner that is not there
			}
			c.sendExc(sc, req, ExcUnknownScanner)
			return
		}
		callNo = 2
		if !p.GetRenew() && !(p.GetCloseScanner() && p.GetNumberOfRows() == 0) {
			c.Trace.Emit("scanCont", "scanner", int(scn.id))
		}
		if p.GetRenew() {
			c.mu.Unlock()
			c.Trace.Emit("scanRenew", "scanner", int(scn.id), "known", true)
			c.send(sc, req, Response{CallID: req.CallID, Msg: &pb.ScanResponse{ScannerId: proto.Uint64(scn.id), MoreResultsInRegion: proto.Bool(true), MoreResults: proto.Bool(true)}})
			return
		}
		if p.GetCloseScanner() && p.GetNumberOfRows() == 0 {
			delete(c.scanners, scn.id)
			c.mu.Unlock()
			c.Trace.Emit("scanClose", "scanner", int(scn.id), "known", true)
			c.send(sc, req, Response{CallID: req.CallID, Msg: &pb.ScanResponse{ScannerId: proto.Uint64(scn.id), MoreResults: proto.Bool(false)}})
			return
		}
	} else {
		r, prob := c.regionProblemLocked(rs, name)
		if prob != "" {
			c.mu.Unlock()
			c.sendExc(sc, req, prob)
			return
		}
		meta := r == nil
		if !meta && len(p.GetScan().GetStartRow()) > 0 && !p.GetScan().GetReversed() && !r.Contains(p.GetScan().GetStartRow()) {
			c.mu.Unlock()
			c.sendExc(sc, req, ExcWrongRegion)
			return
		}
		c.nextScan++
		id := c.nextScan
		if c.ZeroScanID && !meta && !c.zeroScanUsed { // scanner ids are the server's business: 0 is as good as any
			id, c.zeroScanUsed = 0, true
			c.nextScan--
		}
		scn = &regionScanner{id: id, region: r, meta: meta, addr: rs.Addr, reversed: p.GetScan().GetReversed()}
		scn.rows = c.selectRowsLocked(r, meta, p.GetScan())
		c.scanners[scn.id] = scn
		rn := ""
		rstart := []int{}
		if r != nil {
			rn = string(r.Name)
			rstart = Bytes(r.Start)
		}
		c.Trace.Emit("scanOpen", "scanner", int(scn.id), "region", rn, "regionStart", rstart, "meta", meta, "start", Bytes(p.GetScan().GetStartRow()),
			"stop", Bytes(p.GetScan().GetStopRow()), "reversed", scn.reversed, "rows", len(scn.rows), "addr", rs.Addr)
		if meta {
			c.Trace.Emit("metaScan", "start", Bytes(p.GetScan().GetStartRow()), "stop", Bytes(p.GetScan().GetStopRow()), "reversed", scn.reversed)
		}
	}
	// decide the cut
	ctx := &ScanCtx{ScannerID: scn.id, Region: scn.region, Meta: scn.meta, Remaining: len(scn.rows) - scn.pos,
		NumberOfRows: int(p.GetNumberOfRows()), Reversed: scn.reversed, Call: callNo}
	if scn.pos < len(scn.rows) {
		ctx.CurRowCells = len(scn.rows[scn.pos].Cells) - scn.cellsOut
	}
	cut := ScanCut{Entries: ctx.Remaining}
	if c.ScanChunker != nil && !scn.meta {
		cut = c.ScanChunker(ctx)
	}
	if cut.Exc != "" {
		if callNo == 1 {
			delete(c.scanners, scn.id) // the open failed: no region scanner exists
		}
		c.mu.Unlock()
		c.Trace.Emit("scanExc", "scanner", int(scn.id), "class", cut.Exc)
		c.sendExc(sc, req, cut.Exc)
		return
	}
	if cut.Entries > ctx.NumberOfRows {
		cut.Entries = ctx.NumberOfRows
	}
	if cut.Entries > ctx.Remaining {
		cut.Entries = ctx.Remaining
	}
	resp := &pb.ScanResponse{ScannerId: proto.Uint64(scn.id)}
	var cb []byte
	chunk := []map[string]any{}
	if cut.EmptyFirst && cut.Entries > 0 && c.InCellblock {
		resp.CellsPerResult = append(resp.CellsPerResult, 0)
		resp.PartialFlagPerResult = append(resp.PartialFlagPerResult, true)
	}
	for e := 0; e < cut.Entries; e++ {
		row := scn.rows[scn.pos]
		cells := row.Cells[scn.cellsOut:]
		partial := false
		if e == cut.Entries-1 && cut.CutLastAfter > 0 && len(cells) > cut.CutLastAfter {
			cells = cells[:cut.CutLastAfter]
			partial = true
			scn.cellsOut += cut.CutLastAfter
		} else {
			scn.pos++
			scn.cellsOut = 0
		}
		if c.InCellblock {
			cb = append(cb, EncodeKVs(cells)...)
			resp.CellsPerResult = append(resp.CellsPerResult, uint32(len(cells)))
			resp.PartialFlagPerResult = append(resp.PartialFlagPerResult, partial)
		} else {
			resp.Results = append(resp.Results, &pb.Result{Cell: CellsToPB(cells), Partial: proto.Bool(partial)})
		}
		chunk = append(chunk, map[string]any{"row": Bytes(row.Key), "ncells": len(cells), "partial": partial})
	}
	more := scn.pos < len(scn.rows)
	resp.MoreResultsInRegion = proto.Bool(more)
	if cut.NoMoreResults {
		resp.MoreResults = proto.Bool(false)
	} else {
		resp.MoreResults = proto.Bool(true)
	}
	if cut.Heartbeat && (cut.Entries == 0 || cut.HeartbeatWithResults) && more {
		// (the server ran into its time limit: it hands back what it has so far - possibly nothing - flagged as a heartbeat)
		resp.HeartbeatMessage = proto.Bool(true)
	}
	closed := false
	if !more || p.GetCloseScanner() || cut.NoMoreResults {
		// (a regionserver that declares the whole scan finished closes the region scanner itself, as it does when the region
		// is exhausted: a continuation request after that is answered UnknownScannerException)
		delete(c.scanners, scn.id)
		closed = true
	}
	c.mu.Unlock()
	c.Trace.Emit("scanResp", "scanner", int(scn.id), "chunk", chunk, "moreInRegion", more, "noMoreResults", cut.NoMoreResults, "closed", closed, "call", callNo)
	c.Trace.Emit("resp", "conn", sc.ID, "id", int(req.CallID), "exc", "")
	c.send(sc, req, Response{CallID: req.CallID, Msg: resp, CellBlock: cb})
}

func metaHostOf(r *Region) string {
	if r.MetaHost != "" {
		return r.MetaHost
	}
	return r.Host
}
