package verifsim

import (
	"encoding/binary"
	"errors"
	"fmt"
	"io"

	"github.com/tsuna/gohbase/pb"
	"google.golang.org/protobuf/encoding/protowire"
	"google.golang.org/protobuf/proto"
)

// KV is the harness's own representation of one KeyValue.
type KV struct {
	Row, Family, Qualifier []byte
	Timestamp              uint64
	Type                   byte
	Value                  []byte
}

// Cell type codes of HBase's KeyValue.
const (
	TypeMinimum            = 0
	TypePut                = 4
	TypeDelete             = 8
	TypeDeleteFamilyVersion = 10
	TypeDeleteColumn       = 12
	TypeDeleteFamily       = 14
	TypeMaximum            = 255
)

// EncodeKV is the independent statement of the KeyValue layout:
//
//	int32 total (= 8 + keyLen + valueLen) | int32 keyLen | int32 valueLen |
//	int16 rowLen | row | int8 famLen | family | qualifier | int64 ts | int8 type | value
func EncodeKV(dst []byte, kv KV) []byte {
	keyLen := 2 + len(kv.Row) + 1 + len(kv.Family) + len(kv.Qualifier) + 8 + 1
	total := 8 + keyLen + len(kv.Value)
	dst = binary.BigEndian.AppendUint32(dst, uint32(total))
	dst = binary.BigEndian.AppendUint32(dst, uint32(keyLen))
	dst = binary.BigEndian.AppendUint32(dst, uint32(len(kv.Value)))
	dst = binary.BigEndian.AppendUint16(dst, uint16(len(kv.Row)))
	dst = append(dst, kv.Row...)
	dst = append(dst, byte(len(kv.Family)))
	dst = append(dst, kv.Family...)
	dst = append(dst, kv.Qualifier...)
	dst = binary.BigEndian.AppendUint64(dst, kv.Timestamp)
	dst = append(dst, kv.Type)
	dst = append(dst, kv.Value...)
	return dst
}

// DecodeKV decodes one KeyValue and returns the bytes consumed.
func DecodeKV(b []byte) (KV, int, error) {
	var kv KV
	if len(b) < 4 {
		return kv, 0, errors.New("kv: short length prefix")
	}
	total := int(binary.BigEndian.Uint32(b))
	if total < 8 || len(b) < 4+total {
		return kv, 0, fmt.Errorf("kv: total %d exceeds buffer %d", total, len(b)-4)
	}
	p := b[4 : 4+total]
	keyLen := int(binary.BigEndian.Uint32(p))
	valLen := int(binary.BigEndian.Uint32(p[4:]))
	if keyLen < 12 || 8+keyLen+valLen != total {
		return kv, 0, fmt.Errorf("kv: inconsistent lengths total=%d key=%d val=%d", total, keyLen, valLen)
	}
	k := p[8 : 8+keyLen]
	rowLen := int(binary.BigEndian.Uint16(k))
	if 2+rowLen+1 > keyLen-9 {
		return kv, 0, errors.New("kv: row overruns key")
	}
	kv.Row = append([]byte{}, k[2:2+rowLen]...)
	famLen := int(k[2+rowLen])
	rest := k[2+rowLen+1:]
	if famLen+9 > len(rest) {
		return kv, 0, errors.New("kv: family overruns key")
	}
	kv.Family = append([]byte{}, rest[:famLen]...)
	kv.Qualifier = append([]byte{}, rest[famLen:len(rest)-9]...)
	kv.Timestamp = binary.BigEndian.Uint64(rest[len(rest)-9:])
	kv.Type = rest[len(rest)-1]
	kv.Value = append([]byte{}, p[8+keyLen:]...)
	return kv, 4 + total, nil
}

// DecodeKVs decodes a whole cellblock.
func DecodeKVs(b []byte) ([]KV, error) {
	var out []KV
	for len(b) > 0 {
		kv, n, err := DecodeKV(b)
		if err != nil {
			return out, err
		}
		out = append(out, kv)
		b = b[n:]
	}
	return out, nil
}

// Hello is the decoded connection preamble + header.
type Hello struct {
	Preamble []byte
	Header   *pb.ConnectionHeader
}

// ReadHello reads "HBas" version auth, then the length-prefixed header.
func ReadHello(r io.Reader) (*Hello, error) {
	var pre [6]byte
	if _, err := io.ReadFull(r, pre[:]); err != nil {
		return nil, err
	}
	if string(pre[:4]) != "HBas" || pre[4] != 0 || pre[5] != 0x50 {
		return nil, fmt.Errorf("bad preamble %q", pre[:])
	}
	var l [4]byte
	if _, err := io.ReadFull(r, l[:]); err != nil {
		return nil, err
	}
	n := binary.BigEndian.Uint32(l[:])
	if n > 1<<20 {
		return nil, fmt.Errorf("connection header too large: %d", n)
	}
	b := make([]byte, n)
	if _, err := io.ReadFull(r, b); err != nil {
		return nil, err
	}
	h := &pb.ConnectionHeader{}
	if err := proto.Unmarshal(b, h); err != nil {
		return nil, fmt.Errorf("connection header: %v", err)
	}
	return &Hello{Preamble: pre[:], Header: h}, nil
}

// Request is one decoded request frame.
type Request struct {
	FrameLen  uint32
	Header    *pb.RequestHeader
	CallID    uint32
	Method    string
	Priority  uint32
	Param     proto.Message
	CellBlock []byte // raw trailing cellblock (possibly compressed)
	Raw       []byte // the frame body (without the 4-byte prefix)
}

// ErrMalformed wraps every framing violation found by the decoder.
type ErrMalformed struct{ Why string }

func (e ErrMalformed) Error() string { return "malformed request stream: " + e.Why }

// NewParam returns the request message type of an HBase client-service method.
func NewParam(method string) proto.Message {
	switch method {
	case "Get":
		return &pb.GetRequest{}
	case "Mutate":
		return &pb.MutateRequest{}
	case "Scan":
		return &pb.ScanRequest{}
	case "Multi":
		return &pb.MultiRequest{}
	// MasterService (the admin client)
	case "GetClusterStatus":
		return &pb.GetClusterStatusRequest{}
	case "CreateTable":
		return &pb.CreateTableRequest{}
	case "DeleteTable":
		return &pb.DeleteTableRequest{}
	case "EnableTable":
		return &pb.EnableTableRequest{}
	case "DisableTable":
		return &pb.DisableTableRequest{}
	case "getProcedureResult":
		return &pb.GetProcedureResultRequest{}
	case "GetTableNames":
		return &pb.GetTableNamesRequest{}
	case "MoveRegion":
		return &pb.MoveRegionRequest{}
	case "SetBalancerRunning":
		return &pb.SetBalancerRunningRequest{}
	}
	return nil
}

// ReadRequest reads and decodes one request frame, checking that every length
// is consistent with the bytes present.
func ReadRequest(r io.Reader) (*Request, error) {
	var l [4]byte
	if _, err := io.ReadFull(r, l[:]); err != nil {
		return nil, err
	}
	n := binary.BigEndian.Uint32(l[:])
	if n > 64<<20 {
		return nil, ErrMalformed{fmt.Sprintf("frame length %d is not sane", n)}
	}
	b := make([]byte, n)
	if _, err := io.ReadFull(r, b); err != nil {
		if err == io.ErrUnexpectedEOF || err == io.EOF {
			return nil, io.ErrUnexpectedEOF
		}
		return nil, err
	}
	return DecodeRequest(b)
}

// DecodeRequest decodes a frame body.
func DecodeRequest(b []byte) (*Request, error) {
	req := &Request{FrameLen: uint32(len(b)), Raw: b}
	hb, hn := protowire.ConsumeBytes(b)
	if hn < 0 {
		return nil, ErrMalformed{"header delimiter"}
	}
	req.Header = &pb.RequestHeader{}
	if err := proto.Unmarshal(hb, req.Header); err != nil {
		return nil, ErrMalformed{"header: " + err.Error()}
	}
	if req.Header.CallId == nil {
		return nil, ErrMalformed{"header without call id"}
	}
	if req.Header.MethodName == nil {
		return nil, ErrMalformed{"header without method name"}
	}
	req.CallID = req.Header.GetCallId()
	req.Method = req.Header.GetMethodName()
	req.Priority = req.Header.GetPriority()
	rest := b[hn:]
	var cbLen uint32
	if req.Header.CellBlockMeta != nil {
		cbLen = req.Header.CellBlockMeta.GetLength()
	}
	if req.Header.GetRequestParam() {
		pbs, pn := protowire.ConsumeBytes(rest)
		if pn < 0 {
			return nil, ErrMalformed{"param delimiter"}
		}
		req.Param = NewParam(req.Method)
		if req.Param == nil {
			return nil, ErrMalformed{"unknown method " + req.Method}
		}
		if err := proto.Unmarshal(pbs, req.Param); err != nil {
			return nil, ErrMalformed{"param: " + err.Error()}
		}
		rest = rest[pn:]
	}
	if uint32(len(rest)) != cbLen {
		return nil, ErrMalformed{fmt.Sprintf("cellblock meta length %d but %d trailing bytes", cbLen, len(rest))}
	}
	req.CellBlock = rest
	return req, nil
}

// Response describes a response frame to be encoded.
type Response struct {
	CallID     uint32
	Msg        proto.Message // nil => no response body
	ExcClass   string        // non-empty => exception response
	ExcStack   string
	CellBlock  []byte // already encoded (and compressed if the conn asks)
	OmitCallID bool
}

// EncodeResponse builds the frame bytes.
func EncodeResponse(r Response) []byte {
	h := &pb.ResponseHeader{}
	if !r.OmitCallID {
		h.CallId = proto.Uint32(r.CallID)
	}
	if r.ExcClass != "" {
		h.Exception = &pb.ExceptionResponse{
			ExceptionClassName: proto.String(r.ExcClass),
			StackTrace:         proto.String(r.ExcStack),
		}
	}
	if len(r.CellBlock) > 0 {
		h.CellBlockMeta = &pb.CellBlockMeta{Length: proto.Uint32(uint32(len(r.CellBlock)))}
	}
	hb, _ := proto.Marshal(h)
	var body []byte
	body = protowire.AppendBytes(body, hb)
	if r.Msg != nil && r.ExcClass == "" {
		mb, _ := proto.Marshal(r.Msg)
		body = protowire.AppendBytes(body, mb)
	}
	body = append(body, r.CellBlock...)
	out := make([]byte, 4, 4+len(body))
	binary.BigEndian.PutUint32(out, uint32(len(body)))
	return append(out, body...)
}

// DecodeRequestPrefix decodes the delimited RequestHeader at the start of b
// (the bytes after the 4-byte frame length); the rest of the frame need not be present.
func DecodeRequestPrefix(b []byte) (*pb.RequestHeader, error) {
	hb, hn := protowire.ConsumeBytes(b)
	if hn < 0 {
		return nil, errors.New("no delimited header")
	}
	h := &pb.RequestHeader{}
	if err := proto.Unmarshal(hb, h); err != nil {
		return nil, err
	}
	if h.CallId == nil || h.MethodName == nil {
		return nil, errors.New("not a request header")
	}
	switch h.GetMethodName() {
	case "Get", "Mutate", "Scan", "Multi":
		return h, nil
	}
	return nil, errors.New("unknown method")
}
