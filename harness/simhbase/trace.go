package verifsim

import (
	"bufio"
	"encoding/json"
	"os"
	"sync"
)

// Ev is one trace event: a flat JSON object. "ev" names the event.
type Ev map[string]any

// Trace is a concurrency-safe, sequence-numbered event recorder.
type Trace struct {
	mu  sync.Mutex
	evs []Ev
}

// Emit appends an event, stamping it with the next sequence number. Call it
// at the observation point (inside the critical section if there is one).
func (t *Trace) Emit(ev string, kv ...any) {
	if t == nil {
		return
	}
	e := Ev{"ev": ev}
	for i := 0; i+1 < len(kv); i += 2 {
		e[kv[i].(string)] = kv[i+1]
	}
	t.mu.Lock()
	e["seq"] = len(t.evs) + 1
	t.evs = append(t.evs, e)
	t.mu.Unlock()
}

// Events returns a snapshot.
func (t *Trace) Events() []Ev {
	t.mu.Lock()
	defer t.mu.Unlock()
	return append([]Ev(nil), t.evs...)
}

// Len returns the number of events.
func (t *Trace) Len() int {
	t.mu.Lock()
	defer t.mu.Unlock()
	return len(t.evs)
}

// Reset drops all events.
func (t *Trace) Reset() {
	t.mu.Lock()
	t.evs = nil
	t.mu.Unlock()
}

// NDJSONWriter appends events to a file, one JSON object per line.
type NDJSONWriter struct {
	mu sync.Mutex
	f  *os.File
	w  *bufio.Writer
	n  int
}

// NewNDJSON creates (truncates) path.
func NewNDJSON(path string) (*NDJSONWriter, error) {
	f, err := os.Create(path)
	if err != nil {
		return nil, err
	}
	return &NDJSONWriter{f: f, w: bufio.NewWriterSize(f, 1<<20)}, nil
}

// Write appends one object.
func (n *NDJSONWriter) Write(v any) error {
	b, err := json.Marshal(v)
	if err != nil {
		return err
	}
	n.mu.Lock()
	defer n.mu.Unlock()
	n.n++
	n.w.Write(b)
	return n.w.WriteByte('\n')
}

// Count returns the number of lines written.
func (n *NDJSONWriter) Count() int {
	n.mu.Lock()
	defer n.mu.Unlock()
	return n.n
}

// Close flushes and closes.
func (n *NDJSONWriter) Close() error {
	n.mu.Lock()
	defer n.mu.Unlock()
	if err := n.w.Flush(); err != nil {
		return err
	}
	return n.f.Close()
}

// Bytes converts a byte string to the JSON form TLC compares: an array of
// naturals.
func Bytes(b []byte) []int {
	out := make([]int, len(b))
	for i, x := range b {
		out[i] = int(x)
	}
	return out
}
