// Package verifsim is the verification harness's simulated HBase side:
// an in-memory net.Conn with fault/hold hooks, an independent wire codec,
// simulated regionservers / hbase:meta / ZooKeeper, and a trace recorder.
// It is overlaid into the module at internal/verifsim by /verif/bin/check
// and never lives in /repo.
package verifsim

import (
	"errors"
	"io"
	"net"
	"os"
	"sync"
	"sync/atomic"
	"time"
)

// OpKind names an operation on the client end of a connection.
type OpKind string

const (
	OpWrite         OpKind = "write"
	OpRead          OpKind = "read"
	OpReadDeadline  OpKind = "rdeadline"
	OpWriteDeadline OpKind = "wdeadline"
	OpClose         OpKind = "close"
)

// Op describes one operation on a Conn as seen by the hook.
type Op struct {
	Conn  *Conn
	Index int // 1-based index of this operation on this end
	Kind  OpKind
	Data  []byte    // Write: the buffer about to be written
	Time  time.Time // deadlines: the deadline (zero = cleared)
}

// Fault is what a hook may ask for.
type Fault struct {
	Err     error // non-nil: the operation fails with this error
	Partial int   // Write: number of leading bytes still delivered before failing
	Break   bool  // after failing, the connection is broken (peer sees EOF)
}

// Hook is consulted at the start of every operation of the hooked end. It may
// block (a "hold") and may return a fault. It runs on the calling goroutine.
type Hook func(op Op) *Fault

// Conn is one end of an in-memory, buffered, full-duplex connection. It does
// NOT implement io.ReaderFrom / buffersWriter: like any net.Conn handed out by
// a proxy dialer, net.Buffers.WriteTo on it degrades to one Write per buffer.
type Conn struct {
	name   string
	rd     *half // data flowing to us
	wr     *half // data flowing to the peer
	peer   *Conn
	hook   atomic.Pointer[Hook]
	nops   atomic.Int64
	closed atomic.Bool
	broken atomic.Bool
	wdl    atomic.Int64 // write deadline (UnixNano; 0 = none): a write after it fails with a timeout, as on a socket
	// MaxRead, if > 0, caps the bytes returned by a single Read (short reads).
	MaxRead int
	local   addr
	remote  addr
	// OnClose is called once when this end is closed.
	OnClose   func()
	closeOnce sync.Once
}

type addr string

func (a addr) Network() string { return "sim" }
func (a addr) String() string  { return string(a) }

// half is a unidirectional byte queue with broadcast wake-ups.
type half struct {
	mu       sync.Mutex
	buf      []byte
	eof      bool // writer closed / broken: reader gets EOF after draining
	rclosed  bool // reader closed: writes fail
	wake     chan struct{}
	deadline time.Time
}

func newHalf() *half { return &half{wake: make(chan struct{})} }

func (h *half) broadcast() {
	close(h.wake)
	h.wake = make(chan struct{})
}

// Pipe returns the two ends of a fresh connection.
func Pipe(clientName, serverName string) (client, server *Conn) {
	a, b := newHalf(), newHalf()
	client = &Conn{name: clientName, rd: a, wr: b, local: addr(clientName), remote: addr(serverName)}
	server = &Conn{name: serverName, rd: b, wr: a, local: addr(serverName), remote: addr(clientName)}
	client.peer, server.peer = server, client
	return
}

// SetHook installs (or clears, with nil) the operation hook of this end.
func (c *Conn) SetHook(h Hook) {
	if h == nil {
		c.hook.Store(nil)
		return
	}
	c.hook.Store(&h)
}

// Name returns the name given at creation.
func (c *Conn) Name() string { return c.name }

// Ops returns how many operations were started on this end.
func (c *Conn) Ops() int { return int(c.nops.Load()) }

// IsClosed reports whether Close was called on this end.
func (c *Conn) IsClosed() bool { return c.closed.Load() }

type timeoutError struct{}

func (timeoutError) Error() string   { return "i/o timeout" }
func (timeoutError) Timeout() bool   { return true }
func (timeoutError) Temporary() bool { return true }

// ErrTimeout is returned by Read when the read deadline passes.
var ErrTimeout error = &net.OpError{Op: "read", Net: "sim", Err: os.ErrDeadlineExceeded}

// ErrInjected is the default injected fault.
var ErrInjected = errors.New("verifsim: injected connection fault")

func (c *Conn) before(kind OpKind, data []byte, t time.Time) *Fault {
	idx := int(c.nops.Add(1))
	hp := c.hook.Load()
	if hp == nil {
		return nil
	}
	return (*hp)(Op{Conn: c, Index: idx, Kind: kind, Data: data, Time: t})
}

func (c *Conn) doBreak() {
	c.broken.Store(true)
	c.wr.mu.Lock()
	c.wr.eof = true
	c.wr.broadcast()
	c.wr.mu.Unlock()
	c.rd.mu.Lock()
	c.rd.eof = true
	c.rd.broadcast()
	c.rd.mu.Unlock()
}

// Break makes the connection fail as if the network had reset it: both
// directions see EOF / errors from now on.
func (c *Conn) Break() { c.doBreak() }

func (c *Conn) Write(p []byte) (int, error) {
	f := c.before(OpWrite, p, time.Time{})
	if c.closed.Load() {
		return 0, net.ErrClosed
	}
	if c.broken.Load() {
		return 0, io.ErrClosedPipe
	}
	if d := c.wdl.Load(); d != 0 && time.Now().UnixNano() >= d {
		return 0, os.ErrDeadlineExceeded
	}
	n := len(p)
	var ferr error
	if f != nil && f.Err != nil {
		n = f.Partial
		if n > len(p) {
			n = len(p)
		}
		ferr = f.Err
	}
	h := c.wr
	h.mu.Lock()
	if h.rclosed || h.eof {
		h.mu.Unlock()
		return 0, io.ErrClosedPipe
	}
	if n > 0 {
		h.buf = append(h.buf, p[:n]...)
		h.broadcast()
	}
	h.mu.Unlock()
	if ferr != nil {
		if f.Break {
			c.doBreak()
		}
		return n, ferr
	}
	return n, nil
}

func (c *Conn) Read(p []byte) (int, error) {
	f := c.before(OpRead, nil, time.Time{})
	if f != nil && f.Err != nil {
		if f.Break {
			c.doBreak()
		}
		return 0, f.Err
	}
	h := c.rd
	for {
		if c.closed.Load() {
			return 0, net.ErrClosed
		}
		h.mu.Lock()
		if len(h.buf) > 0 {
			n := len(p)
			if n > len(h.buf) {
				n = len(h.buf)
			}
			if c.MaxRead > 0 && n > c.MaxRead {
				n = c.MaxRead
			}
			copy(p, h.buf[:n])
			h.buf = h.buf[n:]
			h.mu.Unlock()
			return n, nil
		}
		if h.eof {
			h.mu.Unlock()
			return 0, io.EOF
		}
		dl := h.deadline
		wake := h.wake
		h.mu.Unlock()
		if dl.IsZero() {
			<-wake
			continue
		}
		d := time.Until(dl)
		if d <= 0 {
			return 0, ErrTimeout
		}
		t := time.NewTimer(d)
		select {
		case <-wake:
			t.Stop()
		case <-t.C:
		}
	}
}

func (c *Conn) Close() error {
	c.before(OpClose, nil, time.Time{})
	if c.closed.Swap(true) {
		return net.ErrClosed
	}
	c.rd.mu.Lock()
	c.rd.rclosed = true
	c.rd.broadcast()
	c.rd.mu.Unlock()
	c.wr.mu.Lock()
	c.wr.eof = true
	c.wr.broadcast()
	c.wr.mu.Unlock()
	c.closeOnce.Do(func() {
		if c.OnClose != nil {
			c.OnClose()
		}
	})
	return nil
}

func (c *Conn) LocalAddr() net.Addr  { return c.local }
func (c *Conn) RemoteAddr() net.Addr { return c.remote }

func (c *Conn) SetDeadline(t time.Time) error {
	if err := c.SetReadDeadline(t); err != nil {
		return err
	}
	return c.SetWriteDeadline(t)
}

func (c *Conn) SetReadDeadline(t time.Time) error {
	f := c.before(OpReadDeadline, nil, t)
	if f != nil && f.Err != nil {
		if f.Break {
			c.doBreak()
		}
		return f.Err
	}
	if c.closed.Load() {
		return net.ErrClosed
	}
	h := c.rd
	h.mu.Lock()
	h.deadline = t
	h.broadcast()
	h.mu.Unlock()
	return nil
}

// ReadDeadline returns the currently armed read deadline (zero = none).
func (c *Conn) ReadDeadline() time.Time {
	c.rd.mu.Lock()
	defer c.rd.mu.Unlock()
	return c.rd.deadline
}

func (c *Conn) SetWriteDeadline(t time.Time) error {
	f := c.before(OpWriteDeadline, nil, t)
	if f != nil && f.Err != nil {
		if f.Break {
			c.doBreak()
		}
		return f.Err
	}
	if c.closed.Load() {
		return net.ErrClosed
	}
	if t.IsZero() {
		c.wdl.Store(0)
	} else {
		c.wdl.Store(t.UnixNano())
	}
	return nil
}

// Buffered returns how many bytes are waiting to be read at this end.
func (c *Conn) Buffered() int {
	c.rd.mu.Lock()
	defer c.rd.mu.Unlock()
	return len(c.rd.buf)
}
