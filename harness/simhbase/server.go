package verifsim

import (
	"bufio"
	"encoding/binary"
	"errors"
	"fmt"
	"io"
	"sync"

	"github.com/golang/snappy"
	"github.com/tsuna/gohbase/pb"
	"google.golang.org/protobuf/proto"
)

// SnappyChunk is the raw chunk size Hadoop's SnappyCodec uses.
const SnappyChunk = 256*1024*5/6 - 32

// HadoopCompress writes payload as ONE block cut into chunks of at most chunk raw bytes.
func HadoopCompress(payload []byte, chunk int) []byte {
	out := binary.BigEndian.AppendUint32(nil, uint32(len(payload)))
	for len(payload) > 0 {
		n := len(payload)
		if n > chunk {
			n = chunk
		}
		enc := snappy.Encode(nil, payload[:n])
		out = binary.BigEndian.AppendUint32(out, uint32(len(enc)))
		out = append(out, enc...)
		payload = payload[n:]
	}
	return out
}

// HadoopDecompress is the harness's reader of the block-compressed stream format.
func HadoopDecompress(b []byte) ([]byte, error) {
	var out []byte
	for len(b) > 0 {
		if len(b) < 4 {
			return nil, errors.New("truncated block length")
		}
		raw := int(binary.BigEndian.Uint32(b))
		b = b[4:]
		got := 0
		for got < raw {
			if len(b) < 4 {
				return nil, errors.New("truncated chunk length")
			}
			cl := int(binary.BigEndian.Uint32(b))
			b = b[4:]
			if cl > len(b) {
				return nil, errors.New("truncated chunk")
			}
			d, err := snappy.Decode(nil, b[:cl])
			if err != nil {
				return nil, err
			}
			b = b[cl:]
			out = append(out, d...)
			got += len(d)
		}
		if got != raw {
			return nil, errors.New("block decodes to more than announced")
		}
	}
	return out, nil
}

// Handler receives every decoded request of a server connection, on that
// connection's reader goroutine, in arrival order.
type Handler interface {
	Handle(sc *ServerConn, req *Request)
}

// HandlerFunc adapts a function.
type HandlerFunc func(sc *ServerConn, req *Request)

func (f HandlerFunc) Handle(sc *ServerConn, req *Request) { f(sc, req) }

// ServerConn is the server side of one accepted connection.
type ServerConn struct {
	C        *Conn
	Addr     string
	ID       int
	Hello    *Hello
	Compress bool
	Trace    *Trace

	wmu      sync.Mutex
	mu       sync.Mutex
	seen     map[uint32]bool
	Problems []string // framing violations found by the decoder
	ended    chan struct{}
	EndErr   error
	NReq     int
}

// Serve starts the reader goroutine of a server connection.
func Serve(c *Conn, addr string, id int, h Handler, tr *Trace) *ServerConn {
	sc := &ServerConn{C: c, Addr: addr, ID: id, Trace: tr, seen: map[uint32]bool{}, ended: make(chan struct{})}
	go sc.loop(h)
	return sc
}

func (sc *ServerConn) problem(f string, a ...any) {
	sc.mu.Lock()
	sc.Problems = append(sc.Problems, fmt.Sprintf(f, a...))
	sc.mu.Unlock()
	sc.Trace.Emit("srvProblem", "conn", sc.ID, "what", fmt.Sprintf(f, a...))
}

// GetProblems returns the framing problems seen so far.
func (sc *ServerConn) GetProblems() []string {
	sc.mu.Lock()
	defer sc.mu.Unlock()
	return append([]string(nil), sc.Problems...)
}

// Ended is closed when the reader goroutine has stopped.
func (sc *ServerConn) Ended() <-chan struct{} { return sc.ended }

func (sc *ServerConn) loop(h Handler) {
	defer close(sc.ended)
	r := bufio.NewReader(sc.C)
	hello, err := ReadHello(r)
	if err != nil {
		if err != io.EOF && err != io.ErrUnexpectedEOF {
			sc.problem("hello: %v", err)
		}
		sc.EndErr = err
		return
	}
	sc.Hello = hello
	sc.Compress = hello.Header.CellBlockCompressorClass != nil
	sc.Trace.Emit("srvHello", "conn", sc.ID, "addr", sc.Addr, "service", hello.Header.GetServiceName(),
		"codec", hello.Header.GetCellBlockCodecClass(), "compressor", hello.Header.GetCellBlockCompressorClass())
	for {
		req, err := ReadRequest(r)
		if err != nil {
			var m ErrMalformed
			if errors.As(err, &m) {
				sc.problem("%v", err)
			} else if err == io.ErrUnexpectedEOF {
				// a connection cut inside a frame is the network's doing, not a framing violation
				sc.Trace.Emit("srvCut", "conn", sc.ID)
			}
			sc.EndErr = err
			return
		}
		sc.mu.Lock()
		if sc.seen[req.CallID] {
			sc.Problems = append(sc.Problems, fmt.Sprintf("call id %d reused on this connection", req.CallID))
		}
		sc.seen[req.CallID] = true
		sc.NReq++
		sc.mu.Unlock()
		if sc.Compress && len(req.CellBlock) > 0 {
			raw, err := HadoopDecompress(req.CellBlock)
			if err != nil {
				sc.problem("cellblock of call %d does not decompress: %v", req.CallID, err)
			} else {
				req.CellBlock = raw
			}
		}
		h.Handle(sc, req)
	}
}

// SendRaw writes bytes to the client (one Write).
func (sc *ServerConn) SendRaw(b []byte) error {
	sc.wmu.Lock()
	defer sc.wmu.Unlock()
	_, err := sc.C.Write(b)
	return err
}

// Send encodes and writes a response; the cellblock (raw KeyValues) is compressed if the connection asked for it.
func (sc *ServerConn) Send(r Response) error {
	if sc.Compress && len(r.CellBlock) > 0 {
		r.CellBlock = HadoopCompress(r.CellBlock, SnappyChunk)
	}
	return sc.SendRaw(EncodeResponse(r))
}

// SendException answers a call with a Java exception.
func (sc *ServerConn) SendException(callID uint32, class, stack string) error {
	return sc.Send(Response{CallID: callID, ExcClass: class, ExcStack: stack})
}

// Close closes the server end.
func (sc *ServerConn) Close() { sc.C.Close() }

// ---- response builders -------------------------------------------------

// CellsToPB converts harness cells to protobuf cells.
func CellsToPB(kvs []KV) []*pb.Cell {
	out := make([]*pb.Cell, len(kvs))
	for i, kv := range kvs {
		ts := kv.Timestamp
		out[i] = &pb.Cell{Row: kv.Row, Family: kv.Family, Qualifier: kv.Qualifier, Timestamp: &ts,
			CellType: pb.CellType(kv.Type).Enum(), Value: kv.Value}
	}
	return out
}

// EncodeKVs concatenates cells into a cellblock.
func EncodeKVs(kvs []KV) []byte {
	var b []byte
	for _, kv := range kvs {
		b = EncodeKV(b, kv)
	}
	return b
}

// ResultMsg builds a pb.Result carrying the cells either inline or as a count
// referring to the cellblock, appending to *cb in the latter case.
func ResultMsg(kvs []KV, inCellblock bool, cb *[]byte) *pb.Result {
	if inCellblock {
		*cb = append(*cb, EncodeKVs(kvs)...)
		return &pb.Result{AssociatedCellCount: proto.Int32(int32(len(kvs)))}
	}
	return &pb.Result{Cell: CellsToPB(kvs)}
}
