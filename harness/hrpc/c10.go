package hrpc

// C10 conformance driver: TLC-generated vectors (Gen_KeyValue) replayed into
// the real mutation encoders and cell decoder.

import (
	"bufio"
	"bytes"
	"context"
	"encoding/binary"
	"encoding/json"
	"fmt"
	"math/rand"
	"os"
	"sort"
	"strconv"
	"testing"

	"github.com/tsuna/gohbase/internal/verifsim"
	"github.com/tsuna/gohbase/pb"
)

func c10b(x []int) []byte {
	b := make([]byte, len(x))
	for i, v := range x {
		b[i] = byte(v)
	}
	return b
}

type c10QV struct {
	Q []int `json:"q"`
	V []int `json:"v"`
}
type c10Fam struct {
	F     []int `json:"f"`
	Inner struct {
		Nil bool    `json:"nil"`
		Qs  []c10QV `json:"qs"`
	} `json:"inner"`
}
type c10Cell struct {
	Family    []int `json:"family"`
	Qualifier []int `json:"qualifier"`
	Ts        []int `json:"ts"`
	Type      int   `json:"type"`
	Value     []int `json:"value"`
}
type c10Mut struct {
	Kind       string    `json:"kind"`
	OneVersion bool      `json:"oneVersion"`
	Latest     bool      `json:"latest"`
	Ts         []int     `json:"ts"`
	Fams       []c10Fam  `json:"fams"`
	Cells      []c10Cell `json:"cells"`
}
type c10KV struct {
	Row, Family, Qualifier, Ts, Value, Bytes []int
	Type, Consumed                           int
}
type c10Len struct {
	RowLen, FamLen, QualLen, ValLen int
	Hdr                             struct {
		Total, KeyLen, ValLen, Consumed, FamLenOffset, TsOffset int
		Bytes                                                   []int
	}
}

func c10read[T any](path string) []T {
	fh, err := os.Open(path)
	if err != nil {
		panic(err)
	}
	defer fh.Close()
	var out []T
	sc := bufio.NewScanner(fh)
	sc.Buffer(make([]byte, 1<<20), 1<<24)
	for sc.Scan() {
		var v T
		if err := json.Unmarshal(sc.Bytes(), &v); err != nil {
			panic(err)
		}
		out = append(out, v)
	}
	return out
}

func c10cellKey(fam, qual []byte, ts uint64, typ byte, val []byte) string {
	return fmt.Sprintf("%q|%q|%d|%d|%q", fam, qual, ts, typ, val)
}

// hbaseProtoToCells is the harness's statement of HBase's server-side rule
// (ProtobufUtil.toPut / toDelete / toAppend / toIncrement) for a MutationProto
// that carries its cells in protobuf form.
func hbaseProtoToCells(mp *pb.MutationProto) []string {
	var out []string
	for _, cv := range mp.GetColumnValue() {
		for _, qv := range cv.GetQualifierValue() {
			ts := uint64(1<<63 - 1) // LATEST_TIMESTAMP
			if qv.Timestamp != nil {
				ts = qv.GetTimestamp()
			} else if mp.Timestamp != nil {
				ts = mp.GetTimestamp()
			}
			typ := byte(4)
			if mp.GetMutateType() == pb.MutationProto_DELETE {
				switch qv.GetDeleteType() {
				case pb.MutationProto_DELETE_ONE_VERSION:
					typ = 8
				case pb.MutationProto_DELETE_MULTIPLE_VERSIONS:
					typ = 12
				case pb.MutationProto_DELETE_FAMILY:
					typ = 14
				case pb.MutationProto_DELETE_FAMILY_VERSION:
					typ = 10
				}
			}
			out = append(out, c10cellKey(cv.GetFamily(), qv.GetQualifier(), ts, typ, qv.GetValue()))
		}
	}
	sort.Strings(out)
	return out
}

func TestVerifC10(t *testing.T) {
	in, out := os.Getenv("VERIF_IN"), os.Getenv("VERIF_OUT")
	if in == "" || out == "" {
		t.Skip("VERIF_IN / VERIF_OUT not set")
	}
	seed, _ := strconv.ParseInt(os.Getenv("VERIF_SEED"), 10, 64)
	reps, _ := strconv.Atoi(os.Getenv("VERIF_REPS"))
	if reps < 1 {
		reps = 1
	}
	rng := rand.New(rand.NewSource(seed))
	var viol []map[string]any
	evals, distinct := 0, 0
	var samples []any
	bad := func(sig, f string, a ...any) {
		if len(viol) < 40 {
			viol = append(viol, map[string]any{"sig": sig, "desc": fmt.Sprintf(f, a...)})
		}
	}

	// ---- 1. mutation shapes: both encodings against the spec's cell set
	muts := c10read[c10Mut](in + "/c10_mutations.ndjson")
	rows := [][]byte{[]byte("r"), {}, {0, ',', 0xff}}
	for mi, mu := range muts {
		distinct++
		for ri, row := range rows {
			if ri > 0 && mi%7 != 0 {
				continue
			}
			evals++
			values := map[string]map[string][]byte{}
			if len(mu.Fams) == 0 && mi%2 == 0 {
				values = nil
			}
			for _, f := range mu.Fams {
				if f.Inner.Nil {
					values[string(c10b(f.F))] = nil
					continue
				}
				inner := map[string][]byte{}
				for _, qv := range f.Inner.Qs {
					inner[string(c10b(qv.Q))] = c10b(qv.V)
				}
				values[string(c10b(f.F))] = inner
			}
			var opts []func(Call) error
			if !mu.Latest {
				opts = append(opts, TimestampUint64(binary.BigEndian.Uint64(c10b(mu.Ts))))
			}
			if mu.OneVersion {
				opts = append(opts, DeleteOneVersion())
			}
			var m *Mutate
			var err error
			switch mu.Kind {
			case "put":
				m, err = NewPut(context.Background(), []byte("t"), row, values, opts...)
			case "delete":
				m, err = NewDel(context.Background(), []byte("t"), row, values, opts...)
			case "append":
				m, err = NewApp(context.Background(), []byte("t"), row, values, opts...)
			case "increment":
				m, err = NewInc(context.Background(), []byte("t"), row, values, opts...)
			}
			if err != nil {
				bad("constructor-error", "mutation %d (%s): constructor failed: %v", mi, mu.Kind, err)
				continue
			}
			m.SetRegion(c10region{})
			var want []string
			for _, c := range mu.Cells {
				want = append(want, c10cellKey(c10b(c.Family), c10b(c.Qualifier), binary.BigEndian.Uint64(c10b(c.Ts)), byte(c.Type), c10b(c.Value)))
			}
			sort.Strings(want)
			desc := fmt.Sprintf("%s oneVersion=%v latest=%v values=%s row=%q", mu.Kind, mu.OneVersion, mu.Latest, c10valuesString(values), row)
			// cellblock form
			func() {
				defer func() {
					if p := recover(); p != nil {
						sig := "cellblock-panic"
						if mu.Kind != "delete" {
							for _, f := range mu.Fams {
								if f.Inner.Nil {
									sig = "cellblock-panic:nil-inner-map-non-delete"
								}
							}
						}
						bad(sig, "SerializeCellBlocks panicked (%v) for %s", p, desc)
					}
				}()
				msg, cbs, size := m.SerializeCellBlocks(nil)
				var blob []byte
				for _, b := range cbs {
					blob = append(blob, b...)
				}
				if int(size) != len(blob) {
					bad("cellblock-size", "SerializeCellBlocks size %d but %d bytes for %s", size, len(blob), desc)
				}
				kvs, err := verifsim.DecodeKVs(blob)
				if err != nil {
					bad("cellblock-undecodable", "independent decoder rejects the cellblock of %s: %v", desc, err)
					return
				}
				var got []string
				for _, kv := range kvs {
					if !bytes.Equal(kv.Row, row) {
						bad("cellblock-row", "cell row %q != mutation row %q for %s", kv.Row, row, desc)
					}
					got = append(got, c10cellKey(kv.Family, kv.Qualifier, kv.Timestamp, kv.Type, kv.Value))
				}
				sort.Strings(got)
				if fmt.Sprint(got) != fmt.Sprint(want) {
					bad("cellblock-cells", "cellblock form of %s denotes %v, specification says %v", desc, got, want)
				}
				mp := msg.(*pb.MutateRequest).GetMutation()
				if int(mp.GetAssociatedCellCount()) != len(kvs) {
					bad("cellblock-count", "associated_cell_count %d but %d cells for %s", mp.GetAssociatedCellCount(), len(kvs), desc)
				}
				// the client's own decoder
				cells, n, err := deserializeCellBlocks(blob, uint32(len(kvs)))
				if err != nil || int(n) != len(blob) {
					bad("own-decoder", "client decoder: err=%v consumed=%d of %d for %s", err, n, len(blob), desc)
					return
				}
				var own []string
				for _, c := range cells {
					own = append(own, c10cellKey(c.Family, c.Qualifier, c.GetTimestamp(), byte(c.GetCellType()), c.Value))
				}
				sort.Strings(own)
				if fmt.Sprint(own) != fmt.Sprint(want) {
					bad("own-decoder", "client decoder reads %v from the cellblock of %s, specification says %v", own, desc, want)
				}
			}()
			// protobuf form
			func() {
				defer func() {
					if p := recover(); p != nil {
						bad("proto-panic", "ToProto panicked (%v) for %s", p, desc)
					}
				}()
				mp := m.ToProto().(*pb.MutateRequest).GetMutation()
				got := hbaseProtoToCells(mp)
				if fmt.Sprint(got) != fmt.Sprint(want) {
					bad("proto-cells", "protobuf form of %s denotes %v, specification says %v", desc, got, want)
				}
				if !bytes.Equal(mp.GetRow(), row) {
					bad("proto-row", "proto row %q != %q", mp.GetRow(), row)
				}
			}()
			if len(samples) < 3 && len(mu.Cells) > 1 {
				samples = append(samples, map[string]any{"mutation": desc, "cells": want})
			}
		}
	}

	// ---- 2. byte vectors of the small content scope
	kvs := c10read[c10KV](in + "/c10_kv.ndjson")
	for _, v := range kvs {
		evals++
		distinct++
		ts := binary.BigEndian.Uint64(c10b(v.Ts))
		want := c10b(v.Bytes)
		got := appendCellblock(c10b(v.Row), string(c10b(v.Family)), string(c10b(v.Qualifier)), c10b(v.Value), ts, byte(v.Type), []byte{0xAA})
		if !bytes.Equal(got[1:], want) || got[0] != 0xAA {
			bad("kv-bytes", "appendCellblock(%q,%q,%q,%q,%d,%d) = %v, specification says %v", c10b(v.Row), c10b(v.Family), c10b(v.Qualifier), c10b(v.Value), ts, v.Type, got[1:], want)
		}
		if cellblockLen(len(v.Row), len(v.Family), len(v.Qualifier), len(v.Value)) != v.Consumed {
			bad("kv-len", "cellblockLen = %d, specification says %d", cellblockLen(len(v.Row), len(v.Family), len(v.Qualifier), len(v.Value)), v.Consumed)
		}
		buf := append(append([]byte{}, want...), 0xEE, 0xEE) // trailing bytes must not be consumed
		c, n, err := cellFromCellBlock(buf)
		if err != nil || int(n) != v.Consumed {
			bad("kv-decode", "cellFromCellBlock(spec bytes): err=%v consumed=%d want %d", err, n, v.Consumed)
		} else if !bytes.Equal(c.Row, c10b(v.Row)) || !bytes.Equal(c.Family, c10b(v.Family)) || !bytes.Equal(c.Qualifier, c10b(v.Qualifier)) ||
			c.GetTimestamp() != ts || int(c.GetCellType()) != v.Type || !bytes.Equal(c.Value, c10b(v.Value)) {
			bad("kv-decode", "cellFromCellBlock(spec bytes) = %v, want row=%q fam=%q qual=%q ts=%d type=%d val=%q", c, c10b(v.Row), c10b(v.Family), c10b(v.Qualifier), ts, v.Type, c10b(v.Value))
		}
		kv, n2, err := verifsim.DecodeKV(buf)
		if err != nil || n2 != v.Consumed || !bytes.Equal(kv.Row, c10b(v.Row)) || !bytes.Equal(kv.Qualifier, c10b(v.Qualifier)) || kv.Timestamp != ts {
			panic(fmt.Sprintf("harness decoder disagrees with the specification: %v %v %v", kv, n2, err))
		}
	}

	// ---- 3. boundary lengths, seeded contents
	lens := c10read[c10Len](in + "/c10_lens.ndjson")
	for _, lv := range lens {
		for rep := 0; rep < reps; rep++ {
			evals++
			mk := func(n int) []byte {
				b := make([]byte, n)
				rng.Read(b)
				return b
			}
			row, fam, qual, val := mk(lv.RowLen), mk(lv.FamLen), mk(lv.QualLen), mk(lv.ValLen)
			ts := rng.Uint64()
			typ := byte(rng.Intn(256))
			got := appendCellblock(row, string(fam), string(qual), val, ts, typ, nil)
			hdr := c10b(lv.Hdr.Bytes)
			d := fmt.Sprintf("lengths row=%d fam=%d qual=%d val=%d", lv.RowLen, lv.FamLen, lv.QualLen, lv.ValLen)
			if len(got) != lv.Hdr.Consumed || !bytes.Equal(got[:len(hdr)], hdr) {
				bad("kv-header", "%s: cell is %d bytes with header %v; specification says %d bytes, header %v", d, len(got), got[:14], lv.Hdr.Consumed, hdr)
				continue
			}
			if int(got[lv.Hdr.FamLenOffset]) != lv.FamLen || binary.BigEndian.Uint64(got[lv.Hdr.TsOffset:]) != ts || got[lv.Hdr.TsOffset+8] != typ {
				bad("kv-header", "%s: family length / timestamp / type not at the specified offsets", d)
			}
			c, n, err := cellFromCellBlock(got)
			if err != nil || int(n) != len(got) || !bytes.Equal(c.Row, row) || !bytes.Equal(c.Family, fam) || !bytes.Equal(c.Qualifier, qual) ||
				!bytes.Equal(c.Value, val) || c.GetTimestamp() != ts || byte(c.GetCellType()) != typ {
				bad("kv-roundtrip", "%s: client decoder does not return the encoded cell (err=%v consumed=%d)", d, err, n)
			}
			kv, n2, err := verifsim.DecodeKV(got)
			if err != nil || n2 != len(got) || !bytes.Equal(kv.Row, row) || !bytes.Equal(kv.Family, fam) || !bytes.Equal(kv.Qualifier, qual) ||
				!bytes.Equal(kv.Value, val) || kv.Timestamp != ts || kv.Type != typ {
				bad("kv-roundtrip", "%s: independent decoder does not return the encoded cell (err=%v consumed=%d)", d, err, n2)
			}
		}
		distinct++
	}
	res := map[string]any{"evaluations": evals, "distinct": distinct, "violations": viol, "samples": samples,
		"mutations": len(muts), "kv_vectors": len(kvs), "length_vectors": len(lens)}
	rb, _ := json.Marshal(res)
	os.WriteFile(out+"/c10_result.json", rb, 0o644)
}

func c10valuesString(v map[string]map[string][]byte) string {
	if v == nil {
		return "nil"
	}
	var fs []string
	for f := range v {
		fs = append(fs, f)
	}
	sort.Strings(fs)
	s := "{"
	for _, f := range fs {
		if v[f] == nil {
			s += fmt.Sprintf("%q:nil ", f)
			continue
		}
		var qs []string
		for q := range v[f] {
			qs = append(qs, q)
		}
		sort.Strings(qs)
		s += fmt.Sprintf("%q:{", f)
		for _, q := range qs {
			s += fmt.Sprintf("%q:%q ", q, v[f][q])
		}
		s += "} "
	}
	return s + "}"
}

type c10region struct{ RegionInfo }

func (c10region) Name() []byte { return []byte("t,,1") }
