SPECIFICATION Spec
CONSTANT AtomicPut = FALSE
VIEW View
INVARIANTS NoOverlap UniqueNames NewestStays
CHECK_DEADLOCK FALSE
