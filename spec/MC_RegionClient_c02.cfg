SPECIFICATION Spec
CONSTANTS
  NU = 1
  NS = 2
  UCalls <- MC_UCalls
  Subs <- MC_Subs
  BatchOf <- MC_BatchOf
  HasCB <- MC_HasCB
  MultiNames <- MC_MultiNames
  QueueSize = 2
  FlushZero = FALSE
  ArmFirst = FALSE
  SignedArm = TRUE
  AtomicWrites = TRUE
  WriteLock = FALSE
  AtomicDown = TRUE
  CompleteOnDownError = TRUE
  CloseBeforeSwap = TRUE
  MaxFaults = 0
  MaxCancels = 1
  AllowClose = FALSE
  AllowReorder = TRUE
VIEW View
INVARIANTS TypeOK AtMostOnce OkOnlyIfAnswered
CHECK_DEADLOCK FALSE
