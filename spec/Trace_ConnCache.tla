--------------------------- MODULE Trace_ConnCache ---------------------------
(* Contract view of the connection cache for C20 / C19: dials per address,  *)
(* clientDown declarations per address, connections open at the servers at  *)
(* quiescent points, Close.  The invariants are those of ConnCache.tla      *)
(* stated on observable events.                                             *)
EXTENDS Integers, Sequences, FiniteSets, TLC, Json
T == ndJsonDeserialize("cc_trace.ndjson")
VARIABLES i, dials, declared, closed, lastQ
vars == <<i, dials, declared, closed, lastQ>>
Zero == [a \in {} |-> 0]
Get(f, a) == IF a \in DOMAIN f THEN f[a] ELSE 0
Inc(f, a) == [x \in DOMAIN f \cup {a} |-> IF x = a THEN Get(f, a) + 1 ELSE f[x]]
Init == i = 1 /\ dials = Zero /\ declared = Zero /\ closed = FALSE /\ lastQ = <<>>
Next ==
  /\ i <= Len(T) /\ i' = i + 1
  /\ LET e == T[i] IN
     CASE e.ev = "reset" -> dials' = Zero /\ declared' = Zero /\ closed' = FALSE /\ lastQ' = <<>>
       [] e.ev = "dial" -> dials' = Inc(dials, e.addr) /\ lastQ' = <<>> /\ UNCHANGED <<declared, closed>>
       [] e.ev = "declaredDead" -> declared' = Inc(declared, e.addr) /\ lastQ' = <<>> /\ UNCHANGED <<dials, closed>>
       [] e.ev = "closeReturned" -> closed' = TRUE /\ lastQ' = <<>> /\ UNCHANGED <<dials, declared>>
       [] e.ev = "quiesce" -> lastQ' = <<e>> /\ UNCHANGED <<dials, declared, closed>>
       [] OTHER -> UNCHANGED <<dials, declared, closed, lastQ>>
Spec == Init /\ [][Next]_vars
(* C20: a new connection to an address only after the previous one was declared dead *)
DialsBounded == \A a \in DOMAIN dials : dials[a] <= 1 + Get(declared, a)
(* at a quiescent point at most one connection per address is open; none after Close *)
QuiescentOK ==
  lastQ # <<>> =>
    /\ \A j \in 1..Len(lastQ[1].open) : lastQ[1].open[j].n <= (IF closed THEN 0 ELSE 1)
Accepted == TLCGet("stats").diameter = Len(T) + 1
=============================================================================
