SPECIFICATION Spec
INVARIANT LineOK
POSTCONDITION Accepted
CHECK_DEADLOCK FALSE
