SPECIFICATION RSpec
CONSTANT MaxFaulty = 3
INVARIANTS NonRetryableOnce RetryOnlyRetryable BoundedAttempts
PROPERTIES EventuallyReturns SucceedsUnlessApplicationError
CHECK_DEADLOCK FALSE
