SPECIFICATION Spec
CONSTANTS
  N = 3
  MaxRound = 3
  FixIndex = TRUE
  FixOwnCtx = TRUE
INVARIANTS Positional EveryCallDecided AllOKIffNoError ReturnsWhenOwnCtxEnded OnlyRetryableResent NoReexecutionAfterSuccess BatchOrderKept
PROPERTIES KeepsSuccess
CHECK_DEADLOCK FALSE
