SPECIFICATION Spec
CONSTANTS
  Ests <- MC_Ests
  AddrOf <- MC_AddrOf
  MaxConn = 4
  MaxTries = 2
  MaxKills = 1
  AllowClose = TRUE
  FixPut = TRUE
  MaxReplace = 1
  DelDropsEmpty = TRUE
  CloseOnlyWithRegions = FALSE
  FixDial = TRUE
INVARIANTS OneCachedPerAddr DialsBounded ClosedIsTerminal
CHECK_DEADLOCK FALSE
