SPECIFICATION Spec
INVARIANTS StableResult AtMostOnce OwnResponse OwnException OnlySubmittedGetResults QuiescentOK UnansweredGetConnError
POSTCONDITION Accepted
CHECK_DEADLOCK FALSE
