SPECIFICATION Spec
INVARIANTS AtMostOnce OwnResponse OnlySubmittedGetResults QuiescentOK UnansweredGetConnError
POSTCONDITION Accepted
CHECK_DEADLOCK FALSE
