SPECIFICATION TSpec
INVARIANTS StepOK NoOverlap UniqueNames
POSTCONDITION Accepted
CHECK_DEADLOCK FALSE
