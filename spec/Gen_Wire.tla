------------------------------ MODULE Gen_Wire ------------------------------
EXTENDS Wire, TLC, Json, SequencesExt
Q == {o \in QueryOptions : ValidQuery(o)}
ASSUME ndJsonSerialize("c05_queries.ndjson", SetToSeq({[opt |-> o, exp |-> ExpectedQuery(o)] : o \in Q}))
ASSUME ndJsonSerialize("c05_scans.ndjson", SetToSeq({[opt |-> s, exp |-> ExpectedScan(s)] : s \in ScanShapes}))
ASSUME ndJsonSerialize("c05_mutextras.ndjson", SetToSeq(MutExtras))
(* the grammar itself: well-formed streams are accepted, each single defect is rejected *)
Good == << [t |-> "preamble"], [t |-> "connheader"], [t |-> "frame", id |-> 1, total |-> 30, hdr |-> 10, req |-> 20, cb |-> 0, cbmeta |-> 0],
           [t |-> "frame", id |-> 2, total |-> 45, hdr |-> 10, req |-> 20, cb |-> 15, cbmeta |-> 15] >>
ASSUME ParserOK(Good)
ASSUME ~ParserOK(Tail(Good))
ASSUME ~ParserOK([Good EXCEPT ![4].id = 1])
ASSUME ~ParserOK([Good EXCEPT ![4].cbmeta = 14])
ASSUME ~ParserOK([Good EXCEPT ![3].total = 31])
VARIABLE x
Init == x = 0
Next == UNCHANGED x
Spec == Init /\ [][Next]_x
=============================================================================
