SPECIFICATION Spec
CONSTANTS
  NU = 2
  NS = 1
  UCalls <- MC_UCalls
  Subs <- MC_Subs
  BatchOf <- MC_BatchOf
  HasCB <- MC_HasCB
  MultiNames <- MC_MultiNames
  QueueSize = 2
  FlushZero = FALSE
  ArmFirst = FALSE
  SignedArm = TRUE
  AtomicWrites = TRUE
  WriteLock = FALSE
  AtomicDown = FALSE
  CompleteOnDownError = TRUE
  CloseBeforeSwap = TRUE
  MaxFaults = 0
  MaxCancels = 1
  AllowClose = FALSE
  AllowReorder = TRUE
VIEW View
INVARIANTS TypeOK IdleNotArmed BusyArmed TimeoutOnlyWhenBusy AtMostOnce
CHECK_DEADLOCK FALSE
