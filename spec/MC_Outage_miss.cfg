SPECIFICATION Spec
CONSTANTS
  Callers <- MC_Callers
  Three = TRUE
  MaxEst = 2
  MaxFaults = 2
  AllowClose = FALSE
  AllowSplit = TRUE
  StartCached = FALSE
  MarkBeforePut = TRUE
  AllowReplace = FALSE
  DelBeforeAvail = TRUE
INVARIANTS NoPanic OneEstablisher EstablisherOnlyWhileUnavailable StableEnd
