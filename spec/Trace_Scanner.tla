---------------------------- MODULE Trace_Scanner ----------------------------
(* Executions of the real scanner against the simulated servers, replayed   *)
(* through Scanner.tla.  Logged: the scenario, every Next() call and what   *)
(* it returned, every scan request the servers saw (open / continue /       *)
(* close) and how they cut the answer, cancellations and Close calls, the   *)
(* scanners still open at the end.  peek/coalesce steps are internal.       *)
EXTENDS Scanner, TLC, Json
T == ndJsonDeserialize("scan_trace.ndjson")
VARIABLES i, seen, idmap, closesSeen, lastRet
tvars == <<vars, i, seen, idmap, closesSeen, lastRet>>

KeyIdx(k) == CHOOSE j \in 1..Len(cfg.rows) : cfg.rows[j].key = k
Empty == [x \in {} |-> 0]
Dummy == [rows |-> <<>>, splits |-> <<>>, start |-> <<>>, stop |-> <<>>, reversed |-> FALSE, partial |-> FALSE, renew |-> FALSE]
TInit == cfg = Dummy /\ InitRest /\ i = 1 /\ seen = 0 /\ idmap = Empty /\ closesSeen = {} /\ lastRet = <<>>

Consume == i' = i + 1
Keep == UNCHANGED <<seen, idmap, closesSeen, lastRet>>

EvStart(e) ==
  /\ cfg' = [rows |-> e.rows, splits |-> e.splits, start |-> e.start, stop |-> e.stop, reversed |-> e.reversed, partial |-> e.partial,
             renew |-> IF "renew" \in DOMAIN e THEN e.renew ELSE FALSE]
  /\ scn' = Empty /\ nextId' = 1 /\ startRow' = e.start /\ curId' = 0 /\ curReg' = 0 /\ buf' = <<>> /\ closed' = FALSE
  /\ renewing' = FALSE /\ renewId' = 0 /\ ticks' = 0 /\ orphans' = {} /\ pc' = "idle" /\ acc' = NoAcc /\ opening' = FALSE /\ outs' = <<>> /\ closeSent' = {}
  /\ cancelled' = FALSE /\ errors' = 0 /\ ctxReported' = FALSE /\ userClosed' = FALSE /\ earlyEnded' = FALSE
  /\ seen' = 0 /\ idmap' = Empty /\ closesSeen' = {} /\ lastRet' = <<>>

(* the value Next() returned, as logged, against the model's *)
SameOut(o, e) ==
  /\ o.kind = e.kind
  /\ (o.kind = "row" => cfg.rows[o.row].key = e.row /\ o.n = e.n /\ (cfg.partial => o.partial = e.partial))

TNext ==
  \/ /\ Peek /\ UNCHANGED <<cfg, i>> /\ Keep                                    \* internal
  \/ /\ i <= Len(T) /\ Consume
     /\ LET e == T[i] IN
        CASE e.ev = "scanStart" -> EvStart(e)
          [] e.ev = "nextCall" -> NextCall /\ UNCHANGED cfg /\ Keep
          [] e.ev = "next" ->   \* the call has returned in the model too, with the same value
               /\ pc = "idle" /\ Len(outs) = seen + 1 /\ SameOut(outs[Len(outs)], e)
               /\ seen' = seen + 1 /\ lastRet' = <<e>> /\ UNCHANGED <<vars, idmap, closesSeen>>
          [] e.ev = "scanOpen" ->   \* the client opened a region scanner: where and from which row the model says
               /\ curId = 0 /\ Request /\ UNCHANGED cfg
               /\ e.regionStart = RegStart(RegionOf(startRow)) /\ e.start = startRow /\ e.stop = cfg.stop
               /\ idmap' = [x \in DOMAIN idmap \cup {nextId} |-> IF x = nextId THEN e.scanner ELSE idmap[x]]
               /\ UNCHANGED <<seen, closesSeen, lastRet>>
          [] e.ev = "scanCont" ->
               /\ curId # 0 /\ Request /\ UNCHANGED cfg /\ idmap[curId] = e.scanner /\ Keep
          [] e.ev = "scanResp" ->
               /\ Respond(Len(e.chunk), IF Len(e.chunk) > 0 /\ e.chunk[Len(e.chunk)].partial THEN e.chunk[Len(e.chunk)].ncells ELSE 0,
                          e.noMoreResults)
               /\ UNCHANGED cfg /\ Keep
               \* the harness server cut the answer as the specification's server would
               /\ \A j \in 1..Len(e.chunk) : /\ cfg.rows[buf'[j].row].key = e.chunk[j].row
                                              /\ buf'[j].n = e.chunk[j].ncells /\ buf'[j].partial = e.chunk[j].partial
          [] e.ev = "scanRenew" ->   \* a renewal tick between two Next calls: for the region scanner the renewer was started for
               /\ RenewTick /\ UNCHANGED cfg /\ Keep
               /\ e.known /\ renewId \in DOMAIN idmap /\ idmap[renewId] = e.scanner
          [] e.ev = "scanExc" -> RequestFails("err") /\ UNCHANGED cfg /\ Keep
          [] e.ev = "scanClose" -> closesSeen' = closesSeen \cup {e.scanner} /\ UNCHANGED <<vars, seen, idmap, lastRet>>
          [] e.ev = "cancel" -> Cancel /\ UNCHANGED cfg /\ Keep
          [] e.ev = "userClose" -> UserClose /\ UNCHANGED cfg /\ Keep
          [] e.ev = "scanEnd" ->  \* nothing left open; explicit closes went exactly to the scanners the model closes
               /\ e.open = <<>>
               /\ closesSeen = {idmap[x] : x \in closeSent}
               /\ UNCHANGED <<vars, seen, idmap, closesSeen, lastRet>>
          [] OTHER -> UNCHANGED <<vars, seen, idmap, closesSeen, lastRet>>
TSpec == TInit /\ [][TNext]_tvars

(* acceptance: every line consumed (silent steps exist, so a high-water mark is kept) *)
ASSUME TLCSet(1, 0)
HighWater == TLCSet(1, IF i > TLCGet(1) THEN i ELSE TLCGet(1))
TraceAccepted == IF TLCGet(1) = Len(T) + 1 THEN TRUE ELSE PrintT(<<"@@STUCK", TLCGet(1)>>) /\ FALSE
=============================================================================
