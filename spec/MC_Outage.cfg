SPECIFICATION Spec
CONSTANTS
  Callers <- MC_Callers
  Three = TRUE
  MaxEst = 2
  MaxFaults = 3
  AllowClose = FALSE
  AllowSplit = TRUE
  StartCached = TRUE
  MarkBeforePut = TRUE
  AllowReplace = FALSE
  DelBeforeAvail = TRUE
INVARIANTS NoPanic OneEstablisher EstablisherOnlyWhileUnavailable StableEnd
