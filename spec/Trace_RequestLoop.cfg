SPECIFICATION Spec
INVARIANTS RetriesJustified EndsAsLastAttempt StableQuiescence
POSTCONDITION Accepted
CHECK_DEADLOCK FALSE
