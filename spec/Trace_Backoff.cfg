SPECIFICATION TSpec
INVARIANTS GapsFollowSchedule BudgetOK
POSTCONDITION Accepted
CHECK_DEADLOCK FALSE
