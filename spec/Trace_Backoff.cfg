SPECIFICATION TSpec
INVARIANT GapsFollowSchedule
POSTCONDITION Accepted
CHECK_DEADLOCK FALSE
