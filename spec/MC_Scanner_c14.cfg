SPECIFICATION Spec
CONSTANTS
  PartialModes = {FALSE, TRUE}
  MaxCut = 2
  MaxErrors = 1
  AllowCancel = TRUE
  AllowUserClose = TRUE
  AllowEarlyEnd = TRUE
  MaxRenew = 0
  FixRenew = TRUE
  RenewModes = {FALSE}
  ErrorOnce = TRUE
VIEW View
INVARIANTS PrefixOfExpected ExactRowsAtEOF FragmentsConcatenate ErrorOnceThenEOF NoLeakedRegionScanner ClosedMeansNoCurrent
CHECK_DEADLOCK FALSE
