----------------------------- MODULE RequestLoop -----------------------------
(* rpc.go: SendRPC for one request with a live context against a cluster    *)
(* that misbehaves for a bounded number of attempts and is stable           *)
(* afterwards (property C04).  What an attempt meets is a Java exception    *)
(* class (or success, or a dropped connection); the class table of          *)
(* ErrorClasses decides what the loop does next.                            *)
EXTENDS Integers, Sequences, ErrorClasses, Backoff

CONSTANT MaxFaulty   \* the cluster may answer badly at most this many attempts
OK == [class |-> "ok", wal |-> FALSE]
Outcomes == {[class |-> c, wal |-> FALSE] : c \in AllClasses} \cup {[class |-> IOExc, wal |-> TRUE], [class |-> "drop", wal |-> FALSE]}
Kind(o) == IF o.class = "drop" THEN "server" ELSE Classify(o.class, o.wal)

VARIABLES pc, met, bo, srvErrs, sleeps, result
rvars == <<pc, met, bo, srvErrs, sleeps, result>>
RInit == pc = "locate" /\ met = <<>> /\ bo = Start /\ srvErrs = 0 /\ sleeps = <<>> /\ result = "none"
      /\ kind = "later" /\ b = Start /\ errs = 0 /\ attempts = 1 /\ waits = <<>>     \* (unused variables of Backoff)

Attempt(o) ==
  /\ pc = "locate"
  /\ (Len(met) >= MaxFaulty => o = OK)           \* the cluster is stable now
  /\ met' = Append(met, o)
  /\ IF o = OK THEN pc' = "done" /\ result' = "ok" /\ UNCHANGED <<bo, srvErrs, sleeps>>
     ELSE CASE Kind(o) = "retryable" -> /\ sleeps' = Append(sleeps, bo) /\ bo' = NextB(bo) /\ pc' = "locate" /\ UNCHANGED <<srvErrs, result>>
            [] Kind(o) = "server" -> /\ (IF srvErrs > 1 THEN sleeps' = Append(sleeps, bo) /\ bo' = NextB(bo) ELSE UNCHANGED <<sleeps, bo>>)
                                     /\ srvErrs' = srvErrs + 1 /\ pc' = "locate" /\ UNCHANGED result
            [] Kind(o) = "notserving" -> pc' = "locate" /\ UNCHANGED <<bo, srvErrs, sleeps, result>>   \* waits for the region instead
            [] OTHER -> pc' = "done" /\ result' = o.class /\ UNCHANGED <<bo, srvErrs, sleeps>>          \* returned unchanged
RNext == (\E o \in Outcomes \cup {OK} : Attempt(o)) /\ UNCHANGED lvars
RSpec == RInit /\ [][RNext]_<<rvars, lvars>> /\ WF_<<rvars, lvars>>(RNext)

(* errors outside the retryable classes are returned unchanged after exactly one more attempt: never retried *)
NonRetryableOnce ==
  \A j \in 1..Len(met) : (met[j] # OK /\ Kind(met[j]) = "other") => (j = Len(met) /\ pc = "done" /\ result = met[j].class)
(* only retryable classes are followed by another attempt *)
RetryOnlyRetryable == \A j \in 1..(Len(met) - 1) : met[j] # OK /\ Kind(met[j]) \in {"retryable", "notserving", "server"}
BoundedAttempts == Len(met) <= MaxFaulty + 1
EventuallyReturns == <>(pc = "done")
SucceedsUnlessApplicationError == [](pc = "done" => (result = "ok" \/ \E j \in 1..Len(met) : met[j] # OK /\ Kind(met[j]) = "other"))
=============================================================================
