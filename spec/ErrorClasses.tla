---------------------------- MODULE ErrorClasses ----------------------------
(* How the client must classify a Java exception reported by HBase          *)
(* (region/client.go: exceptionToError) and what each class makes the       *)
(* request loop do (rpc.go: SendRPC / handleResultError).                   *)
(*   retryable  : back off, send again to the same region and server        *)
(*   notserving : re-establish the region (new lookup), send again          *)
(*   server     : the connection is dead: close it, re-establish all of its *)
(*                regions, send again (immediately at most twice)           *)
(*   other      : returned to the caller unchanged, never retried           *)
EXTENDS Sequences

Retryable == {"org.apache.hadoop.hbase.CallQueueTooBigException",
              "org.apache.hadoop.hbase.exceptions.RegionOpeningException",
              "org.apache.hadoop.hbase.quotas.RpcThrottlingException",
              "org.apache.hadoop.hbase.RetryImmediatelyException",
              "org.apache.hadoop.hbase.RegionTooBusyException",
              "org.apache.hadoop.hbase.PleaseHoldException"}
NotServing == {"org.apache.hadoop.hbase.NotServingRegionException",
               "org.apache.hadoop.hbase.exceptions.RegionMovedException"}
ServerFatal == {"org.apache.hadoop.hbase.regionserver.RegionServerAbortedException",
                "org.apache.hadoop.hbase.regionserver.RegionServerStoppedException",
                "org.apache.hadoop.hbase.exceptions.MasterStoppedException",
                "org.apache.hadoop.hbase.ipc.ServerNotRunningYetException"}
(* java.io.IOException is "not serving" only when its text says the WAL is closed *)
IOExc == "java.io.IOException"
WalClosed == "Cannot append; log is closed"

Classify(class, walClosedInStack) ==
  IF class \in Retryable THEN "retryable"
  ELSE IF class \in NotServing THEN "notserving"
  ELSE IF class = IOExc /\ walClosedInStack THEN "notserving"
  ELSE IF class \in ServerFatal THEN "server"
  ELSE "other"

Known == Retryable \cup NotServing \cup ServerFatal \cup {IOExc}
Unknown == {"org.apache.hadoop.hbase.DoNotRetryIOException",
            "org.apache.hadoop.hbase.TableNotFoundException",
            "org.apache.hadoop.hbase.regionserver.NoSuchColumnFamilyException",
            "java.lang.RuntimeException"}
AllClasses == Known \cup Unknown
=============================================================================
