SPECIFICATION Spec
CONSTANTS
  NU = 2
  NS = 1
  UCalls <- MC_UCalls
  Subs <- MC_Subs
  BatchOf <- MC_BatchOf
  HasCB <- MC_HasCB
  MultiNames <- MC_MultiNames
  QueueSize = 2
  FlushZero = TRUE
  ArmFirst = FALSE
  SignedArm = TRUE
  AtomicWrites = FALSE
  WriteLock = TRUE
  AtomicDown = TRUE
  CompleteOnDownError = TRUE
  CloseBeforeSwap = TRUE
  MaxFaults = 0
  MaxCancels = 0
  AllowClose = FALSE
  AllowReorder = TRUE
VIEW View
INVARIANTS WireWellFormed CallIdsUnique
CHECK_DEADLOCK FALSE
