--------------------------- MODULE MC_RegionClient ---------------------------
EXTENDS RegionClient
CONSTANTS NU, NS    \* how many unbatched senders / submitters of the fixed pool take part
UCallsPool == <<"u1", "u2", "u3">>
SubsPool == <<"s1", "s2", "s3">>
MC_UCalls == {UCallsPool[i] : i \in 1..NU}
MC_Subs == {SubsPool[i] : i \in 1..NS}
MC_BatchOf == [s \in MC_Subs |-> IF s = "s1" THEN <<"b1">> ELSE IF s = "s2" THEN <<"b2", "b3">> ELSE <<"b4">>]
MC_HasCB == {"u2"}
MC_MultiNames == <<"m1", "m2">>
(* output-only variables are hidden from the fingerprint *)
View == <<pc, done, failOnce, failer, failpc, conn, broken, sent, inFlight, deadline, wlock, offer, cur, nmulti, multis,
          wire, inbox, responded, results, accepted, ctxDone, armed, answered, failed, timedOut, faults, cancels>>
=============================================================================
