------------------------- MODULE MC_RegionNameTriples -------------------------
(* Transitivity of the transcribed Compare on all triples of a sub-scope.  *)
EXTENDS RegionName, TLC
Tables == {<<97>>, <<97, 97>>, <<97, 45>>}
Keys == {<<>>, <<0>>, <<43>>, <<44>>, <<45>>, <<44, 44>>}
Ids == {<<49>>, <<49, 50>>}
All == {Name(t, s, i) : t \in Tables, s \in Keys, i \in Ids}
         \cup {SearchName(t, k) : t \in Tables, k \in Keys}
VARIABLES x, y, z
Init == x \in All /\ y \in All /\ z \in All
Next == UNCHANGED <<x, y, z>>
Spec == Init /\ [][Next]_<<x, y, z>>
C(a, b) == AlgoCmp(Flat(a), Flat(b))
Transitive == (C(x, y) < 0 /\ C(y, z) < 0) => C(x, z) < 0
=============================================================================
