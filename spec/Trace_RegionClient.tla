-------------------------- MODULE Trace_RegionClient --------------------------
(* Contract view of one regionserver connection, for validating executions  *)
(* of the real region.client (properties C02, C03, C18).  Only observable   *)
(* events are used: what callers submit, what the (simulated) server        *)
(* receives and answers, what arrives on each result channel, the state of  *)
(* the read deadline and of the connection at quiescent points.             *)
(*                                                                          *)
(* RegionClient.tla is the implementation-shaped model; the invariants here *)
(* are the same properties stated on the observable projection.             *)
EXTENDS Integers, Sequences, FiniteSets, TLC, Json, ErrorClasses
T == ndJsonDeserialize("rc_trace.ndjson")

VARIABLES i,
  submitted,  \* calls handed to the connection
  cancelled,  \* calls whose context the driver ended
  reqs,       \* function: request id -> sequence of calls it carries
  answers,    \* function: request id -> [kind, calls (answered ok), ncells]
  results,    \* function: call -> sequence of [kind, row, ncells]
  closed,     \* the client closed its end
  lastQ,      \* last quiescent observation or <<>>
  lastR       \* last second look at a result a caller holds, or <<>>

vars == <<i, submitted, cancelled, reqs, answers, results, closed, lastQ, lastR>>
ToSet(s) == {s[j] : j \in 1..Len(s)}
Empty == [x \in {} |-> 0]
Ext(f, k, v) == [x \in DOMAIN f \cup {k} |-> IF x = k THEN v ELSE f[x]]

Reset == /\ submitted' = {} /\ cancelled' = {} /\ reqs' = Empty /\ answers' = Empty /\ results' = Empty
         /\ closed' = FALSE /\ lastQ' = <<>> /\ lastR' = <<>>
Init == /\ i = 1 /\ submitted = {} /\ cancelled = {} /\ reqs = Empty /\ answers = Empty /\ results = Empty
        /\ closed = FALSE /\ lastQ = <<>> /\ lastR = <<>>

Next ==
  /\ i <= Len(T) /\ i' = i + 1
  /\ lastR' = IF T[i].ev = "recheck" THEN <<T[i]>> ELSE <<>>
  /\ LET e == T[i] IN
     CASE e.ev = "reset" -> Reset
       [] e.ev = "submit" -> /\ submitted' = submitted \cup {e.call}
                             /\ results' = IF e.call \in DOMAIN results THEN results ELSE Ext(results, e.call, <<>>)
                             /\ lastQ' = <<>> /\ UNCHANGED <<cancelled, reqs, answers, closed>>
       [] e.ev = "cancel" -> /\ cancelled' = cancelled \cup {e.call} /\ lastQ' = <<>>
                             /\ UNCHANGED <<submitted, reqs, answers, results, closed>>
       [] e.ev = "srvreq" -> /\ reqs' = Ext(reqs, e.id, e.calls) /\ lastQ' = <<>>
                             /\ UNCHANGED <<submitted, cancelled, answers, results, closed>>
       [] e.ev = "srvresp" -> /\ answers' = Ext(answers, e.id, [kind |-> e.kind, calls |-> e.calls, ncells |-> e.ncells,
                                                               excs |-> IF "excs" \in DOMAIN e THEN e.excs ELSE <<>>])
                              /\ lastQ' = <<>> /\ UNCHANGED <<submitted, cancelled, reqs, results, closed>>
       [] e.ev = "result" -> /\ results' = Ext(results, e.call, Append(IF e.call \in DOMAIN results THEN results[e.call] ELSE <<>>,
                                                                       [kind |-> e.kind, row |-> e.row, ncells |-> e.ncells]))
                             /\ lastQ' = <<>> /\ UNCHANGED <<submitted, cancelled, reqs, answers, closed>>
       [] e.ev = "connClosed" -> closed' = TRUE /\ lastQ' = <<>> /\ UNCHANGED <<submitted, cancelled, reqs, answers, results>>
       [] e.ev = "quiesce" -> /\ lastQ' = <<[armed |-> e.armed, done |-> e.done, pending |-> ToSet(e.pending)]>>
                              /\ UNCHANGED <<submitted, cancelled, reqs, answers, results, closed>>
       [] OTHER -> UNCHANGED <<submitted, cancelled, reqs, answers, results, closed, lastQ>>
Spec == Init /\ [][Next]_vars

----------------------------------------------------------------------------
(* C03 / C02 *)
AtMostOnce == \A c \in DOMAIN results : Len(results[c]) <= 1

(* the answer the server produced for call c, if any: [id, pos] *)
AnsweredOK(c) == {id \in DOMAIN answers : \E p \in 1..Len(answers[id].calls) : answers[id].calls[p] = c}
NcellsFor(c, id) == LET p == CHOOSE p \in 1..Len(answers[id].calls) : answers[id].calls[p] = c IN answers[id].ncells[p]

OwnResponse ==
  \A c \in DOMAIN results : \A k \in 1..Len(results[c]) :
     results[c][k].kind = "ok" =>
        /\ AnsweredOK(c) # {}                                       \* the server did answer this very call
        /\ \E id \in AnsweredOK(c) : /\ c \in ToSet(reqs[id])
                                     /\ results[c][k].ncells = NcellsFor(c, id)   \* all of its cells, none of another's
        /\ (results[c][k].ncells > 0 => results[c][k].row = c)       \* and they are its own

(* a call the server answered with an exception gets that exception's class, and only that call (or, for a
   per-region exception, every call of that region) *)
ExcsFor(c) == {x \in UNION {ToSet(answers[id].excs) : id \in DOMAIN answers} : x.call = c}
OwnException ==
  \A c \in DOMAIN results : \A k \in 1..Len(results[c]) :
     /\ (ExcsFor(c) # {} /\ AnsweredOK(c) = {} /\ results[c][k].kind # "server")
           => \E x \in ExcsFor(c) : results[c][k].kind = Classify(x.class, x.wal)
     /\ (results[c][k].kind \in {"retryable", "notserving", "other"}) => ExcsFor(c) # {} \/ results[c][k].kind = "retryable"

OnlySubmittedGetResults == \A c \in DOMAIN results : results[c] # <<>> => c \in submitted

(* at a quiescent point *)
Outstanding == {id \in DOMAIN reqs : id \notin DOMAIN answers}
QuiescentOK ==
  lastQ # <<>> =>
    LET q == lastQ[1] IN
      /\ (~q.done /\ Outstanding = {}) => ~q.armed                 \* C18: idle => no deadline pending
      /\ (~q.done /\ Outstanding # {}) => q.armed                  \* C18: busy => deadline pending
      /\ q.done => /\ closed                                        \* C03: a dead client has closed its socket
                   /\ \A c \in submitted : c \in cancelled \/ Len(results[c]) = 1   \* ... and completed everything
                   /\ q.pending \subseteq cancelled
      /\ ~q.done => \A c \in q.pending : c \in cancelled \/ \E id \in Outstanding : c \in ToSet(reqs[id])
(* a call the server never answered may only end with a connection-level error *)
UnansweredGetConnError ==
  \A c \in DOMAIN results : \A k \in 1..Len(results[c]) :
     (\A id \in DOMAIN answers : c \notin ToSet(reqs[id])) => results[c][k].kind = "server"

(* C02: what a caller was given stays what it was given (it is not overwritten by a later response) *)
StableResult ==
  lastR # <<>> =>
     LET e == lastR[1] IN
       /\ e.call \in DOMAIN results /\ e.k <= Len(results[e.call])
       /\ results[e.call][e.k].row = e.row /\ results[e.call][e.k].ncells = e.ncells

StepIndex == i
Accepted == TLCGet("stats").diameter = Len(T) + 1
=============================================================================
