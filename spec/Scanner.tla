------------------------------- MODULE Scanner -------------------------------
(* The client-side scanner (scanner.go) against region scanners of the      *)
(* servers (properties C06 and C14).                                        *)
(*                                                                          *)
(* Client: a transcription of Next / peek / fetch / request / update /      *)
(* isDone / coalesce / Close / closeRegionScanner as a sequential process.  *)
(* Environment: a table cut into regions; per request the server chooses    *)
(* how many results to return, whether to cut the last row into a partial   *)
(* fragment, whether to send an empty heartbeat, whether to claim that the  *)
(* whole scan is over; a request may fail; the context may be cancelled;    *)
(* the user may call Close between two Next calls.                          *)
(*                                                                          *)
(* Keys are byte strings (sequences of naturals).  The table is the         *)
(* constant sequence cfg.rows of [key, n] (n = number of cells) in ascending    *)
(* key order; a row is referred to by its index.                            *)
EXTENDS RegionName, SequencesExt

(* The scenario is the record cfg (a variable that never changes after Init, so that one run covers many):   *)
(*   rows     <<[key |-> k, n |-> cells], ...>> ascending by key                                               *)
(*   splits   ascending split keys; regions are [<<>>,s1) [s1,s2) ... [sk,<<>>)                                 *)
(*   start, stop, reversed, partial   the scan range, direction and AllowPartialResults                        *)
(*   renew    hrpc.RenewInterval is set: between two fetches a renewer goroutine keeps the lease of the region   *)
(*            scanner alive while the user is busy (renewLoop / renew)                                           *)
CONSTANTS MaxCut,      \* largest number of results per response the environment tries
          MaxErrors, AllowCancel, AllowUserClose, AllowEarlyEnd,
          ErrorOnce,   \* TRUE: a cancelled scanner reports the context error once, then end-of-scan
          MaxRenew,    \* renewal ticks the environment lets happen in one scan
          FixRenew     \* TRUE: a renewer is started only for an open region scanner and renews THAT scanner (its id is
                       \*       captured); FALSE (pinned tree): started after every fetch, reads the current id at each tick

VARIABLES
  cfg,
  \* servers
  scn,       \* [id -> [reg, rows, pos, out]] open region scanners (out = cells of rows[pos] already sent)
  nextId,
  \* client (scanner struct)
  startRow, curId, curReg, buf, closed,
  renewing,  \* a renewer goroutine is alive
  renewId,   \* the region scanner id it captured when it was started (FixRenew)
  ticks,     \* renewal ticks so far
  orphans,   \* region scanners opened on a server by a renewal request that carried no scanner id
  \* one Next() call in progress
  pc,        \* "idle" / "peek" / "req" / "resp"
  acc,       \* row being assembled by Next: <<>> or <<[row, n]>>
  opening,   \* the outstanding request opens a region scanner (its id is not known to the client yet)
  \* environment / history
  outs,      \* what Next returned, in order: [kind, row, n, partial]
  closeSent, \* region scanner ids for which an explicit close request was sent
  cancelled, errors, ctxReported, userClosed, earlyEnded

vars == <<cfg, scn, nextId, startRow, curId, curReg, buf, closed, renewing, renewId, ticks, orphans, pc, acc, opening, outs, closeSent,
          cancelled, errors, ctxReported, userClosed, earlyEnded>>

NReg == Len(cfg.splits) + 1
RegStart(r) == IF r = 1 THEN <<>> ELSE cfg.splits[r - 1]
RegStop(r) == IF r = NReg THEN <<>> ELSE cfg.splits[r]
InReg(r, k) == Lex(RegStart(r), k) <= 0 /\ (RegStop(r) = <<>> \/ Lex(k, RegStop(r)) < 0)
RegionOf(k) == CHOOSE r \in 1..NReg : InReg(r, k)

Pad == <<255, 255, 255, 255, 255, 255, 255, 255>>
(* scanner.go update(): "closest row before" a region start key *)
Before(k) == IF k[Len(k)] = 0 THEN SubSeq(k, 1, Len(k) - 1)
             ELSE [k EXCEPT ![Len(k)] = k[Len(k)] - 1] \o Pad

(* what a region scanner opened with (start, stop) returns: indices into cfg.rows, in scan order *)
Selected(r, start, stop) ==
  LET ok(i) == /\ InReg(r, cfg.rows[i].key)
               /\ IF ~cfg.reversed
                  THEN (start = <<>> \/ Lex(cfg.rows[i].key, start) >= 0) /\ (stop = <<>> \/ Lex(cfg.rows[i].key, stop) < 0)
                  ELSE (start = <<>> \/ Lex(cfg.rows[i].key, start) <= 0) /\ (stop = <<>> \/ Lex(cfg.rows[i].key, stop) > 0)
      idx == {i \in 1..Len(cfg.rows) : ok(i)}
      asc == SortSeq(SetToSeq(idx), LAMBDA a, b : a < b)
  IN  IF cfg.reversed THEN Reverse(asc) ELSE asc

(* C06's statement: the rows the whole scan must yield *)
Expected ==
  LET ok(i) == IF ~cfg.reversed
               THEN (cfg.start = <<>> \/ Lex(cfg.rows[i].key, cfg.start) >= 0) /\ (cfg.stop = <<>> \/ Lex(cfg.rows[i].key, cfg.stop) < 0)
               ELSE (cfg.start = <<>> \/ Lex(cfg.rows[i].key, cfg.start) <= 0) /\ (cfg.stop = <<>> \/ Lex(cfg.rows[i].key, cfg.stop) > 0)
      asc == SortSeq(SetToSeq({i \in 1..Len(cfg.rows) : ok(i)}), LAMBDA a, b : a < b)
  IN  IF cfg.reversed THEN Reverse(asc) ELSE asc

NoAcc == <<>>
InitRest ==
  /\ scn = [i \in {} |-> 0] /\ nextId = 1
  /\ startRow = cfg.start /\ curId = 0 /\ curReg = 0 /\ buf = <<>> /\ closed = FALSE /\ renewing = FALSE /\ renewId = 0 /\ ticks = 0 /\ orphans = {}
  /\ pc = "idle" /\ acc = NoAcc /\ opening = FALSE /\ outs = <<>> /\ closeSent = {}
  /\ cancelled = FALSE /\ errors = 0 /\ ctxReported = FALSE /\ userClosed = FALSE /\ earlyEnded = FALSE

Out(kind, row, n, partial) == [kind |-> kind, row |-> row, n |-> n, partial |-> partial]
Ended == \E j \in 1..Len(outs) : outs[j].kind \in {"eof", "err", "ctx"}

(* scanner.Close + closeRegionScanner: an explicit close request goes out for a still open region scanner *)
DoClose ==
  /\ closed' = TRUE
  /\ IF closed THEN UNCHANGED <<curId, closeSent, scn>>
     ELSE /\ curId' = 0
          /\ IF curId # 0
             THEN closeSent' = closeSent \cup {curId} /\ scn' = [i \in DOMAIN scn \ {curId} |-> scn[i]]
             ELSE UNCHANGED <<closeSent, scn>>

(* ---- Next() ------------------------------------------------------------ *)
NextCall ==
  /\ pc = "idle"
  /\ IF cancelled
     THEN \* select { case <-ctx.Done(): ... }
          IF ErrorOnce /\ closed /\ buf = <<>>
          THEN \* already closed and drained: the cancellation (or an earlier error) was reported, or the scan was over
               /\ outs' = Append(outs, Out("eof", 0, 0, FALSE))
               /\ UNCHANGED <<opening, scn, nextId, startRow, curId, curReg, buf, closed, renewing, renewId, ticks, orphans, pc, acc, closeSent, cancelled, errors,
                              ctxReported, userClosed, earlyEnded>>
          ELSE /\ DoClose
               /\ outs' = Append(outs, Out("ctx", 0, 0, FALSE)) /\ ctxReported' = TRUE
               /\ buf' = IF ErrorOnce THEN <<>> ELSE buf
               /\ renewing' = FALSE
               /\ UNCHANGED <<opening, nextId, startRow, curReg, renewId, ticks, orphans, pc, acc, cancelled, errors, userClosed, earlyEnded>>
     ELSE /\ pc' = "peek" /\ acc' = NoAcc
          /\ UNCHANGED <<opening, scn, nextId, startRow, curId, curReg, buf, closed, renewing, renewId, ticks, orphans, outs, closeSent, cancelled, errors,
                         ctxReported, userClosed, earlyEnded>>

Return(o) == outs' = Append(outs, o) /\ pc' = "idle" /\ acc' = NoAcc

(* peek() + the coalescing loop of Next() *)
Peek ==
  /\ pc = "peek"
  /\ IF buf # <<>>
     THEN LET r == Head(buf) IN
          IF cfg.partial
          THEN /\ Return(Out("row", r.row, r.n, r.partial)) /\ buf' = Tail(buf)
               /\ UNCHANGED <<opening, scn, nextId, startRow, curId, curReg, closed, renewing, renewId, ticks, orphans, closeSent, cancelled, errors, ctxReported,
                              userClosed, earlyEnded>>
          ELSE IF acc = NoAcc
               THEN \* coalesce(nil, partial) -> take it
                    /\ buf' = Tail(buf)
                    /\ IF r.partial THEN acc' = <<[row |-> r.row, n |-> r.n]>> /\ UNCHANGED <<opening, pc, outs>>
                       ELSE Return(Out("row", r.row, r.n, FALSE))
                    /\ UNCHANGED <<opening, scn, nextId, startRow, curId, curReg, closed, renewing, renewId, ticks, orphans, closeSent, cancelled, errors,
                                   ctxReported, userClosed, earlyEnded>>
               ELSE IF r.row # acc[1].row
                    THEN \* a new row begins: what was assembled is complete; the new fragment stays buffered
                         /\ Return(Out("row", acc[1].row, acc[1].n, FALSE)) /\ UNCHANGED buf
                         /\ UNCHANGED <<opening, scn, nextId, startRow, curId, curReg, closed, renewing, renewId, ticks, orphans, closeSent, cancelled, errors,
                                        ctxReported, userClosed, earlyEnded>>
                    ELSE \* same row: append; the assembled result keeps its partial flag, so the loop goes on
                         /\ buf' = Tail(buf) /\ acc' = <<[row |-> r.row, n |-> acc[1].n + r.n]>>
                         /\ UNCHANGED <<opening, pc, outs, scn, nextId, startRow, curId, curReg, closed, renewing, renewId, ticks, orphans, closeSent, cancelled,
                                        errors, ctxReported, userClosed, earlyEnded>>
     ELSE IF closed
          THEN \* io.EOF from peek
               /\ IF acc # NoAcc THEN Return(Out("row", acc[1].row, acc[1].n, FALSE))
                  ELSE Return(Out("eof", 0, 0, FALSE))
               /\ renewing' = FALSE        \* (the renewer is cancelled before anything else happens with an empty buffer)
               /\ UNCHANGED <<opening, scn, nextId, startRow, curId, curReg, buf, closed, renewId, ticks, orphans, closeSent, cancelled, errors,
                              ctxReported, userClosed, earlyEnded>>
          ELSE /\ pc' = "req"
               /\ renewing' = FALSE        \* about to send a new scan request: cancel the renewer
               /\ UNCHANGED <<opening, scn, nextId, startRow, curId, curReg, buf, closed, renewId, ticks, orphans, acc, outs, closeSent, cancelled,
                              errors, ctxReported, userClosed, earlyEnded>>

(* request(): open a region scanner where startRow lives, or continue the current one *)
Request ==
  /\ pc = "req"
  /\ IF curId = 0
     THEN LET r == RegionOf(startRow) IN
          /\ curReg' = r
          /\ scn' = [i \in DOMAIN scn \cup {nextId} |->
                       IF i = nextId THEN [reg |-> r, rows |-> Selected(r, startRow, cfg.stop), pos |-> 1, out |-> 0] ELSE scn[i]]
          /\ curId' = nextId       \* learnt from the response; nothing else can happen in between
          /\ nextId' = nextId + 1
     ELSE UNCHANGED <<curReg, scn, curId, nextId>>
  /\ pc' = "resp" /\ opening' = (curId = 0)
  /\ UNCHANGED <<startRow, buf, closed, renewing, renewId, ticks, orphans, acc, outs, closeSent, cancelled, errors, ctxReported, userClosed, earlyEnded>>

(* the rows a response carries for a cut [entries, cutAfter] and the scanner state after it *)
Chunk(s, entries, cutAfter) ==
  [e \in 1..entries |->
     LET i == s.rows[s.pos + e - 1]
         left == cfg.rows[i].n - (IF e = 1 THEN s.out ELSE 0)
         cut == e = entries /\ cutAfter > 0 /\ left > cutAfter
     IN [row |-> i, n |-> IF cut THEN cutAfter ELSE left, partial |-> cut]]
AfterChunk(s, entries, cutAfter) ==
  IF entries = 0 THEN s
  ELSE LET last == Chunk(s, entries, cutAfter)[entries] IN
       IF last.partial
       THEN [s EXCEPT !.pos = s.pos + entries - 1, !.out = (IF entries = 1 THEN s.out ELSE 0) + last.n]
       ELSE [s EXCEPT !.pos = s.pos + entries, !.out = 0]

(* isDone() on the region the response came from *)
IsDoneAfter(noMore, moreInRegion, r) ==
  \/ noMore
  \/ /\ ~moreInRegion
     /\ \/ (~cfg.reversed /\ RegStop(r) = <<>>)
        \/ (cfg.reversed /\ RegStart(r) = <<>>)
        \/ (~cfg.reversed /\ cfg.stop # <<>> /\ Lex(cfg.stop, RegStop(r)) <= 0)
        \/ (cfg.reversed /\ cfg.stop # <<>> /\ Lex(cfg.stop, RegStart(r)) >= 0)

(* the server answers; fetch() digests: update, isDone -> Close, results or loop *)
Respond(entries, cutAfter, noMore) ==
  /\ pc = "resp"
  /\ LET s == scn[curId]
         left == Len(s.rows) - s.pos + 1
     IN /\ entries \in 0..left
        /\ (cutAfter > 0 => entries > 0)
        /\ LET chunk == Chunk(s, entries, cutAfter)
               s2 == AfterChunk(s, entries, cutAfter)
               more == s2.pos <= Len(s2.rows)
               serverCloses == ~more \/ noMore     \* (a server that declares the scan finished closes the region scanner itself)
               \* update(): region exhausted -> forget the scanner id, move startRow to the next region
               id2 == IF more THEN curId ELSE 0
               start2 == IF more THEN startRow
                         ELSE IF ~cfg.reversed THEN RegStop(curReg)
                         ELSE IF RegStart(curReg) = <<>> THEN <<>> ELSE Before(RegStart(curReg))
               isDone == IsDoneAfter(noMore, more, curReg)
           IN
           /\ (noMore => AllowEarlyEnd /\ s2.out = 0)     \* a server ends a scan at a row boundary only
           /\ earlyEnded' = (earlyEnded \/ (noMore /\ ~IsDoneAfter(FALSE, more, curReg)))
           /\ startRow' = start2
           /\ buf' = chunk
           \* server side: exhausted (or close-on-first) scanners are closed by the server itself
           /\ LET scnS == IF serverCloses THEN [i \in DOMAIN scn \ {curId} |-> scn[i]] ELSE [scn EXCEPT ![curId] = s2] IN
              IF isDone /\ ~closed
              THEN \* s.Close(): an explicit close request for a region scanner that is still open
                   /\ closed' = TRUE /\ curId' = 0
                   /\ IF id2 # 0
                      THEN closeSent' = closeSent \cup {id2} /\ scn' = [i \in DOMAIN scnS \ {id2} |-> scnS[i]]
                      ELSE closeSent' = closeSent /\ scn' = scnS
              ELSE /\ curId' = id2 /\ scn' = scnS /\ UNCHANGED <<closed, closeSent>>
           /\ pc' = IF entries > 0 THEN "peek" ELSE IF isDone THEN "peek" ELSE "req"
  /\ opening' = FALSE
  \* peek(): fetch returned results and the scan is not over: start a renewer
  /\ renewing' = (cfg.renew /\ entries > 0 /\ ~closed' /\ ~cancelled /\ (FixRenew => curId' # 0))   \* (a renewer of an ended context ends at once)
  /\ renewId' = curId'
  /\ UNCHANGED <<nextId, curReg, ticks, orphans, acc, outs, cancelled, errors, ctxReported, userClosed>>

(* the request fails (RPC error, or the context ends while it is outstanding): fetch closes and Next returns   *)
(* what it has assembled together with the error                                                              *)
RequestFails(kind) ==
  /\ pc = "resp"
  /\ \/ kind = "err" /\ errors < MaxErrors /\ errors' = errors + 1 /\ UNCHANGED ctxReported
     \/ kind = "ctx" /\ cancelled /\ UNCHANGED errors /\ ctxReported' = TRUE
  /\ IF opening   \* the open request failed: the client never learnt a scanner id (a scanner the server may have
                  \* opened for a request whose response was lost is reclaimed by its lease and not counted)
     THEN closed' = TRUE /\ curId' = 0 /\ scn' = [i \in DOMAIN scn \ {curId} |-> scn[i]] /\ UNCHANGED closeSent
     ELSE DoClose
  /\ opening' = FALSE
  /\ outs' = Append(outs, IF acc = NoAcc THEN Out(kind, 0, 0, FALSE) ELSE Out(kind, acc[1].row, acc[1].n, TRUE))
  /\ pc' = "idle" /\ acc' = NoAcc
  /\ renewing' = FALSE
  /\ UNCHANGED <<nextId, startRow, curReg, buf, renewId, ticks, orphans, cancelled, userClosed, earlyEnded>>

UserClose ==
  /\ AllowUserClose /\ pc = "idle" /\ ~userClosed
  /\ userClosed' = TRUE
  /\ DoClose
  /\ renewing' = FALSE
  /\ UNCHANGED <<opening, nextId, startRow, curReg, buf, renewId, ticks, orphans, pc, acc, outs, cancelled, errors, ctxReported, earlyEnded>>

Cancel ==
  /\ AllowCancel /\ ~cancelled
  /\ cancelled' = TRUE
  /\ renewing' = FALSE            \* the renewer's context is derived from the scan's
  /\ UNCHANGED <<opening, scn, nextId, startRow, curId, curReg, buf, closed, renewId, ticks, orphans, pc, acc, outs, closeSent, errors, ctxReported,
                 userClosed, earlyEnded>>

(* renewLoop: a tick between two Next calls (the user is busy with the rows it has). The renewal request names a region *)
(* scanner; the server renews its lease, or answers "unknown scanner" (the renewer gives up). A renewal request WITHOUT   *)
(* a scanner id is, for the server, a request to open a region scanner at the start row: nobody will ever close it.       *)
RenewTick ==
  /\ renewing /\ pc = "idle" /\ ticks < MaxRenew
  /\ ticks' = ticks + 1
  /\ LET tgt == IF FixRenew THEN renewId ELSE curId IN
     IF tgt = 0
     THEN LET r == RegionOf(startRow) IN
          /\ scn' = [i \in DOMAIN scn \cup {nextId} |->
                       IF i = nextId THEN [reg |-> r, rows |-> Selected(r, startRow, <<>>), pos |-> 1, out |-> 0] ELSE scn[i]]
          /\ orphans' = orphans \cup {nextId} /\ nextId' = nextId + 1 /\ UNCHANGED renewing
     ELSE IF tgt \in DOMAIN scn THEN UNCHANGED <<scn, orphans, nextId, renewing>>
     ELSE renewing' = FALSE /\ UNCHANGED <<scn, orphans, nextId>>
  /\ UNCHANGED <<opening, startRow, curId, curReg, buf, closed, renewId, pc, acc, outs, closeSent, cancelled, errors, ctxReported,
                 userClosed, earlyEnded>>

Next ==
  \/ RenewTick
  \/ (~(pc = "idle" /\ Len(outs) >= 2 /\ outs[Len(outs)].kind = "eof" /\ outs[Len(outs) - 1].kind \in {"eof", "err", "ctx"}) /\ NextCall)
  \/ Peek \/ Request
  \/ \E e \in 0..MaxCut, c \in 0..2, nm \in BOOLEAN : Respond(e, c, nm)
  \/ RequestFails("err") \/ RequestFails("ctx")
  \/ UserClose \/ Cancel

(* Init is supplied by the model / trace module: cfg \in <scenarios> /\ InitRest *)
NextC == Next /\ UNCHANGED cfg

----------------------------------------------------------------------------
(* Properties *)

RowsOut == SelectSeq(outs, LAMBDA o : o.kind = "row")
Clean == errors = 0 /\ ~cancelled /\ ~userClosed /\ ~earlyEnded

(* C06 (non-partial mode): what Next returned so far is a prefix of the expected rows, each whole *)
PrefixOfExpected ==
  ~cfg.partial =>
    /\ Len(RowsOut) <= Len(Expected)
    /\ \A j \in 1..Len(RowsOut) :
          /\ RowsOut[j].row = Expected[j]
          \* whole rows; only the last row handed out after the user closed the scanner may be a buffered fragment
          /\ (RowsOut[j].n = cfg.rows[Expected[j]].n \/ (userClosed /\ j = Len(RowsOut)))
(* ... and at end-of-scan of an undisturbed scan it is all of them *)
ExactRowsAtEOF ==
  (~cfg.partial /\ Clean /\ Ended) => Len(RowsOut) = Len(Expected)

(* C06 (partial mode): fragments concatenate to the expected rows *)
RECURSIVE Merge(_)
Merge(s) == IF s = <<>> THEN <<>>
            ELSE LET rest == Merge(Tail(s)) IN
                 IF rest # <<>> /\ rest[1].row = Head(s).row THEN <<[row |-> Head(s).row, n |-> Head(s).n + rest[1].n]>> \o Tail(rest)
                 ELSE <<[row |-> Head(s).row, n |-> Head(s).n]>> \o rest
FragmentsConcatenate ==
  cfg.partial =>
    LET m == Merge(RowsOut) IN
      /\ Len(m) <= Len(Expected)
      /\ \A j \in 1..Len(m) : m[j].row = Expected[j] /\ (j < Len(m) \/ (Clean /\ Ended) => m[j].n = cfg.rows[Expected[j]].n)
      /\ (Clean /\ Ended) => Len(m) = Len(Expected)

(* C14 *)
ErrorOnceThenEOF ==
  \A j \in 1..Len(outs) : outs[j].kind \in {"eof", "err", "ctx"} =>
     \A k \in (j + 1)..Len(outs) : outs[k].kind = "eof"
NoLeakedRegionScanner ==   \* whenever the scan has ended and the client is idle, no region scanner is left open
  (pc = "idle" /\ closed) => DOMAIN scn = {}
ClosedMeansNoCurrent == closed => curId = 0
(* renewals *)
RenewerOnlyWhileOpen == renewing => ~closed /\ ~cancelled
NoOrphanScanner == orphans = {}
=============================================================================
