SPECIFICATION Spec
CONSTANTS
  N = 2
  MaxRound = 3
  FixIndex = TRUE
  FixOwnCtx = TRUE
  Slice = 0
  Slices = 1
INVARIANT Export
CHECK_DEADLOCK FALSE
