----------------------------- MODULE MC_KeyValue -----------------------------
(* All mutation shapes of a small scope: both encoders denote the spec's    *)
(* cell set; vectors are exported for the conformance driver.               *)
EXTENDS KeyValue, TLC, Json, SequencesExt
F0 == <<>>             \* "" (with an empty row, qualifier and value: the smallest cell there is, 24 bytes)
F1 == <<102>>          \* "f"
F2 == <<102, 50>>      \* "f2"
Q0 == <<>>
Q1 == <<113>>          \* "q"
Q2 == <<113, 0>>
V0 == <<>>
V1 == <<118>>
V2 == <<0, 255, 44>>
Inners == {Inner(TRUE, [q \in {} |-> V0])}
          \cup {Inner(FALSE, [q \in {} |-> V0])}
          \cup {Inner(FALSE, [q \in {Q1} |-> v]) : v \in {V0, V1}}
          \cup {Inner(FALSE, [q \in {Q0} |-> V1])}
          \cup {Inner(FALSE, [q \in {Q1, Q2} |-> IF q = Q1 THEN V1 ELSE V2])}
          \cup {Inner(FALSE, [q \in {Q0, Q1} |-> IF q = Q1 THEN V2 ELSE V0])}
ValueMaps == {[f \in {} |-> Inner(TRUE, [q \in {} |-> V0])]}
             \cup {[f \in {F1} |-> i] : i \in Inners}
             \cup {[f \in {F0} |-> i] : i \in Inners}
             \cup {[f \in {F1, F2} |-> IF f = F1 THEN i ELSE j] : i \in Inners, j \in Inners}
Kinds == {"put", "delete", "append", "increment"}
Tss == {[latest |-> TRUE, bytes |-> Latest], [latest |-> FALSE, bytes |-> <<0, 0, 0, 0, 0, 0, 0, 5>>],
        [latest |-> FALSE, bytes |-> <<255, 255, 255, 255, 255, 255, 255, 254>>],
        [latest |-> FALSE, bytes |-> <<0, 0, 0, 0, 0, 0, 0, 0>>],
        [latest |-> FALSE, bytes |-> <<0, 5, 79, 148, 66, 252, 5, 123>>]}   \* 1494873081120123: microseconds since the epoch, not milliseconds - the client's business it is not     \* an explicit timestamp of 0 is a timestamp like any other
Mutations == {m \in [kind : Kinds, values : ValueMaps, ts : Tss, oneVersion : BOOLEAN] :
                 /\ (m.oneVersion => m.kind = "delete")
                 /\ ~(m.oneVersion /\ DOMAIN m.values = {})}    \* rejected by NewDel

VARIABLE m
Init == m \in Mutations
Next == UNCHANGED m
Spec == Init /\ [][Next]_m
CellblockIsDenotes == CellblockCells(m) = Denotes(m)
ProtoIsDenotes == ProtoCells(m) = Denotes(m)

Rows == {<<>>, <<114>>, <<0, 44, 255>>}
\* one export line per mutation: the shape in JSON-friendly form + the expected cells with their KV bytes for every row
InnerJ(in) == [nil |-> in.nil, qs |-> SetToSeq({[q |-> q, v |-> in.qv[q]] : q \in DOMAIN in.qv})]
MutJ(x) == [kind |-> x.kind, oneVersion |-> x.oneVersion, latest |-> x.ts.latest,
            ts |-> TsOf(x),
            fams |-> SetToSeq({[f |-> f, inner |-> InnerJ(x.values[f])] : f \in DOMAIN x.values}),
            cells |-> SetToSeq(Denotes(x))]
=============================================================================
