SPECIFICATION Spec
CONSTANTS
  N = 3
  Regions = {"r1", "r2"}
INVARIANTS OwnResponse HolesGetNothing WholeCellblockConsumed
CHECK_DEADLOCK FALSE
