---------------------------- MODULE Gen_KeyValue ----------------------------
EXTENDS MC_KeyValue
ASSUME ndJsonSerialize("c10_mutations.ndjson", SetToSeq({MutJ(x) : x \in Mutations}))
\* byte vectors: every cell of the small content scope
KVVec == {[row |-> r, family |-> f, qualifier |-> q, ts |-> t, type |-> ty, value |-> v,
           bytes |-> KV(r, f, q, t, ty, v), consumed |-> KVLen(r, f, q, v)] :
           r \in Rows, f \in {<<>>, F1, F2}, q \in {Q0, Q1, Q2},
           t \in {Latest, <<0, 0, 0, 0, 0, 0, 0, 5>>, <<128, 0, 0, 0, 0, 0, 0, 1>>},
           ty \in {TypePut, TypeDelete, TypeDeleteColumn, TypeDeleteFamily, TypeDeleteFamilyVersion, 0, 255}, v \in {V0, V1, V2}}
ASSUME ndJsonSerialize("c10_kv.ndjson", SetToSeq(KVVec))
\* length vectors for boundary sizes
Lens == {[rowLen |-> r, famLen |-> f, qualLen |-> q, valLen |-> v, hdr |-> KVHeader(r, f, q, v)] :
          r \in {0, 1, 255, 256, 32767, 32768, 65535}, f \in {0, 1, 127, 128, 255}, q \in {0, 1, 70000}, v \in {0, 1, 70000}}
ASSUME ndJsonSerialize("c10_lens.ndjson", SetToSeq(Lens))
=============================================================================
