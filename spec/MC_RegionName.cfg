SPECIFICATION Spec
CONSTANT Full = FALSE
INVARIANTS AlgoIsTuple NoPanic Antisym TotalOnNames FirstRegionFirst
CHECK_DEADLOCK FALSE
