SPECIFICATION Spec
INVARIANTS Transitive
CHECK_DEADLOCK FALSE
