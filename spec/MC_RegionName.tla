---------------------------- MODULE MC_RegionName ----------------------------
(* Exhaustive small-scope check of C16 on the model: for every pair of     *)
(* names / search keys of the scope, the transcription of Compare has the  *)
(* sign of the tuple order, never panics, and is antisymmetric.            *)
EXTENDS RegionName, TLC
CONSTANT Full   \* TRUE: start keys up to length 2; FALSE: up to length 1 plus a few

Tables == {<<97>>, <<97, 97>>, <<97, 45>>, <<97, 58, 97>>, <<98>>}   \* a aa a- a:a b
KeyBytes == {0, 43, 44, 45, 255}                                       \* 00 '+' ',' '-' ff
Keys1 == {<<>>} \cup {<<b>> : b \in KeyBytes}
Keys2 == Keys1 \cup {<<b, c>> : b \in KeyBytes, c \in KeyBytes}
KeysQ == Keys1 \cup {<<44, 44>>, <<44, 0>>, <<43, 255>>, <<45, 44>>, <<0, 0>>, <<255, 44>>}
Keys  == IF Full THEN Keys2 ELSE KeysQ
Ids == {<<49>>, <<49, 50>>, <<50>>, <<49, 46, 104, 46>>}               \* 1 12 2 1.h.

All == {Name(t, s, i) : t \in Tables, s \in Keys, i \in Ids}
         \cup {SearchName(t, k) : t \in Tables, k \in Keys}

VARIABLES x, y
Init == x \in All /\ y \in All
Next == UNCHANGED <<x, y>>
Spec == Init /\ [][Next]_<<x, y>>

AlgoIsTuple  == PairOK(x, y)
NoPanic      == AlgoCmp(Flat(x), Flat(y)) # Panic
Antisym      == Sign(AlgoCmp(Flat(x), Flat(y))) = -Sign(AlgoCmp(Flat(y), Flat(x)))
TotalOnNames == (x # y) => AlgoCmp(Flat(x), Flat(y)) # 0
FirstRegionFirst ==   \* the property's "in particular": empty start key sorts first within a table,
                      \* and after every region of a lexicographically smaller table
    /\ (x.table = y.table /\ x.start = <<>> /\ y.start # <<>>) => AlgoCmp(Flat(x), Flat(y)) < 0
    /\ (Lex(x.table, y.table) < 0) => AlgoCmp(Flat(x), Flat(y)) < 0
=============================================================================
