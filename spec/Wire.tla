-------------------------------- MODULE Wire --------------------------------
(* Client -> server byte stream of an HBase RPC connection (property C05):  *)
(*                                                                          *)
(*   stream ::= "HBas" 0x00 0x50  int32 n  ConnectionHeader(n bytes)  frame*  *)
(*   frame  ::= int32 total | varint h | RequestHeader(h) | varint p |      *)
(*              Request(p) | cellblock(c)     with total = |varint h| + h + *)
(*              |varint p| + p + c   and  c = header.cell_block_meta.length *)
(*                                                                          *)
(* ParserOK is the server-side parser as a state machine over an abstract   *)
(* token stream; Expected* say which request fields a query option or a     *)
(* mutation option must produce (defaults are left out of the message).     *)
EXTENDS Integers, Sequences, FiniteSets

(* ---- the stream grammar, on tokens [t |-> "preamble"] / "connheader" / [t |-> "frame", id, total, hdr, req, cb, cbmeta] *)
FrameOK(f) == f.total = f.hdr + f.req + f.cb /\ f.cbmeta = f.cb
ParserOK(s) ==
  /\ Len(s) >= 2 /\ s[1].t = "preamble" /\ s[2].t = "connheader"
  /\ \A i \in 3..Len(s) : s[i].t = "frame" /\ FrameOK(s[i])
  /\ \A i, j \in 3..Len(s) : i # j => s[i].id # s[j].id

(* ---- query options (Get and Scan) *)
DefaultMaxVersions == 1
Absent == -1
TsMax == -2      \* stands for the maximum timestamp (2^64 - 1), the default upper bound
(* an option record: families, trFrom/trTo (Absent = not given), maxVersions, storeLimit, storeOffset, cacheBlocks, priority,  *)
(* timeline, filter (class name or ""), existsOnly                                                                           *)
ExpectedQuery(o) ==
  [columns      |-> o.families,                                   \* family -> qualifiers, as given (empty list = whole family)
   \* only when the option was used, and a bound is written only if it is not the default (0 / the maximum: a half-open range)
   trFrom       |-> (IF o.trFrom = 0 THEN Absent ELSE o.trFrom), trTo |-> (IF o.trTo = TsMax THEN Absent ELSE o.trTo),
   maxVersions  |-> IF o.maxVersions = DefaultMaxVersions THEN Absent ELSE o.maxVersions,
   storeLimit   |-> o.storeLimit,                                 \* Absent = default (no limit)
   storeOffset  |-> IF o.storeOffset = 0 THEN Absent ELSE o.storeOffset,
   cacheBlocksFalse |-> ~o.cacheBlocks,                           \* only "false" is written
   priority     |-> IF o.priority = 0 THEN Absent ELSE o.priority,  \* in the request header
   timeline     |-> o.timeline,
   filter       |-> o.filter,
   existsOnly   |-> o.existsOnly]

FamilyShapes == { <<>>,
                  << [f |-> <<102>>, qs |-> <<>>] >>,
                  << [f |-> <<102>>, qs |-> << <<113, 49>>, <<113, 50>> >>] >>,
                  << [f |-> <<102>>, qs |-> << <<113>> >>], [f |-> <<103>>, qs |-> <<>>] >>,
                  (* several families that each name their own qualifiers (lists of different content and length) *)
                  << [f |-> <<102>>, qs |-> << <<97>> >>], [f |-> <<103>>, qs |-> << <<98>> >>] >>,
                  << [f |-> <<102>>, qs |-> << <<97>>, <<98>> >>], [f |-> <<103>>, qs |-> << <<99>> >>], [f |-> <<104>>, qs |-> <<>>] >> }
QueryOptions ==
  [families : FamilyShapes, trFrom : {Absent, 0, 3}, trTo : {Absent, 9, TsMax}, maxVersions : {1, 5}, storeLimit : {Absent, 7},
   storeOffset : {0, 2}, cacheBlocks : BOOLEAN, priority : {0, 6}, timeline : BOOLEAN,
   filter : {"", "org.apache.hadoop.hbase.filter.PrefixFilter"}, existsOnly : BOOLEAN]
ValidQuery(o) == /\ (o.trFrom = Absent) = (o.trTo = Absent)
                 /\ ~(o.trFrom = 0 /\ o.trTo = TsMax)      \* (that is: no range at all)

(* ---- scan specifics *)
ScanShapes == [start : {<<>>, <<97>>}, stop : {<<>>, <<122>>}, reversed : BOOLEAN, numberOfRows : {Absent, 3}, maxResultSize : {Absent, 4096}]
DefaultNumberOfRows == 2147483647
DefaultMaxResultSize == 2097152
ExpectedScan(s) == [start |-> s.start, stop |-> s.stop, reversed |-> s.reversed,
                    numberOfRows |-> IF s.numberOfRows = Absent THEN DefaultNumberOfRows ELSE s.numberOfRows,
                    maxResultSize |-> IF s.maxResultSize = Absent THEN DefaultMaxResultSize ELSE s.maxResultSize,
                    closeScanner |-> FALSE, renew |-> FALSE, handlesPartials |-> TRUE, handlesHeartbeats |-> TRUE]

(* ---- mutation extras: durability 0..4 as given; a TTL becomes attribute "_ttl" = 8-byte big-endian milliseconds *)
MutExtras == [durability : 0..4, ttlMs : {Absent, 0, 250, 1500, 5000}]     \* (TTLs that are no whole number of seconds too)
=============================================================================
