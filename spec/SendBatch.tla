------------------------------ MODULE SendBatch ------------------------------
(* rpc.go: SendBatch / findClients / waitForCompletion, transcribed with    *)
(* their slice bookkeeping (properties C07 and C12).                        *)
(*                                                                          *)
(* A scenario `scr' fixes, for a batch of calls 1..n:                       *)
(*   srv[c]      the server (connection) call c is sent over                *)
(*   out[c][r]   what the server answers for c in round r:                  *)
(*               "ok" / "fatal" / "later" (retry after back-off) /          *)
(*               "nsr" (region not serving) / "dead" (connection died) /    *)
(*               "stopped" (this action alone is answered with a            *)
(*               regionserver-is-stopping exception inside the multi        *)
(*               response: the other actions keep their own answers)        *)
(*   reloc[r]    what happens to the calls whose region must be located     *)
(*               again before round r >= 2 (previous answer "nsr"/"dead"):  *)
(*               "ok" / "tnf" (the table is gone) / "hang" (the regions     *)
(*               never come back: only a cancellation ends the wait)        *)
(*   ownCtx      set of calls whose own context has ended before the batch  *)
(*   cancel      when the batch context is cancelled: [at |-> "never"], or  *)
(*               [at |-> "wait", round, held] (the servers in `held' have   *)
(*               not answered yet), [at |-> "backoff", round],              *)
(*               [at |-> "find", round] (while re-locating)                 *)
(* Design switches model the pinned tree and the repaired one.              *)
EXTENDS Integers, Sequences, FiniteSets, TLC

CONSTANTS N, MaxRound,
          FixIndex,    \* TRUE: findClients writes a lookup error to the call's own slot (rpcToRes)
          FixOwnCtx    \* TRUE: waitForCompletion also waits on the call's own context

Calls == 1..N
VARIABLES scr, pc, round, batch, res, retries, allOK, unretry, needBackoff, returned, cancelled, sentLog, hung
vars == <<scr, pc, round, batch, res, retries, allOK, unretry, needBackoff, returned, cancelled, sentLog, hung>>

R(kind, about) == [kind |-> kind, about |-> about]   \* about: which call this result describes (0: nothing yet)
NotExecuted == R("notexecuted", 0)

InitRest ==
  /\ pc = "find" /\ round = 1 /\ batch = [i \in 1..N |-> i]
  /\ res = [i \in 1..N |-> NotExecuted]
  /\ retries = <<>> /\ allOK = TRUE /\ unretry = FALSE /\ needBackoff = FALSE
  /\ returned = FALSE /\ cancelled = FALSE /\ sentLog = <<>> /\ hung = FALSE

WasSent(c, r) == \A q \in 1..(r - 1) : scr.out[c][q] \in {"later", "nsr", "dead", "stopped"}
CancelNow(at) == scr.cancel.at = at /\ scr.cancel.round = round

(* findClients: locate every call of the current batch; a lookup error goes to slot `i' of res - the index *)
(* in the CURRENT batch in the pinned tree, the call's own slot after the repair                           *)
Find ==
  /\ pc = "find"
  /\ LET cnow == cancelled \/ CancelNow("find")
         \* the region (one per server here) was marked unavailable by any call of the previous round that met
         \* "not serving" or a dead connection: every call to that region now waits for it
         relocating(c) == round > 1 /\ \E d \in Calls : /\ scr.srv[d] = scr.srv[c] /\ d \notin scr.ownCtx /\ WasSent(d, round - 1)
                                                        /\ scr.out[d][round - 1] \in {"nsr", "dead", "stopped"}
         outcome(c) == IF ~relocating(c) THEN "ok"   \* (a region that is available needs no waiting: a cancelled context does not matter)
                       ELSE IF scr.reloc[round] = "hang" THEN (IF cnow THEN "ctx" ELSE "hang")
                       ELSE IF scr.reloc[round] = "tnf" THEN "tnf"
                       ELSE "ok"
         slot(i) == IF FixIndex THEN batch[i] ELSE i
         bad == {i \in 1..Len(batch) : outcome(batch[i]) \in {"tnf", "ctx"}}
         stuck == \E i \in 1..Len(batch) : outcome(batch[i]) = "hang"
     IN /\ cancelled' = cnow
        /\ IF stuck
           THEN /\ hung' = TRUE /\ pc' = "done" /\ UNCHANGED <<res, allOK, returned>>   \* blocked for good (no cancellation): never returns
           ELSE /\ hung' = FALSE
                /\ res' = [j \in 1..N |-> IF \E i \in bad : slot(i) = j
                                          THEN LET i == CHOOSE i \in bad : slot(i) = j /\ \A k \in bad : slot(k) = j => k <= i
                                               IN R(outcome(batch[i]), batch[i])
                                          ELSE res[j]]
                /\ IF bad # {} THEN pc' = "done" /\ returned' = TRUE /\ allOK' = FALSE
                   ELSE pc' = "wait" /\ UNCHANGED <<returned, allOK>>
  /\ UNCHANGED <<scr, round, batch, retries, unretry, needBackoff, sentLog>>

(* QueueBatch per connection + waitForCompletion for every group, in one step: the outcome of the round *)
Wait ==
  /\ pc = "wait"
  /\ LET cw == CancelNow("wait")
         held == IF cw THEN scr.cancel.held ELSE {}
         \* a call whose own context has ended is dropped by the connection and never completed
         dropped(c) == c \in scr.ownCtx
         live == [i \in 1..Len(batch) |-> batch[i]]
         outOf(c) == IF dropped(c) THEN (IF FixOwnCtx THEN "ownctx" ELSE IF cw THEN "ctx" ELSE "hang")
                     ELSE IF scr.srv[c] \in held THEN "ctx"
                     ELSE scr.out[c][round]
         kindOf(o) == CASE o = "ok" -> "ok" [] o = "fatal" -> "fatal" [] o = "later" -> "later" [] o = "nsr" -> "nsr"
                        [] o = "dead" -> "dead" [] o = "stopped" -> "dead" [] o = "ctx" -> "ctx" [] o = "ownctx" -> "ownctx" [] OTHER -> "hang"
         stuck == \E i \in 1..Len(batch) : outOf(batch[i]) = "hang"
         retry == SelectSeq(live, LAMBDA c : outOf(c) \in {"later", "nsr", "dead", "stopped"})
         anyErr == \E i \in 1..Len(batch) : outOf(batch[i]) # "ok"
     IN /\ sentLog' = Append(sentLog, [round |-> round, calls |-> SelectSeq(live, LAMBDA c : ~dropped(c))])
        /\ cancelled' = (cancelled \/ cw)
        /\ IF stuck
           THEN hung' = TRUE /\ pc' = "done" /\ UNCHANGED <<res, retries, needBackoff, unretry, allOK>>
           ELSE /\ hung' = FALSE
                /\ res' = [j \in 1..N |-> IF \E i \in 1..Len(batch) : batch[i] = j THEN R(kindOf(outOf(j)), j) ELSE res[j]]   \* rpcToRes
                /\ retries' = retry
                /\ needBackoff' = \E i \in 1..Len(batch) : outOf(batch[i]) = "later"
                /\ unretry' = (unretry \/ \E i \in 1..Len(batch) : outOf(batch[i]) \in {"fatal", "ownctx"})
                /\ allOK' = (IF anyErr THEN FALSE ELSE allOK)
                /\ pc' = "decide"
  /\ UNCHANGED <<scr, round, batch, returned>>

Decide ==
  /\ pc = "decide"
  /\ IF retries = <<>> \/ cancelled \/ round = MaxRound
     THEN pc' = "done" /\ returned' = TRUE /\ UNCHANGED <<batch, retries, round, allOK, cancelled>>
     ELSE IF needBackoff /\ CancelNow("backoff")
          THEN pc' = "done" /\ returned' = TRUE /\ cancelled' = TRUE /\ UNCHANGED <<batch, retries, round, allOK>>
          ELSE /\ batch' = retries /\ retries' = <<>> /\ round' = round + 1 /\ allOK' = ~unretry
               /\ pc' = "find" /\ UNCHANGED <<returned, cancelled>>
  /\ UNCHANGED <<scr, res, unretry, needBackoff, sentLog, hung>>

Next == Find \/ Wait \/ Decide
NextS == Next /\ UNCHANGED scr

----------------------------------------------------------------------------
(* C07 *)
Positional == \A j \in 1..N : res[j].about \in {0, j}       \* slot j only ever describes call j
KeepsSuccess ==                                              \* a success that has been received is never overwritten
  [][\A j \in 1..N : (res[j].kind = "ok" /\ res[j].about = j) => res'[j] = res[j]]_vars
EveryCallDecided == returned => \A j \in 1..N : res[j].about = j /\ res[j].kind # "notexecuted"
AllOKIffNoError == returned => (allOK <=> \A j \in 1..N : res[j].kind = "ok")
(* the batch may wait for ever only for a region that never comes back while nobody cancels; never because a
   call inside it had its own context ended *)
ReturnsWhenOwnCtxEnded == ~(pc = "done" /\ hung /\ \A r \in 2..MaxRound : scr.reloc[r] # "hang")
(* C12 *)
OnlyRetryableResent ==
  \A k \in 2..Len(sentLog) : \A x \in 1..Len(sentLog[k].calls) :
     scr.out[sentLog[k].calls[x]][sentLog[k].round - 1] \in {"later", "nsr", "dead", "stopped"}
NoReexecutionAfterSuccess ==
  \A k \in 1..Len(sentLog) : \A x \in 1..Len(sentLog[k].calls) :
     \A r \in 1..(sentLog[k].round - 1) : scr.out[sentLog[k].calls[x]][r] # "ok"
BatchOrderKept == \A k \in 1..Len(sentLog) : \A x, y \in 1..Len(sentLog[k].calls) : x < y => sentLog[k].calls[x] < sentLog[k].calls[y]
=============================================================================
