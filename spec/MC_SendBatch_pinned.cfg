SPECIFICATION Spec
CONSTANTS
  N = 2
  MaxRound = 3
  FixIndex = FALSE
  FixOwnCtx = FALSE
INVARIANTS Positional EveryCallDecided AllOKIffNoError ReturnsWhenOwnCtxEnded OnlyRetryableResent NoReexecutionAfterSuccess BatchOrderKept
PROPERTIES KeepsSuccess
CHECK_DEADLOCK FALSE
