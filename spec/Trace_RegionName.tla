-------------------------- MODULE Trace_RegionName --------------------------
(* B2: pairs observed on the real region.Compare ({a, b, cmp} per line,     *)
(* names as records of byte sequences) are validated against the tuple      *)
(* order.  One state per line; a rejected line is reported by its index.    *)
EXTENDS RegionName, TLC, Json
T == ndJsonDeserialize("c16_pairs.ndjson")
VARIABLE i
Init == i = 1
Next == i <= Len(T) /\ i' = i + 1
Spec == Init /\ [][Next]_i
N(r) == Name(r.table, r.start, r.id)
LineOK == i <= Len(T) => Sign(T[i].cmp) = TupleCmp(N(T[i].a), N(T[i].b))
Accepted == TLCGet("stats").diameter = Len(T) + 1
=============================================================================
