SPECIFICATION Spec
CONSTANTS
  N = 2
  MaxRound = 3
  FixIndex = TRUE
  FixOwnCtx = TRUE
INVARIANTS Positional EveryCallDecided AllOKIffNoError ReturnsWhenOwnCtxEnded OnlyRetryableResent NoReexecutionAfterSuccess BatchOrderKept
PROPERTIES KeepsSuccess
CHECK_DEADLOCK FALSE
