SPECIFICATION Spec
CONSTANTS
  NU = 1
  NS = 1
  UCalls <- MC_UCalls
  Subs <- MC_Subs
  BatchOf <- MC_BatchOf
  HasCB <- MC_HasCB
  MultiNames <- MC_MultiNames
  QueueSize = 2
  FlushZero = FALSE
  ArmFirst = FALSE
  SignedArm = TRUE
  AtomicWrites = TRUE
  WriteLock = FALSE
  AtomicDown = TRUE
  CompleteOnDownError = TRUE
  CloseBeforeSwap = TRUE
  MaxFaults = 1
  MaxCancels = 1
  AllowClose = TRUE
  AllowReorder = TRUE
VIEW View
INVARIANTS TypeOK AtMostOnce ExactlyOnceWhenDown RefusedAfterDone ConnClosedWhenDown OkOnlyIfAnswered
CHECK_DEADLOCK FALSE
