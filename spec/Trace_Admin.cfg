SPECIFICATION TSpec
CONSTANTS
  RunningPolls = {0}
  Outcomes = {"ok"}
  AllowCancel = TRUE
  MaxPolls = 1000
INVARIANTS WaitsFollowSchedule OnePollPerWait ResultIsTheMastersVerdict NeverPollsAfterTheVerdict
POSTCONDITION Accepted
CHECK_DEADLOCK FALSE
