SPECIFICATION Spec
INVARIANTS RoundTrip WriterShape AnyConformingDecodes ZeroBlocksHarmless
CHECK_DEADLOCK FALSE
