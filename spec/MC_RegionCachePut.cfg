SPECIFICATION Spec
CONSTANT AtomicPut = TRUE
VIEW View
INVARIANTS NoOverlap UniqueNames NewestStays
CHECK_DEADLOCK FALSE
