SPECIFICATION TSpec
CONSTANTS
  MaxCut = 1000000
  MaxErrors = 1000000
  AllowCancel = TRUE
  AllowUserClose = TRUE
  AllowEarlyEnd = TRUE
  MaxRenew = 1000000
  FixRenew = TRUE
  ErrorOnce = TRUE
INVARIANTS PrefixOfExpected ExactRowsAtEOF FragmentsConcatenate ErrorOnceThenEOF NoLeakedRegionScanner ClosedMeansNoCurrent
CONSTRAINT HighWater
POSTCONDITION TraceAccepted
CHECK_DEADLOCK FALSE
