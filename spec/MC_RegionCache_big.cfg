SPECIFICATION Spec
CONSTANT Big = TRUE
VIEW View
INVARIANTS NoOverlap UniqueNames LayersAgreeOverlaps LayersAgreeGet
PROPERTIES EvictedAreDead NewestWins RejectedPutIsNoop
CHECK_DEADLOCK FALSE
