----------------------------- MODULE Gen_Malform -----------------------------
EXTENDS Malform
ASSUME ndJsonSerialize("c11_cases.ndjson", SetToSeq(Cases))
ASSUME ndJsonSerialize("c11c_cases.ndjson", SetToSeq(ClientCases))
ASSUME ClientOrderly([panicked |-> FALSE, returned |-> TRUE, usableAfterwards |-> TRUE])
ASSUME ~ClientOrderly([panicked |-> TRUE, returned |-> TRUE, usableAfterwards |-> TRUE])
ASSUME ~ClientOrderly([panicked |-> FALSE, returned |-> FALSE, usableAfterwards |-> TRUE])
(* the oracle itself, on the shapes of outcome the harness can report *)
C == {"a", "b"}
ASSUME Orderly([panicked |-> FALSE, spun |-> FALSE, connFailed |-> FALSE, stillRegistered |-> FALSE, completed |-> [c \in C |-> 1]], C)
ASSUME Orderly([panicked |-> FALSE, spun |-> FALSE, connFailed |-> TRUE, stillRegistered |-> TRUE, completed |-> [c \in C |-> 0]], C)
ASSUME ~Orderly([panicked |-> FALSE, spun |-> FALSE, connFailed |-> TRUE, stillRegistered |-> FALSE, completed |-> [c \in C |-> IF c = "a" THEN 1 ELSE 0]], C)
ASSUME ~Orderly([panicked |-> FALSE, spun |-> FALSE, connFailed |-> FALSE, stillRegistered |-> FALSE, completed |-> [c \in C |-> IF c = "a" THEN 2 ELSE 1]], C)
ASSUME ~Orderly([panicked |-> TRUE, spun |-> FALSE, connFailed |-> FALSE, stillRegistered |-> FALSE, completed |-> [c \in C |-> 1]], C)
VARIABLE x
Init == x = 0
Next == UNCHANGED x
Spec == Init /\ [][Next]_x
=============================================================================
