SPECIFICATION Spec
CONSTANTS
  PartialModes = {FALSE}
  MaxCut = 2
  MaxErrors = 1
  AllowCancel = TRUE
  AllowUserClose = TRUE
  AllowEarlyEnd = TRUE
  MaxRenew = 2
  FixRenew = FALSE
  RenewModes = {TRUE}
  ErrorOnce = TRUE
VIEW View
INVARIANTS PrefixOfExpected ExactRowsAtEOF FragmentsConcatenate ErrorOnceThenEOF NoLeakedRegionScanner ClosedMeansNoCurrent RenewerOnlyWhileOpen NoOrphanScanner
CHECK_DEADLOCK FALSE
