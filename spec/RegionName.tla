---------------------------- MODULE RegionName ----------------------------
(* Region names "table,startkey,id" and lookup search keys "table,key,:"   *)
(* and the order the client's location cache (a B-tree) keeps them in.     *)
(*                                                                         *)
(* TupleCmp is the *statement* of property C16 (and the assumption about   *)
(* hbase:meta's row order): component-wise byte-lexicographic comparison   *)
(* of (table, start key, id).  AlgoCmp is a transcription of               *)
(* region/info.go:Compare, phase by phase, on the flattened byte string.   *)
(* Bytes are naturals 0..255; byte strings are sequences of naturals.      *)
EXTENDS Integers, Sequences, FiniteSets

Comma == 44
Colon == 58

Sign(n) == IF n < 0 THEN -1 ELSE IF n > 0 THEN 1 ELSE 0
MinOf(S) == CHOOSE x \in S : \A y \in S : x <= y
MaxOf(S) == CHOOSE x \in S : \A y \in S : x >= y
Min2(a, b) == IF a < b THEN a ELSE b

(* bytes.Compare: -1 / 0 / 1, a proper prefix sorts first *)
Lex(a, b) ==
  LET n == Min2(Len(a), Len(b))
      D == {i \in 1..n : a[i] # b[i]}
  IN  IF D = {} THEN Sign(Len(a) - Len(b))
      ELSE Sign(a[MinOf(D)] - b[MinOf(D)])

(* a name is a record [table, start, id]; a search key is the name whose   *)
(* id is ":" (the byte right after '9')                                    *)
Name(t, s, i) == [table |-> t, start |-> s, id |-> i]
SearchName(t, k) == Name(t, k, <<Colon>>)

TupleCmp(x, y) ==
  IF Lex(x.table, y.table) # 0 THEN Lex(x.table, y.table)
  ELSE IF Lex(x.start, y.start) # 0 THEN Lex(x.start, y.start)
  ELSE Lex(x.id, y.id)

Flat(x) == x.table \o <<Comma>> \o x.start \o <<Comma>> \o x.id

Panic == 999999   \* findCommaFromEnd panics: never for well-formed names

(* region/info.go:Compare.  Indices are the code's 0-based ones; a[j+1] is  *)
(* the code's a[j].                                                         *)
AlgoCmp(a, b) ==
  LET la == Len(a)
      lb == Len(b)
      length == Min2(la, lb)
      \* phase 1: compare table names up to the first comma
      P1 == {i \in 0..(length - 1) : a[i + 1] # b[i + 1] \/ a[i + 1] = Comma}
  IN
  IF P1 # {} /\ a[MinOf(P1) + 1] # b[MinOf(P1) + 1]
  THEN LET i == MinOf(P1)
       IN  IF a[i + 1] = Comma THEN -1001
           ELSE IF b[i + 1] = Comma THEN 1001
           ELSE a[i + 1] - b[i + 1]
  ELSE
  LET i0 == IF P1 = {} THEN length ELSE MinOf(P1)
      AC == {j \in (i0 + 1)..(la - 1) : a[j + 1] = Comma}
      BC == {j \in (i0 + 1)..(lb - 1) : b[j + 1] = Comma}
  IN
  IF AC = {} \/ BC = {} THEN Panic
  ELSE
  LET aComma == MaxOf(AC)
      bComma == MaxOf(BC)
      i1 == i0 + 1
      firstComma == Min2(aComma, bComma)
      \* phase 2: compare start keys up to the nearer last comma
      P2 == {j \in i1..(firstComma - 1) : a[j + 1] # b[j + 1]}
  IN
  IF P2 # {} THEN a[MinOf(P2) + 1] - b[MinOf(P2) + 1]
  ELSE IF aComma < bComma THEN -1002
  ELSE IF bComma < aComma THEN 1002
  ELSE
  LET i2 == IF i1 < firstComma THEN firstComma ELSE i1
      \* phase 3: the rest (the id) and then the lengths
      P3 == {j \in i2..(length - 1) : a[j + 1] # b[j + 1]}
  IN
  IF P3 # {} THEN a[MinOf(P3) + 1] - b[MinOf(P3) + 1]
  ELSE la - lb

(* C16 on one pair: the algorithm's sign is the tuple order *)
PairOK(x, y) == Sign(AlgoCmp(Flat(x), Flat(y))) = TupleCmp(x, y)

(* strict total order axioms of a comparison function on a set *)
Irreflexive(C(_, _), S)  == \A x \in S : C(x, x) = 0
Antisymmetric(C(_, _), S) == \A x, y \in S : Sign(C(x, y)) = -Sign(C(y, x))
Total(C(_, _), S)        == \A x, y \in S : x # y => C(x, y) # 0
=============================================================================
