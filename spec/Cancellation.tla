---------------------------- MODULE Cancellation ----------------------------
(* Property C13: in every state in which an API call can be blocked, the    *)
(* context that governs it is among the things it waits on, so that a       *)
(* cancellation (or an expired deadline) makes it return.                   *)
(*                                                                          *)
(* The request loop is modelled by its wait states.  Each wait state is a   *)
(* Go select (or a blocking call) with a fixed set of wake-up sources, as   *)
(* in the code:                                                             *)
(*   avail     getRegionAndClientForRPC: {ctx, client done, region channel} *)
(*   lookup    metaLookup -> scanner -> SendRPC on hbase:meta (recursively  *)
(*             one of the states below, under a context derived from ctx)   *)
(*   handoff   QueueBatch: {ctx, region-client done, rpcs <- calls}         *)
(*   result    sendBlocking: {ctx, result}                                  *)
(*   backoff   sleepAndIncreaseBackoff: {ctx, timer}                        *)
(*   bresult   waitForCompletion: {batch ctx, result [, the call's ctx]}    *)
(* The environment decides whether the non-context source ever fires.       *)
(* Entry points: a single call, a batch (its calls may carry contexts of    *)
(* their own), a scanner (Next = single calls under the scan's context).    *)
EXTENDS Integers, FiniteSets, TLC

CONSTANTS FixOwnCtx      \* waitForCompletion also selects on the call's own context

Entries == {"single", "batch", "scan"}
VARIABLES entry, pc, ctxDone, callCtxDone, ownCtx, envFires, returned, err
vars == <<entry, pc, ctxDone, callCtxDone, ownCtx, envFires, returned, err>>

(* who governs the wait: for a batch, locating and handing off use the batch context; waiting for a result uses the  *)
(* batch context and (with the fix) the call's own                                                                *)
Sources(state) ==
  CASE state = "avail"   -> {"ctx", "done", "chan"}
    [] state = "lookup"  -> {"ctx", "done", "reply"}
    [] state = "handoff" -> {"ctx", "done", "send"}
    [] state = "result"  -> {"ctx", "reply"}
    [] state = "backoff" -> {"ctx", "timer"}
    [] state = "bresult" -> IF FixOwnCtx THEN {"ctx", "callctx", "reply"} ELSE {"ctx", "reply"}
Waits == {"avail", "lookup", "handoff", "result", "backoff", "bresult"}
(* the order in which one attempt goes through them *)
NextWait(e, s) ==
  CASE s = "start"   -> "lookup"
    [] s = "lookup"  -> "avail"
    [] s = "avail"   -> IF e = "batch" THEN "handoff" ELSE "result"
    [] s = "handoff" -> "bresult"
    [] s = "result"  -> "backoff"        \* a retry-later answer
    [] s = "bresult" -> "backoff"
    [] s = "backoff" -> "lookup"

Init ==
  /\ entry \in Entries /\ pc = "start" /\ ctxDone = FALSE /\ callCtxDone = FALSE
  /\ ownCtx \in BOOLEAN          \* a call of the batch carries a context of its own
  /\ (ownCtx => entry = "batch")
  /\ envFires \in BOOLEAN        \* does the environment ever let the current wait end?
  /\ returned = FALSE /\ err = "none"

Advance ==     \* the awaited thing happens
  /\ ~returned /\ (pc = "start" \/ envFires)
  /\ pc' = NextWait(entry, pc)
  /\ envFires' \in BOOLEAN
  /\ UNCHANGED <<entry, ctxDone, callCtxDone, ownCtx, returned, err>>
Finish ==      \* the request succeeds
  /\ ~returned /\ pc \in {"result", "bresult"} /\ envFires
  /\ returned' = TRUE /\ err' = "none"
  /\ UNCHANGED <<entry, pc, ctxDone, callCtxDone, ownCtx, envFires>>
Cancel == /\ ~ctxDone /\ ctxDone' = TRUE /\ UNCHANGED <<entry, pc, callCtxDone, ownCtx, envFires, returned, err>>
CancelCall == /\ ownCtx /\ ~callCtxDone /\ callCtxDone' = TRUE
              /\ UNCHANGED <<entry, pc, ctxDone, ownCtx, envFires, returned, err>>
(* the select takes the context branch *)
WakeOnCtx ==
  /\ ~returned /\ pc \in Waits
  /\ \/ ctxDone /\ "ctx" \in Sources(pc)
     \/ callCtxDone /\ "callctx" \in Sources(pc)
  /\ returned' = TRUE /\ err' = "ctx"
  /\ UNCHANGED <<entry, pc, ctxDone, callCtxDone, ownCtx, envFires>>
Next == Advance \/ Finish \/ Cancel \/ CancelCall \/ WakeOnCtx
Spec == Init /\ [][Next]_vars /\ WF_vars(WakeOnCtx)

(* C13: cancelled while blocked => the context branch is enabled *)
CancelEnabled == (~returned /\ pc \in Waits /\ ctxDone) => ENABLED WakeOnCtx
(* ... also for a call of a batch whose own context ended while the batch waits for its result *)
CallCancelEnabled == (~returned /\ pc = "bresult" /\ callCtxDone) => ENABLED WakeOnCtx
(* NOT satisfied by the code (known finding, see known_findings.json): while locating, handing off or backing off, a batch
   watches the batch context only, so a call's own context ending there goes unnoticed until that wait is over *)
CallCancelEnabledEverywhere == (~returned /\ pc \in Waits /\ callCtxDone /\ entry = "batch") => ENABLED WakeOnCtx
CancelledReturns == (ctxDone /\ pc \in Waits) ~> returned
=============================================================================
