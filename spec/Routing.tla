------------------------------- MODULE Routing -------------------------------
(* C01, routing half: which region and server a single-row request must be  *)
(* addressed to, and when hbase:meta has to be consulted.  Uses the         *)
(* interval notions of RegionCache (InRange) and the search keys of         *)
(* RegionName.  A layout is a set of region records                         *)
(* [name, table, start, stop, id, host] whose ranges partition each table.  *)
EXTENDS RegionName, FiniteSets

Unb(k) == k = <<>>
InRg(r, t, k) == /\ r.table = t /\ Lex(r.start, k) <= 0 /\ (Unb(r.stop) \/ Lex(k, r.stop) < 0)
Owners(layout, t, k) == {r \in layout : InRg(r, t, k)}
Owner(layout, t, k) == CHOOSE r \in Owners(layout, t, k) : TRUE
(* layouts are contiguous partitions: exactly one owner for every key of an existing table *)
WellFormedLayout(layout, tables, keys) == \A t \in tables : \A k \in keys : Cardinality(Owners(layout, t, k)) = 1
(* what the client must ask hbase:meta: the row just before "table,key,:" *)
SearchKeyBytes(t, k) == t \o <<Comma>> \o k \o <<Comma, Colon>>
=============================================================================
