-------------------------------- MODULE Admin --------------------------------
(* The admin client's table operations (admin_client.go: CreateTable,       *)
(* DeleteTable, EnableTable, DisableTable -> checkProcedureWithBackoff).    *)
(* The operation is submitted to the master, which answers with a procedure *)
(* id; the client then polls getProcedureResult, sleeping the retry         *)
(* schedule of Backoff.tla between polls, until the master says FINISHED    *)
(* (with or without an exception) or NOT_FOUND, an RPC fails for good, or   *)
(* the operation's context ends.  Every RPC goes through SendRPC (the       *)
(* request loop of RequestLoop.tla): here it either yields an answer or a   *)
(* final error.                                                             *)
(*                                                                          *)
(* Not one of the listed properties by itself: the admin path is where C13  *)
(* (cancellation), C17 (back-off) and C18 (silent master) meet the master   *)
(* instead of a regionserver; its executions are validated against this     *)
(* module (Trace_Admin).                                                    *)
EXTENDS Integers, Sequences, TLC
Start == 16
NextB(b) == IF b < 5000 THEN 2 * b ELSE IF b < 30000 THEN b + 5000 ELSE b
RECURSIVE Var(_)
Var(k) == IF k = 1 THEN Start ELSE NextB(Var(k - 1))

CONSTANTS RunningPolls,   \* set of possible numbers of polls the master answers RUNNING before the procedure is finished
          Outcomes,       \* subset of {"ok", "exception", "notfound", "rpcerror"}: how the procedure / the polling ends
          AllowCancel, MaxPolls

VARIABLES scenario,  \* [running, outcome]  chosen at the start
          pc,        \* "submit" / "poll" / "sleep" / "done"
          polls,     \* getProcedureResult requests sent so far
          waits,     \* the waits slept so far (ms)
          ctxDone, result
vars == <<scenario, pc, polls, waits, ctxDone, result>>

Init == /\ scenario \in [running : RunningPolls, outcome : Outcomes, submitFails : BOOLEAN]
        /\ pc = "submit" /\ polls = 0 /\ waits = <<>> /\ ctxDone = FALSE /\ result = "none"

Finish(r) == pc' = "done" /\ result' = r

Submit ==
  /\ pc = "submit"
  /\ IF ctxDone THEN Finish("ctx")
     ELSE IF scenario.submitFails THEN Finish("rpcerror")
     ELSE pc' = "poll" /\ UNCHANGED result
  /\ UNCHANGED <<scenario, polls, waits, ctxDone>>

Poll ==   \* SendRPC(getProcedureResult): an ended context fails it; else the master's answer
  /\ pc = "poll" /\ polls < MaxPolls
  /\ IF ctxDone THEN Finish("ctx") /\ UNCHANGED polls
     ELSE /\ polls' = polls + 1
          /\ IF polls < scenario.running THEN pc' = "sleep" /\ UNCHANGED result      \* RUNNING
             ELSE Finish(scenario.outcome)
  /\ UNCHANGED <<scenario, waits, ctxDone>>

Sleep ==  \* sleepAndIncreaseBackoff(ctx, backoff): the k-th wait of the schedule, or the context ends it
  /\ pc = "sleep"
  /\ \/ ~ctxDone /\ waits' = Append(waits, Var(Len(waits) + 1)) /\ pc' = "poll" /\ UNCHANGED result
     \/ ctxDone /\ Finish("ctx") /\ UNCHANGED waits
  /\ UNCHANGED <<scenario, polls, ctxDone>>

Cancel == AllowCancel /\ ~ctxDone /\ pc # "done" /\ ctxDone' = TRUE /\ UNCHANGED <<scenario, pc, polls, waits, result>>

Next == Submit \/ Poll \/ Sleep \/ Cancel
Spec == Init /\ [][Next]_vars /\ WF_vars(Submit \/ Poll \/ Sleep)

----------------------------------------------------------------------------
WaitsFollowSchedule == \A k \in 1..Len(waits) : waits[k] = Var(k)
OnePollPerWait == polls <= Len(waits) + 1 /\ Len(waits) <= polls
(* nil only for a procedure the master reported FINISHED without an exception; every other ending is an error of its kind *)
ResultIsTheMastersVerdict ==
  pc = "done" =>
     \/ result = "ctx" /\ ctxDone
     \/ result = "rpcerror" /\ (scenario.submitFails \/ (scenario.outcome = "rpcerror" /\ polls = scenario.running + 1))
     \/ result \in {"ok", "exception", "notfound"} /\ result = scenario.outcome /\ polls = scenario.running + 1 /\ ~scenario.submitFails
NeverPollsAfterTheVerdict == pc = "done" => polls <= scenario.running + 1
(* C13 on the admin path: an ended context ends the operation (no further poll, no further sleep) *)
CancelEndsIt == ctxDone ~> pc = "done"
Terminates == <>(pc = "done")
=============================================================================
