---------------------------- MODULE Gen_BlockStream ----------------------------
(* vectors for the conformance driver *)
EXTENDS MC_BlockStream
\* 1. writer vectors: payload, K -> exact stream
W == {[k |-> k, payload |-> Payload(m), stream |-> Compress(Payload(m), k)] : k \in Ks, m \in 0..10}
ASSUME ndJsonSerialize("c15_writer.ndjson", SetToSeq(W))
\* 2. reader vectors: conforming re-chunkings, and the corruption neighbourhood of writer streams
Corrupt(s) == UNION {{[j \in 1..Len(s) |-> IF j = i THEN v ELSE s[j]] : v \in {0, 1, 255, (s[i] + 1) % 256, (s[i] + 255) % 256} \ {s[i]}} : i \in 1..Len(s)}
                \cup {SubSeq(s, 1, l) : l \in 0..(Len(s) - 1)}
                \cup {s \o <<x>> : x \in {0, 7}} \cup {s \o <<0, 0, 0>>}
Bases == {Compress(Payload(m), k) : k \in Ks, m \in 0..7}
Rechunked == UNION {Streams2(Payload(m)) : m \in 0..4}
RStreams == Bases \cup Rechunked \cup UNION {Corrupt(s) : s \in Bases} \cup UNION {Corrupt(s) : s \in {x \in Rechunked : Len(x) <= 22}}
R == {[stream |-> s, ok |-> Decompress(s).ok, out |-> Decompress(s).out] : s \in RStreams}
ASSUME ndJsonSerialize("c15_reader.ndjson", SetToSeq(R))
\* 3. structure at real chunk size
RealK == 218421
Struct == {[len |-> l, blockLen |-> l, chunks |-> ChunkSizes(l, RealK)] :
             l \in {0, 1, RealK - 1, RealK, RealK + 1, 2 * RealK, 2 * RealK + 1, 3 * RealK + 7}}
ASSUME ndJsonSerialize("c15_struct.ndjson", SetToSeq(Struct))
ASSUME PrintT(<<"@@N", Cardinality(W), Cardinality(R), Cardinality(Struct)>>)
=============================================================================
