----------------------------- MODULE Gen_Routing -----------------------------
(* B1: every layout of the scope (every subset of the boundary set as split *)
(* points) with, for every key of the scope, the start key of its owner.    *)
EXTENDS Routing, TLC, Json, SequencesExt
Bounds == {<<0>>, <<43>>, <<44>>, <<44, 0>>, <<255>>}
Keys == {<<>>, <<0>>, <<0, 0>>, <<1>>, <<42, 255>>, <<43>>, <<43, 0>>, <<43, 255, 255>>, <<44>>, <<44, 0>>, <<44, 0, 0>>,
         <<44, 44>>, <<45>>, <<254, 255>>, <<255>>, <<255, 0>>, <<255, 255>>}
SortedB(S) == SortSeq(SetToSeq(S), LAMBDA a, b : Lex(a, b) < 0)
LayoutOf(S) == LET bs == <<  <<>> >> \o SortedB(S) IN
                 {[name |-> "r", table |-> <<116>>, start |-> bs[i], stop |-> IF i < Len(bs) THEN bs[i + 1] ELSE <<>>,
                   id |-> i, host |-> "h"] : i \in 1..Len(bs)}
ASSUME \A S \in SUBSET Bounds : WellFormedLayout(LayoutOf(S), {<<116>>}, Keys)
Cases == {[splits |-> SortedB(S),
           owners |-> [i \in 1..Len(SetToSeq(Keys)) |->
                         [key |-> SetToSeq(Keys)[i], ownerStart |-> Owner(LayoutOf(S), <<116>>, SetToSeq(Keys)[i]).start,
                          search |-> SearchKeyBytes(<<116>>, SetToSeq(Keys)[i])]]] : S \in SUBSET Bounds}
ASSUME ndJsonSerialize("c01_layouts.ndjson", SetToSeq(Cases))
VARIABLE x
Init == x = 0
Next == UNCHANGED x
Spec == Init /\ [][Next]_x
=============================================================================
