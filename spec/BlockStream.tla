----------------------------- MODULE BlockStream -----------------------------
(* Hadoop's block-compressed stream format, as used for HBase cellblock     *)
(* compression (property C15):                                              *)
(*                                                                          *)
(*   stream ::= block*                                                      *)
(*   block  ::= int32 rawLen  chunk*     (chunks decode to rawLen bytes)    *)
(*   chunk  ::= int32 compLen  <compLen bytes of codec output>              *)
(*                                                                          *)
(* The writer (region/compressor.go: compressCellblocks) emits ONE block    *)
(* per payload and cuts it into chunks of at most K raw bytes; the reader   *)
(* (decompressCellblocks) accepts any number of blocks and any chunk sizes. *)
(* The codec is abstract: Enc/Dec below are a tagged mock codec whose       *)
(* decoder detects damage to its tag; the harness plugs the same mock codec *)
(* into the real compressor, and separately checks structure with snappy.   *)
EXTENDS Integers, Sequences, FiniteSets, SequencesExt

BE32(n) == <<(n \div 16777216) % 256, (n \div 65536) % 256, (n \div 256) % 256, n % 256>>
Huge == 1073741824   \* stands for every length >= 2^24: larger than any stream of the scope (TLC integers are 32 bit)
U32(s) == IF s[1] # 0 THEN Huge ELSE s[2] * 65536 + s[3] * 256 + s[4]

(* mock codec: a tag byte 200+|x| followed by every byte incremented *)
Enc(x) == <<(200 + Len(x)) % 256>> \o [i \in 1..Len(x) |-> (x[i] + 1) % 256]
DecOK(y) == Len(y) >= 1 /\ y[1] = (200 + Len(y) - 1) % 256
Dec(y) == [i \in 1..(Len(y) - 1) |-> (y[i + 1] + 255) % 256]

Min2(a, b) == IF a < b THEN a ELSE b

(* cut a payload into consecutive chunks of at most K bytes *)
RECURSIVE Chunks(_, _)
Chunks(p, K) == IF p = <<>> THEN <<>>
                ELSE <<SubSeq(p, 1, Min2(K, Len(p)))>> \o Chunks(SubSeq(p, Min2(K, Len(p)) + 1, Len(p)), K)

RECURSIVE EncodeChunks(_)
EncodeChunks(cs) == IF cs = <<>> THEN <<>>
                    ELSE BE32(Len(Enc(Head(cs)))) \o Enc(Head(cs)) \o EncodeChunks(Tail(cs))

(* one block from an explicit chunking *)
Block(cs) == BE32(Len(FlattenSeq(cs))) \o EncodeChunks(cs)

(* the writer *)
Compress(p, K) == Block(Chunks(p, K))

(* chunk sizes the writer must produce for a payload of n bytes *)
RECURSIVE ChunkSizes(_, _)
ChunkSizes(n, K) == IF n = 0 THEN <<>> ELSE <<Min2(n, K)>> \o ChunkSizes(n - Min2(n, K), K)

(* the reader, as the state machine of decompressCellblocks.                *)
(* need = -1: between blocks; otherwise raw bytes still expected in block   *)
RECURSIVE Read(_, _, _)
Read(rest, out, need) ==
  IF need = -1 THEN
       IF rest = <<>> THEN [ok |-> TRUE, out |-> out]
       ELSE IF Len(rest) < 4 THEN [ok |-> FALSE, out |-> <<>>]
       ELSE Read(SubSeq(rest, 5, Len(rest)), out, U32(rest))
  ELSE IF need = 0 THEN Read(rest, out, -1)
  ELSE IF need < 0 THEN [ok |-> FALSE, out |-> <<>>]          \* decoded more than the block announced
  ELSE IF Len(rest) < 4 THEN [ok |-> FALSE, out |-> <<>>]
  ELSE LET cl == U32(rest) IN
       IF Len(rest) - 4 < cl THEN [ok |-> FALSE, out |-> <<>>]
       ELSE LET y == SubSeq(rest, 5, 4 + cl) IN
            IF ~DecOK(y) THEN [ok |-> FALSE, out |-> <<>>]
            ELSE LET n == Len(Dec(y))
                     left == IF need - n >= 0 THEN need - n ELSE -2
                 IN Read(SubSeq(rest, 5 + cl, Len(rest)), out \o Dec(y), left)

Decompress(s) == Read(s, <<>>, -1)
=============================================================================
