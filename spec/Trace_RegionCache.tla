-------------------------- MODULE Trace_RegionCache --------------------------
(* B2: every step the real keyRegionCache / getRegionFromCache took (args   *)
(* and observed outputs, full cache and dead flags) is replayed through the *)
(* abstract RegionCache actions; outputs must be equal at every step and    *)
(* the C08 invariants are evaluated in every state.  The model is           *)
(* deterministic given the arguments, so validation is linear.              *)
EXTENDS RegionCache, TLC, Json
T == ndJsonDeserialize("c08_trace.ndjson")
VARIABLE i
tvars == <<cvars, i>>

Rec(r) == [obj |-> r.obj, table |-> r.table, start |-> r.start, stop |-> r.stop, id |-> r.id]

TInit == Init /\ i = 1
Reset == /\ cache' = {} /\ dead' = {} /\ lastOverlaps' = {} /\ lastReplaced' = FALSE
         /\ lastGet' = NoRegion /\ lastOp' = "init"
TNext ==
  /\ i <= Len(T)
  /\ i' = i + 1
  /\ LET e == T[i] IN
       CASE e.ev = "reset" -> Reset
         [] e.ev = "put"   -> Put(Rec(e.r))
         [] e.ev = "del"   -> Del(Rec(e.r))
         [] e.ev = "get"   -> Get(e.table, e.key)
TSpec == TInit /\ [][TNext]_tvars

Objs(S) == {r.obj : r \in S}
(* the outputs logged by the step just taken equal the model's *)
StepOK ==
  i > 1 =>
    LET e == T[i - 1] IN
      CASE e.ev = "reset" -> TRUE
        [] e.ev = "put" -> /\ Objs(lastOverlaps) = ToSet(e.overlaps)
                           /\ lastReplaced = e.replaced
                           /\ Objs(cache) = ToSet(e.cache)
                           /\ Objs(dead) = ToSet(e.dead)
        [] e.ev = "del" -> /\ lastReplaced = e.ok
                           /\ Objs(cache) = ToSet(e.cache)
                           /\ Objs(dead) = ToSet(e.dead)
        [] e.ev = "get" -> lastGet.obj = e.res
Accepted == TLCGet("stats").diameter = Len(T) + 1
=============================================================================
