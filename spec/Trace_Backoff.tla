---------------------------- MODULE Trace_Backoff ----------------------------
(* Attempts observed at the simulated cluster (virtual microseconds) in the  *)
(* persistent-failure scenarios, validated against the schedule: the k-th    *)
(* gap of a loop must be cost + Sched(k - imm) within a tolerance, where     *)
(* `imm' immediate retries are allowed first and `cost' is what one attempt  *)
(* takes besides the wait (a lookup timeout, a flush interval).              *)
EXTENDS Backoff, TLC, Json
T == ndJsonDeserialize("c17_trace.ndjson")
VARIABLES i, sc, times
tvars == <<i, sc, times>>
TInit == i = 1 /\ sc = [name |-> "none", imm |-> 0, cost |-> 0, tol |-> 0, zero |-> FALSE, loops |-> 1] /\ times = <<>>
TNext ==
  /\ i <= Len(T) /\ i' = i + 1
  /\ LET e == T[i] IN
     CASE e.ev = "scenario" -> sc' = [name |-> e.name, imm |-> e.imm, cost |-> e.cost, tol |-> e.tol, zero |-> e.zero,
                                      loops |-> IF "loops" \in DOMAIN e THEN e.loops ELSE 1] /\ times' = <<>>
       [] e.ev = "attempt" -> times' = Append(times, e.t) /\ UNCHANGED sc
       [] OTHER -> UNCHANGED <<sc, times>>
TSpec == /\ TInit /\ kind = "later" /\ b = Start /\ errs = 0 /\ attempts = 1 /\ waits = <<>>
         /\ [][TNext /\ UNCHANGED lvars]_<<tvars, lvars>>
(* gaps in microseconds against the schedule in milliseconds *)
Expect(k) == IF k <= sc.imm THEN 0 ELSE (IF sc.zero THEN SchedFromZero(k - sc.imm) ELSE Sched(k - sc.imm))
GapsFollowSchedule ==
  sc.loops = 1 =>
  \A k \in 1..(Len(times) - 1) :
     LET gap == times[k + 1] - times[k]
         want == 1000 * (sc.cost + Expect(k))
     IN  gap >= want /\ gap <= want + 1000 * sc.tol
(* several retry loops at once (one per region of the failing server): attempts of different loops interleave, so the    *)
(* gaps say nothing - but `loops' loops cannot have made their k-th attempt overall before one loop alone would have     *)
(* made its ceil(k / loops)-th (each loop starts no earlier than the first attempt and waits at least its schedule)      *)
RECURSIVE Cum(_)
Cum(j) == IF j <= 0 THEN 0 ELSE Cum(j - 1) + sc.cost + Expect(j)     \* ms from a loop's first attempt to its (j+1)-th
BudgetOK ==
  sc.loops > 1 =>
  \A k \in 1..Len(times) :
     LET j == (k + sc.loops - 1) \div sc.loops IN   \* this is at least some loop's j-th attempt
     times[k] - times[1] + 1000 * sc.tol >= 1000 * Cum(j - 1)
Accepted == TLCGet("stats").diameter = Len(T) + 1
=============================================================================
