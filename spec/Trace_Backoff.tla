---------------------------- MODULE Trace_Backoff ----------------------------
(* Attempts observed at the simulated cluster (virtual microseconds) in the  *)
(* persistent-failure scenarios, validated against the schedule: the k-th    *)
(* gap of a loop must be cost + Sched(k - imm) within a tolerance, where     *)
(* `imm' immediate retries are allowed first and `cost' is what one attempt  *)
(* takes besides the wait (a lookup timeout, a flush interval).              *)
EXTENDS Backoff, TLC, Json
T == ndJsonDeserialize("c17_trace.ndjson")
VARIABLES i, sc, times
tvars == <<i, sc, times>>
TInit == i = 1 /\ sc = [name |-> "none", imm |-> 0, cost |-> 0, tol |-> 0, zero |-> FALSE] /\ times = <<>>
TNext ==
  /\ i <= Len(T) /\ i' = i + 1
  /\ LET e == T[i] IN
     CASE e.ev = "scenario" -> sc' = [name |-> e.name, imm |-> e.imm, cost |-> e.cost, tol |-> e.tol, zero |-> e.zero] /\ times' = <<>>
       [] e.ev = "attempt" -> times' = Append(times, e.t) /\ UNCHANGED sc
       [] OTHER -> UNCHANGED <<sc, times>>
TSpec == /\ TInit /\ kind = "later" /\ b = Start /\ errs = 0 /\ attempts = 1 /\ waits = <<>>
         /\ [][TNext /\ UNCHANGED lvars]_<<tvars, lvars>>
(* gaps in microseconds against the schedule in milliseconds *)
Expect(k) == IF k <= sc.imm THEN 0 ELSE (IF sc.zero THEN SchedFromZero(k - sc.imm) ELSE Sched(k - sc.imm))
GapsFollowSchedule ==
  \A k \in 1..(Len(times) - 1) :
     LET gap == times[k + 1] - times[k]
         want == 1000 * (sc.cost + Expect(k))
     IN  gap >= want /\ gap <= want + 1000 * sc.tol
Accepted == TLCGet("stats").diameter = Len(T) + 1
=============================================================================
