SPECIFICATION Spec
INVARIANT CallOK
POSTCONDITION Accepted
CHECK_DEADLOCK FALSE
