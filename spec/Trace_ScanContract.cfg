SPECIFICATION Spec
INVARIANTS RowsOK ErrorOnceThenEOF NothingLeftOpen NoRequestOnADeadScanner
POSTCONDITION Accepted
CHECK_DEADLOCK FALSE
