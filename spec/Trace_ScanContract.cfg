SPECIFICATION Spec
INVARIANTS RowsOK ErrorOnceThenEOF NothingLeftOpen
POSTCONDITION Accepted
CHECK_DEADLOCK FALSE
