--------------------------- MODULE MC_RegionCache ---------------------------
(* Every cache reachable by puts and removals over a small universe:        *)
(* two tables (one a prefix of the other), boundaries around ',' , 3 ids.   *)
EXTENDS RegionCache, TLC
CONSTANT Big
TA == <<97>>
TB == <<97, 97>>
B(i) == <<  <<>>, <<43>>, <<44>>, <<44, 44>>, <<>> >>[i + 1]     \* b0="" < b1="+" < b2="," < b3=",," ; B(4) = unbounded end
R(t, s, e, i) == [obj |-> 0, table |-> t, start |-> s, stop |-> e, id |-> i]
\* names are unique in HBase: (table, start, id) determines the region, hence its stop key
UniverseA ==
     {R(TA, B(i), <<>>, 1) : i \in 0..3}                         \* id 1: everything from b_i on (nested)
  \cup {R(TA, B(i), B(i + 1), 2) : i \in 0..3}                    \* id 2: the four adjacent slices
  \cup (IF Big THEN {R(TA, B(0), B(2), 3), R(TA, B(1), B(3), 3), R(TA, B(2), <<>>, 3), R(TA, B(3), <<>>, 3),
                    R(TA, B(0), <<>>, 4), R(TA, B(1), B(2), 4)} ELSE {R(TA, B(0), B(2), 3), R(TA, B(2), <<>>, 3)})
UniverseB == {R(TB, <<>>, <<>>, 1), R(TB, <<>>, <<44>>, 2), R(TB, <<44>>, <<>>, 2), R(TB, <<>>, <<>>, 3)}
Universe == UniverseA \cup UniverseB
Keys == {<<>>, <<0>>, <<43>>, <<43, 255>>, <<44>>, <<44, 0>>, <<44, 44>>, <<44, 44, 0>>, <<45>>, <<255>>}
Tables == {TA, TB, <<97, 97, 97>>}

Next == \E r \in Universe : Put(r) \/ Del(r)
Spec == Init /\ [][Next]_cvars
View == cache

LayersAgreeOverlaps ==
  \A r \in Universe : (~\E o \in cache : SameName(o, r)) => ImplOverlaps(cache, r) = AbsOverlaps(cache, r)
LayersAgreeGet == \A t \in Tables, k \in Keys : ImplGet(cache, t, k) = AbsGet(cache, t, k)
CachedNotDead == cache \cap dead = {}   \* holds in this universe: one object per name
=============================================================================
