---------------------------- MODULE MultiDispatch ----------------------------
(* How the results of a MultiResponse find their callers (region/multi.go:  *)
(* toProto, DeserializeCellBlocks, returnResults) - the correlation part of *)
(* property C02: by action index inside the multi response and by position  *)
(* in the shared cellblock.                                                 *)
(*                                                                          *)
(* A multi holds calls 1..N (its m.calls); a call whose context ended when  *)
(* the request was serialised is a hole (nil) but keeps its index.  Calls   *)
(* are grouped per region (the order of the groups is arbitrary: Go map     *)
(* order); inside a group they keep their relative order.  The server       *)
(* answers the groups in request order; inside a group it may list the      *)
(* results in any order; a result is [index, kind, ncells]; the cells of    *)
(* all results lie in the cellblock in the order the results are listed.    *)
(* A region may answer with one exception for all its actions.              *)
EXTENDS Integers, Sequences, FiniteSets, SequencesExt, FiniteSetsExt, TLC

CONSTANTS N,            \* calls in the multi
          Regions       \* e.g. {"r1", "r2"}

VARIABLES scn           \* the scenario (chosen in Init, constant afterwards)
vars == <<scn>>

Calls == 1..N
(* the cells the server produces for call c: c copies of the value c (0..2 of them) *)
NCells(c) == c % 3
CellsOf(c) == [i \in 1..NCells(c) |-> c]

(* ---- request side (toProto) *)
Live(s) == {c \in Calls : c \notin s.holes}
GroupOf(s, r) == SelectSeq([c \in 1..N |-> c], LAMBDA c : c \in Live(s) /\ s.region[c] = r)   \* batch order inside a region
ReqRegions(s) == s.regionOrder         \* a permutation of the regions that have live calls
(* ---- server side: for the i-th region action either an exception or the results in the server's order *)
RespOf(s, i) == s.resp[i]
(* the cellblock: cells of every listed successful result, in listing order *)
RECURSIVE CellblockOf(_, _)
CellblockOf(s, i) ==
  IF i > Len(s.regionOrder) THEN <<>>
  ELSE (IF s.resp[i].exc THEN <<>>
        ELSE FlattenSeq([k \in 1..Len(s.resp[i].order) |->
                           IF s.resp[i].order[k] \in s.actionExc THEN <<>> ELSE CellsOf(s.resp[i].order[k])]))
       \o CellblockOf(s, i + 1)

(* ---- client side *)
(* DeserializeCellBlocks: walk the results in response order, each successful one takes its announced number of cells *)
RECURSIVE Assign(_, _, _, _)
Assign(s, i, k, pos) ==   \* returns the set of [call, cells] assignments
  IF i > Len(s.regionOrder) THEN {}
  ELSE IF s.resp[i].exc \/ k > Len(s.resp[i].order) THEN Assign(s, i + 1, 1, pos)
  ELSE LET c == s.resp[i].order[k] IN
       IF c \in s.actionExc THEN Assign(s, i, k + 1, pos)
       ELSE {[call |-> c, cells |-> SubSeq(CellblockOf(s, 1), pos, pos + NCells(c) - 1)]} \cup Assign(s, i, k + 1, pos + NCells(c))
(* returnResults: what each call receives: "ok" with cells, "exc" (its own action exception), "rexc" (its region's) *)
Delivered(s) ==
  [c \in Calls |->
     IF c \in s.holes THEN <<>>
     ELSE LET i == CHOOSE i \in 1..Len(s.regionOrder) : s.regionOrder[i] = s.region[c] IN
          IF s.resp[i].exc THEN <<[kind |-> "rexc"]>>
          ELSE IF c \in s.actionExc THEN <<[kind |-> "exc", about |-> c]>>
          ELSE <<[kind |-> "ok", cells |-> (CHOOSE a \in Assign(s, 1, 1, 1) : a.call = c).cells]>>]

(* ---- scenarios *)
Perms(S) == {p \in [1..Cardinality(S) -> S] : \A a, b \in 1..Cardinality(S) : a # b => p[a] # p[b]}
SeqPerms(q) == {[i \in 1..Len(q) |-> q[p[i]]] : p \in Perms(1..Len(q))}
Scenarios ==
  UNION {
   UNION {
    LET used(hh, rr) == {rr[c] : c \in Calls \ hh}
        base(hh, rr) == [holes |-> hh, region |-> rr] IN
    UNION { { [holes |-> h, region |-> reg, regionOrder |-> ro, actionExc |-> ae,
               resp |-> rs] :
                 ae \in SUBSET (Calls \ h),
                 rs \in {f \in [1..Len(ro) -> [exc : BOOLEAN, order : UNION {SeqPerms(GroupOf(base(h, reg), ro[i])) : i \in 1..Len(ro)}]] :
                           \A i \in 1..Len(ro) : f[i].order \in SeqPerms(GroupOf(base(h, reg), ro[i]))} }
            : ro \in Perms(used(h, reg)) }
    : reg \in [Calls -> Regions] }
   : h \in {x \in SUBSET Calls : Cardinality(x) <= 1} }

Init == scn \in Scenarios
Next == UNCHANGED scn
Spec == Init /\ [][Next]_vars

(* C02: every live call gets exactly one result, and it is the one the server produced for it *)
OwnResponse ==
  \A c \in Live(scn) :
     LET d == Delivered(scn)[c] IN
       /\ Len(d) = 1
       /\ d[1].kind = "ok" => d[1].cells = CellsOf(c)
       /\ d[1].kind = "exc" => d[1].about = c
HolesGetNothing == \A c \in scn.holes : Delivered(scn)[c] = <<>>
WholeCellblockConsumed ==
  LET total == Len(CellblockOf(scn, 1))
      used == FoldSet(LAMBDA a, acc : acc + Len(a.cells), 0, Assign(scn, 1, 1, 1))
  IN used = total
=============================================================================
