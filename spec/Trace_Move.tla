----------------------------- MODULE Trace_Move -----------------------------
(* What the servers saw of the client while a region was moved under it    *)
(* (driver class M of C01), line by line against Move: requests for the    *)
(* region and where they arrived, lookups in hbase:meta, probes, the API   *)
(* calls and how they ended.  The steps of the client that no server sees  *)
(* (routing, handling "not serving", SetClient, MarkAvailable) are taken   *)
(* by closing the state under Unseen after every line.                     *)
EXTENDS Move, Sequences, Json
T == ndJsonDeserialize("move_trace.ndjson")
VARIABLE i
RECURSIVE Closure(_, _)
Closure(F, seen) == IF F = {} THEN seen ELSE LET N == (UNION {Unseen(t) : t \in F}) \ seen IN Closure(N, seen \cup N)
Cl(S) == Closure(S, S)
ArriveSet(t, C) == [t EXCEPT !.pc = [c \in Subs |-> IF c \in C THEN (IF t.at[c] = t.srv THEN "done" ELSE "nsre") ELSE t.pc[c]]]
Visible(e, t) ==
  CASE e.ev = "reset" -> {Init0(e.srv)}
    [] e.ev = "move" -> {[t EXCEPT !.srv = e.to, !.fresh = FALSE]}
    [] e.ev = "start" -> IF Quiet(t) THEN {[t EXCEPT !.pc = [c \in Subs |-> IF c <= e.n THEN "route" ELSE "idle"], !.at = [c \in Subs |-> None]]} ELSE {}
    [] e.ev = "req" ->    \* a request carrying e.n calls of the API call for the region arrived at e.addr
         {ArriveSet(t, C) : C \in {C \in SUBSET Subs : Cardinality(C) = e.n /\ \A c \in C : t.pc[c] = "fly" /\ t.at[c] = e.addr}}
    [] e.ev = "lookup" -> LookupS(t)
    [] e.ev = "probe" -> IF t.eaddr = e.addr THEN ProbeS(t) ELSE {}
    [] e.ev = "ret" -> IF e.ok /\ Quiet(t) THEN {t} ELSE {}
    [] OTHER -> {}
TInit == i = 1 /\ s = Init0(T[1].srv)
TNext == i <= Len(T) /\ i' = i + 1 /\ s' \in Cl(Visible(T[i], s))
TSpec == TInit /\ [][TNext]_<<s, i>>
Accepted == TLCGet("stats").diameter = Len(T) + 1
=============================================================================
