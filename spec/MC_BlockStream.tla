---------------------------- MODULE MC_BlockStream ----------------------------
EXTENDS BlockStream, TLC, Json
Ks == {2, 3}
MaxLen(K) == 3 * K + 1
Payload(n) == [i \in 1..n |-> 10 + i]        \* distinct bytes: misplacement is visible

(* every way of cutting p into blocks and the blocks into chunks (all chunk *)
(* sizes >= 1, also larger than K: the reader must not care)               *)
RECURSIVE Cuts(_)
Cuts(p) == IF p = <<>> THEN {<<>>}
           ELSE UNION {{<<SubSeq(p, 1, k)>> \o r : r \in Cuts(SubSeq(p, k + 1, Len(p)))} : k \in 1..Len(p)}
RECURSIVE Concat(_)
Concat(ss) == IF ss = <<>> THEN <<>> ELSE Head(ss) \o Concat(Tail(ss))
Streams2(p) ==   \* conforming streams for p: blocks x chunkings
  UNION {LET perBlock == [i \in 1..Len(bs) |-> {Block(cs) : cs \in Cuts(bs[i])}]
             RECURSIVE Prod(_)
             Prod(i) == IF i > Len(bs) THEN {<<>>} ELSE {x \o y : x \in perBlock[i], y \in Prod(i + 1)}
         IN Prod(1) : bs \in Cuts(p)}

VARIABLES K, n
Init == K \in Ks /\ n \in 0..MaxLen(K)
Next == UNCHANGED <<K, n>>
Spec == Init /\ [][Next]_<<K, n>>
RoundTrip == Decompress(Compress(Payload(n), K)) = [ok |-> TRUE, out |-> Payload(n)]
WriterShape == LET s == Compress(Payload(n), K) IN
                 /\ U32(s) = n
                 /\ ChunkSizes(n, K) = [i \in 1..Len(Chunks(Payload(n), K)) |-> Len(Chunks(Payload(n), K)[i])]
                 /\ \A i \in 1..Len(ChunkSizes(n, K)) : ChunkSizes(n, K)[i] <= K /\ ChunkSizes(n, K)[i] >= 1
AnyConformingDecodes == n <= 5 => \A s \in Streams2(Payload(n)) : Decompress(s) = [ok |-> TRUE, out |-> Payload(n)]
ZeroBlocksHarmless == Decompress(BE32(0) \o Compress(Payload(n), K) \o BE32(0)) = [ok |-> TRUE, out |-> Payload(n)]
=============================================================================
