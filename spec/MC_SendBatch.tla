----------------------------- MODULE MC_SendBatch -----------------------------
EXTENDS SendBatch
Servers == {"s1", "s2"}
(* outcome sequences of one call across rounds: it is re-sent only after a retryable outcome; the last is final *)
OutSeqs == { <<"ok", "ok", "ok">>, <<"fatal", "ok", "ok">>, <<"later", "ok", "ok">>, <<"later", "fatal", "ok">>, <<"nsr", "ok", "ok">>,
             <<"dead", "ok", "ok">>, <<"nsr", "later", "ok">>, <<"later", "later", "ok">>, <<"dead", "nsr", "fatal">>, <<"nsr", "nsr", "ok">>,
             <<"stopped", "ok", "ok">>, <<"stopped", "later", "ok">> }
Relocs == {[r \in 2..3 |-> "ok"]} \cup {[r \in 2..3 |-> IF r = k THEN v ELSE "ok"] : k \in 2..3, v \in {"tnf", "hang"}}
Cancels == {[at |-> "never", round |-> 0, held |-> {}]}
           \cup {[at |-> "wait", round |-> r, held |-> h] : r \in 1..2, h \in (SUBSET Servers) \ {{}}}
           \cup {[at |-> "backoff", round |-> r, held |-> {}] : r \in 1..2}
           \cup {[at |-> "find", round |-> r, held |-> {}] : r \in 2..3}
SentIn(s, c, r) == \A q \in 1..(r - 1) : s.out[c][q] \in {"later", "nsr", "dead", "stopped"}
Consistent(s) ==
  \* a dead connection fails every call sent over it in that round
  /\ \A c, d \in Calls : \A r \in 1..3 :
        (s.srv[c] = s.srv[d] /\ SentIn(s, c, r) /\ SentIn(s, d, r) /\ s.out[c][r] = "dead") => s.out[d][r] = "dead"
  \* a round in which re-location fails has a call that needs re-locating
  /\ \A r \in 2..3 : s.reloc[r] # "ok" => \E c \in Calls : SentIn(s, c, r) /\ c \notin s.ownCtx /\ s.out[c][r - 1] \in {"nsr", "dead", "stopped"}
  \* a cancellation "while servers hold their answers" needs every held server to have a live call in that round,
  \* one "while re-locating" needs regions that do not come back
  /\ (s.cancel.at = "wait" => \A h \in s.cancel.held : \E c \in Calls : s.srv[c] = h /\ SentIn(s, c, s.cancel.round) /\ c \notin s.ownCtx)
  /\ (s.cancel.at = "find" => s.reloc[s.cancel.round] = "hang")
  /\ (s.cancel.at = "backoff" => \E c \in Calls : SentIn(s, c, s.cancel.round) /\ c \notin s.ownCtx /\ s.out[c][s.cancel.round] = "later")
  /\ s.srv[1] = "s1"
  /\ Cardinality(s.ownCtx) <= 1
Srvs == {f \in [Calls -> Servers] : f[1] = "s1"}
Scripts == {s \in [srv : Srvs, out : [Calls -> OutSeqs], reloc : Relocs, ownCtx : {{}} \cup {{c} : c \in Calls}, cancel : Cancels] :
              Consistent(s)}
Init == scr \in Scripts /\ InitRest
Spec == Init /\ [][NextS]_vars
=============================================================================
