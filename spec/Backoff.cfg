SPECIFICATION LSpec
INVARIANTS ClosedFormHolds Monotone Bounded Discipline
CHECK_DEADLOCK FALSE
