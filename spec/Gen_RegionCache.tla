--------------------------- MODULE Gen_RegionCache ---------------------------
(* Single source of truth for the replay scope: TLC writes the universe of  *)
(* MC_RegionCache and the lookup keys for the Go driver.                    *)
EXTENDS MC_RegionCache, Json
ASSUME ndJsonSerialize("c08_universe.ndjson", SetToSeq(Universe))
ASSUME ndJsonSerialize("c08_keys.ndjson", SetToSeq({[table |-> t, key |-> k] : t \in Tables, k \in Keys}))
=============================================================================
