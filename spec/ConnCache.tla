------------------------------ MODULE ConnCache ------------------------------
(* The client's connection cache and the life of a regionserver connection  *)
(* (caches.go: clientRegionCache; rpc.go: establishRegion, clientDown;      *)
(* region/new.go: Dial; region/client.go: fail; client.go: Close) - the     *)
(* part that properties C19 (Close is terminal) and C20 (one connection per *)
(* regionserver) are about.                                                 *)
(*                                                                          *)
(* Establishers have already located their region at an address; each runs  *)
(*   put -> Dial (first caller dials: dialer, publish conn, hello) -> probe  *)
(*       -> SetClient + MarkAvailable            | on failure: clientDown,  *)
(*          look the region up again (fails once the client is closed), ... *)
(* The closer runs Close(): close(done), then closeAll under the cache lock *)
(* (client.Close() = fail() for every cached connection).  The network may  *)
(* kill an open connection.                                                 *)
EXTENDS Integers, FiniteSets, TLC

CONSTANTS Ests,        \* establishers (strings)
          AddrOf,      \* [Ests -> address]
          MaxConn,     \* connection objects 1..MaxConn
          MaxTries,    \* passes of an establisher
          MaxKills,    \* connections the network may kill
          AllowClose,
          FixPut,      \* TRUE: put() after closeAll hands out a closed, uncached connection object
          MaxReplace,  \* how often regions may be replaced (split / merged / moved) after they were established
          DelDropsEmpty,        \* clients.del forgets a connection that is left without regions (FALSE = the code: it stays cached)
          CloseOnlyWithRegions, \* closeAll closes only connections that still have a region (FALSE = the code: every cached one)
          FixDial      \* TRUE: Dial does nothing on a closed object and re-checks `done' after publishing the
                       \*       conn; fail() reads the conn under the same lock

Addrs == {AddrOf[e] : e \in Ests}
Conns == 1..MaxConn
VARIABLES
  cached,      \* connection objects in the cache
  used,        \* connection objects created so far
  addr,        \* [Conns -> address or "-"]
  kdone,       \* [Conns -> BOOLEAN]      region client `done' closed
  kconn,       \* [Conns -> "nil" / "dialed" (returned by the dialer, not yet published) / "open" / "closed"]
  dialOnce,    \* [Conns -> "no" / "running" / "yes"]
  dialer,      \* [Conns -> establisher running the Once body or "-"]
  dials,       \* [Addrs -> Nat]          connections opened to the address
  declared,    \* [Addrs -> Nat]          clientDown declarations for connections of the address
  cdone,       \* client `done' closed
  cacheClosed, \* closeAll ran
  lock,        \* holder of the cache lock: "-" / establisher / "closer"
  pc,          \* [Ests -> control point]
  conn,        \* [Ests -> connection object in hand or 0]
  tries,       \* [Ests -> Nat]
  avail,       \* [Ests -> BOOLEAN]       the region was made available with a client
  cpc,         \* closer control point
  cwork,       \* connection objects closeAll still has to close
  kills,
  kregs,       \* [Conns -> SUBSET Ests]  the regions registered for a connection object in the cache (clientRegionCache.regions)
  replaced     \* region replacements so far

vars == <<cached, used, addr, kdone, kconn, dialOnce, dialer, dials, declared, cdone, cacheClosed, lock, pc, conn, tries, avail,
          cpc, cwork, kills, kregs, replaced>>

Init ==
  /\ cached = {} /\ used = {} /\ addr = [k \in Conns |-> "-"] /\ kdone = [k \in Conns |-> FALSE]
  /\ kconn = [k \in Conns |-> "nil"] /\ dialOnce = [k \in Conns |-> "no"] /\ dialer = [k \in Conns |-> "-"]
  /\ dials = [a \in Addrs |-> 0] /\ declared = [a \in Addrs |-> 0]
  /\ cdone = FALSE /\ cacheClosed = FALSE /\ lock = "-"
  /\ pc = [e \in Ests |-> "put"] /\ conn = [e \in Ests |-> 0] /\ tries = [e \in Ests |-> 1] /\ avail = [e \in Ests |-> FALSE]
  /\ cpc = <<"idle", 0>> /\ cwork = {} /\ kills = 0
  /\ kregs = [k \in Conns |-> {}] /\ replaced = 0

Fresh == CHOOSE k \in Conns : k \notin used

(* clientRegionCache.put under the cache lock *)
Put(e) ==
  /\ pc[e] = "put" /\ lock = "-" /\ Cardinality(used) < MaxConn
  /\ LET same == {k \in cached : addr[k] = AddrOf[e]} IN
     IF same # {}
     THEN /\ conn' = [conn EXCEPT ![e] = CHOOSE k \in same : TRUE]
          /\ UNCHANGED <<cached, used, addr, kdone>>
     ELSE /\ conn' = [conn EXCEPT ![e] = Fresh]
          /\ used' = used \cup {Fresh} /\ addr' = [addr EXCEPT ![Fresh] = AddrOf[e]]
          /\ IF FixPut /\ cacheClosed
             THEN kdone' = [kdone EXCEPT ![Fresh] = TRUE] /\ UNCHANGED cached     \* closed and not cached
             ELSE cached' = cached \cup {Fresh} /\ UNCHANGED kdone
  /\ pc' = [pc EXCEPT ![e] = "dial"]
  /\ kregs' = [kregs EXCEPT ![conn'[e]] = IF conn'[e] \in cached' THEN @ \cup {e} ELSE @]
  /\ UNCHANGED <<kconn, dialOnce, dialer, dials, declared, cdone, cacheClosed, lock, tries, avail, cpc, cwork, kills, replaced>>

(* Dial: sync.Once; the first caller runs the body, the others wait for it *)
DialEnter(e) ==
  /\ pc[e] = "dial"
  /\ LET k == conn[e] IN
     \/ /\ dialOnce[k] = "no"
        /\ IF FixDial /\ kdone[k]
           THEN /\ dialOnce' = [dialOnce EXCEPT ![k] = "yes"] /\ pc' = [pc EXCEPT ![e] = "dialed"] /\ UNCHANGED dialer
           ELSE /\ dialOnce' = [dialOnce EXCEPT ![k] = "running"] /\ dialer' = [dialer EXCEPT ![k] = e]
                /\ pc' = [pc EXCEPT ![e] = "dialing"]
     \/ /\ dialOnce[k] = "yes" /\ pc' = [pc EXCEPT ![e] = "dialed"] /\ UNCHANGED <<dialOnce, dialer>>
  /\ UNCHANGED <<cached, used, addr, kdone, kconn, dials, declared, cdone, cacheClosed, lock, conn, tries, avail, cpc, cwork, kills, replaced, kregs>>

DialerReturns(e) ==      \* the dialer produced a connection (a local variable of Dial so far)
  /\ pc[e] = "dialing"
  /\ kconn' = [kconn EXCEPT ![conn[e]] = "dialed"]
  /\ dials' = [dials EXCEPT ![AddrOf[e]] = @ + 1]
  /\ pc' = [pc EXCEPT ![e] = "publish"]
  /\ UNCHANGED <<cached, used, addr, kdone, dialOnce, dialer, declared, cdone, cacheClosed, lock, conn, tries, avail, cpc, cwork, kills, replaced, kregs>>

Publish(e) ==            \* c.conn = conn (under connM); with the fix, re-check done and close the conn ourselves
  /\ pc[e] = "publish"
  /\ LET k == conn[e] IN
     kconn' = [kconn EXCEPT ![k] = IF FixDial /\ kdone[k] THEN "closed" ELSE "open"]
  /\ pc' = [pc EXCEPT ![e] = "hello"]
  /\ UNCHANGED <<cached, used, addr, kdone, dialOnce, dialer, dials, declared, cdone, cacheClosed, lock, conn, tries, avail, cpc, cwork, kills, replaced, kregs>>

Hello(e) ==              \* hello written, goroutines started: the Once body ends
  /\ pc[e] = "hello"
  /\ dialOnce' = [dialOnce EXCEPT ![conn[e]] = "yes"] /\ dialer' = [dialer EXCEPT ![conn[e]] = "-"]
  /\ pc' = [pc EXCEPT ![e] = "dialed"]
  /\ UNCHANGED <<cached, used, addr, kdone, kconn, dials, declared, cdone, cacheClosed, lock, conn, tries, avail, cpc, cwork, kills, replaced, kregs>>

(* after Dial: ErrClientClosed if done, else probe the region *)
AfterDial(e) ==
  /\ pc[e] = "dialed"
  /\ pc' = [pc EXCEPT ![e] = IF kdone[conn[e]] THEN "down" ELSE "probe"]
  /\ UNCHANGED <<cached, used, addr, kdone, kconn, dialOnce, dialer, dials, declared, cdone, cacheClosed, lock, conn, tries, avail,
                 cpc, cwork, kills, replaced, kregs>>

Probe(e) ==              \* the probe succeeds on a live connection, fails with a connection error on a dead one
  /\ pc[e] = "probe"
  /\ IF kdone[conn[e]] \/ kconn[conn[e]] # "open"
     THEN pc' = [pc EXCEPT ![e] = "down"] /\ UNCHANGED avail
     ELSE pc' = [pc EXCEPT ![e] = "end"] /\ avail' = [avail EXCEPT ![e] = TRUE]    \* SetClient; MarkAvailable
  /\ UNCHANGED <<cached, used, addr, kdone, kconn, dialOnce, dialer, dials, declared, cdone, cacheClosed, lock, conn, tries, cpc,
                 cwork, kills, replaced, kregs>>

(* clientDown: take the connection out of the cache (under the lock); then look the region up again *)
Down(e) ==
  /\ pc[e] = "down" /\ lock = "-"
  /\ cached' = cached \ {conn[e]}
  /\ declared' = [declared EXCEPT ![AddrOf[e]] = @ + 1]
  /\ pc' = [pc EXCEPT ![e] = "relookup"]
  /\ kregs' = [kregs EXCEPT ![conn[e]] = {}]
  /\ UNCHANGED <<used, addr, kdone, kconn, dialOnce, dialer, dials, cdone, cacheClosed, lock, conn, tries, avail, cpc, cwork, kills, replaced>>

Relookup(e) ==           \* lookupRegion -> ErrClientClosed once the client is closed; else the same address again
  /\ pc[e] = "relookup"
  /\ IF cdone \/ tries[e] >= MaxTries
     THEN pc' = [pc EXCEPT ![e] = "end"] /\ UNCHANGED tries
     ELSE pc' = [pc EXCEPT ![e] = "put"] /\ tries' = [tries EXCEPT ![e] = @ + 1]
  /\ UNCHANGED <<cached, used, addr, kdone, kconn, dialOnce, dialer, dials, declared, cdone, cacheClosed, lock, conn, avail, cpc,
                 cwork, kills, replaced, kregs>>

(* An established region is replaced (split, merged, moved): the request that notices is answered "not serving" over the  *)
(* healthy connection, the region is located again and clients.del(old region) runs under the cache lock. Its successor   *)
(* either lives at the same address (the establisher of this model goes round again) or somewhere this model does not      *)
(* follow.                                                                                                                 *)
Replaced(e) ==
  /\ pc[e] = "end" /\ avail[e] /\ replaced < MaxReplace /\ lock = "-" /\ ~cdone
  /\ replaced' = replaced + 1
  /\ LET k == conn[e]
         left == kregs[k] \ {e} IN
     /\ kregs' = [kregs EXCEPT ![k] = left]
     /\ cached' = IF DelDropsEmpty /\ left = {} THEN cached \ {k} ELSE cached
  /\ avail' = [avail EXCEPT ![e] = FALSE]
  /\ \/ pc' = [pc EXCEPT ![e] = "put"]
     \/ pc' = pc
  /\ UNCHANGED <<used, addr, kdone, kconn, dialOnce, dialer, dials, declared, cdone, cacheClosed, lock, conn, tries, cpc, cwork, kills>>

(* region.client.fail(): close(done); close the conn if one is published *)
FailConn(k) ==
  /\ kdone' = [kdone EXCEPT ![k] = TRUE]
  /\ kconn' = [kconn EXCEPT ![k] = IF kconn[k] = "open" THEN "closed" ELSE kconn[k]]

Kill ==                  \* the network kills an open connection: its reader runs fail()
  /\ kills < MaxKills
  /\ \E k \in used : kconn[k] = "open" /\ ~kdone[k] /\ FailConn(k)
  /\ kills' = kills + 1
  /\ UNCHANGED <<cached, used, addr, dialOnce, dialer, dials, declared, cdone, cacheClosed, lock, pc, conn, tries, avail, cpc, cwork, replaced, kregs>>

(* Close() *)
CloseStart ==
  /\ AllowClose /\ cpc = <<"idle", 0>> /\ cdone' = TRUE /\ cpc' = <<"lock", 0>>
  /\ UNCHANGED <<cached, used, addr, kdone, kconn, dialOnce, dialer, dials, declared, cacheClosed, lock, pc, conn, tries, avail, cwork, kills, replaced, kregs>>
CloseLock ==
  /\ cpc = <<"lock", 0>> /\ lock = "-" /\ lock' = "closer"
  /\ cwork' = (IF CloseOnlyWithRegions THEN {k \in cached : kregs[k] # {}} ELSE cached) /\ cacheClosed' = TRUE /\ cpc' = <<"closing", 0>>
  /\ UNCHANGED <<cached, used, addr, kdone, kconn, dialOnce, dialer, dials, declared, cdone, pc, conn, tries, avail, kills, replaced, kregs>>
CloseOne ==              \* client.Close() for one cached connection: close(done) ...
  /\ cpc = <<"closing", 0>> /\ cwork # {}
  /\ LET k == CHOOSE k \in cwork : TRUE IN
     /\ kdone' = [kdone EXCEPT ![k] = TRUE] /\ cpc' = <<"closeconn", k>>
  /\ UNCHANGED <<cached, used, addr, kconn, dialOnce, dialer, dials, declared, cdone, cacheClosed, lock, pc, conn, tries, avail, cwork, kills, replaced, kregs>>
CloseConn ==             \* ... then close the conn it can see
  /\ cpc[1] = "closeconn"
  /\ LET k == cpc[2] IN
     /\ kconn' = [kconn EXCEPT ![k] = IF kconn[k] = "open" THEN "closed" ELSE kconn[k]]
     /\ cwork' = cwork \ {k}
  /\ cpc' = <<"closing", 0>>
  /\ UNCHANGED <<cached, used, addr, kdone, dialOnce, dialer, dials, declared, cdone, cacheClosed, lock, pc, conn, tries, avail, kills, replaced, kregs>>
CloseEnd ==
  /\ cpc = <<"closing", 0>> /\ cwork = {} /\ lock' = "-" /\ cpc' = <<"closed", 0>>
  /\ UNCHANGED <<cached, used, addr, kdone, kconn, dialOnce, dialer, dials, declared, cdone, cacheClosed, pc, conn, tries, avail, cwork, kills, replaced, kregs>>

Next == \/ \E e \in Ests : Put(e) \/ DialEnter(e) \/ DialerReturns(e) \/ Publish(e) \/ Hello(e) \/ AfterDial(e) \/ Probe(e)
                            \/ Down(e) \/ Relookup(e) \/ Replaced(e)
        \/ Kill \/ CloseStart \/ CloseLock \/ CloseOne \/ CloseConn \/ CloseEnd
Spec == Init /\ [][Next]_vars

----------------------------------------------------------------------------
(* C20 *)
OneCachedPerAddr == \A k1, k2 \in cached : addr[k1] = addr[k2] => k1 = k2
DialsBounded == \A a \in Addrs : dials[a] <= 1 + declared[a]
(* C19: once Close has returned and every establisher has finished, nothing is left open *)
AllQuiet == cpc = <<"closed", 0>> /\ \A e \in Ests : pc[e] = "end"
ClosedIsTerminal == AllQuiet => \A k \in used : kconn[k] \notin {"open", "dialed"}
=============================================================================
