------------------------- MODULE Trace_ScanContract -------------------------
(* Contract-only validation of a scan (C06 / C14): what Next() returned,    *)
(* against the sorted, range-filtered table - independent of how the client *)
(* chose to talk to the servers.  Used when an execution departs from the   *)
(* implementation-shaped Scanner.tla (a refactored but correct client must  *)
(* not raise an alarm): the verdict is decided here.                        *)
EXTENDS RegionName, SequencesExt, TLC, Json
T == ndJsonDeserialize("scan_trace.ndjson")
VARIABLES i, cfg, outs, disturbed, endOpen, deadReq
vars == <<i, cfg, outs, disturbed, endOpen, deadReq>>
Dummy == [rows |-> <<>>, start |-> <<>>, stop |-> <<>>, reversed |-> FALSE, partial |-> FALSE]
Init == i = 1 /\ cfg = Dummy /\ outs = <<>> /\ disturbed = FALSE /\ endOpen = <<>> /\ deadReq = FALSE
Next ==
  /\ i <= Len(T) /\ i' = i + 1
  \* a continuation request (not a close, not a lease renewal) for a region scanner the server does not have (any more): the
  \* servers of these scenarios never drop a scanner by themselves, so the client went on with a scanner that the server had
  \* exhausted, closed on request or closed with its "no more results"
  /\ deadReq' = (IF T[i].ev = "scanStart" THEN FALSE ELSE deadReq \/ T[i].ev = "scanUnknown")
  /\ LET e == T[i] IN
     CASE e.ev = "scanStart" -> /\ cfg' = [rows |-> e.rows, start |-> e.start, stop |-> e.stop, reversed |-> e.reversed, partial |-> e.partial]
                                /\ outs' = <<>> /\ disturbed' = FALSE /\ endOpen' = <<>>
       [] e.ev = "next" -> outs' = Append(outs, e) /\ UNCHANGED <<cfg, disturbed, endOpen>>
       [] e.ev \in {"cancel", "userClose", "scanExc"} -> disturbed' = TRUE /\ UNCHANGED <<cfg, outs, endOpen>>
       [] e.ev = "scanResp" -> disturbed' = (disturbed \/ e.noMoreResults) /\ UNCHANGED <<cfg, outs, endOpen>>
       [] e.ev = "scanEnd" -> endOpen' = <<e.open>> /\ UNCHANGED <<cfg, outs, disturbed>>
       [] OTHER -> UNCHANGED <<cfg, outs, disturbed, endOpen>>
Spec == Init /\ [][Next]_vars

InRangeRow(k) == IF ~cfg.reversed
                 THEN (cfg.start = <<>> \/ Lex(k, cfg.start) >= 0) /\ (cfg.stop = <<>> \/ Lex(k, cfg.stop) < 0)
                 ELSE (cfg.start = <<>> \/ Lex(k, cfg.start) <= 0) /\ (cfg.stop = <<>> \/ Lex(k, cfg.stop) > 0)
Expected == LET asc == SelectSeq(cfg.rows, LAMBDA r : InRangeRow(r.key)) IN IF cfg.reversed THEN Reverse(asc) ELSE asc
RowsOut == SelectSeq(outs, LAMBDA o : o.kind = "row")
RECURSIVE Merge(_)
Merge(s) == IF s = <<>> THEN <<>>
            ELSE LET rest == Merge(Tail(s)) IN
                 IF rest # <<>> /\ rest[1].row = Head(s).row THEN <<[row |-> Head(s).row, n |-> Head(s).n + rest[1].n]>> \o Tail(rest)
                 ELSE <<[row |-> Head(s).row, n |-> Head(s).n]>> \o rest
Ended == \E j \in 1..Len(outs) : outs[j].kind # "row"
RowsOK ==
  LET m == IF cfg.partial THEN Merge(RowsOut) ELSE [j \in 1..Len(RowsOut) |-> [row |-> RowsOut[j].row, n |-> RowsOut[j].n]] IN
    /\ Len(m) <= Len(Expected)
    /\ \A j \in 1..Len(m) : /\ m[j].row = Expected[j].key
                            /\ (m[j].n = Expected[j].n \/ (j = Len(m) /\ (disturbed \/ (cfg.partial /\ ~Ended))))
    /\ (Ended /\ ~disturbed) => Len(m) = Len(Expected)
ErrorOnceThenEOF == \A j \in 1..Len(outs) : outs[j].kind # "row" => \A k \in (j + 1)..Len(outs) : outs[k].kind = "eof"
NothingLeftOpen == endOpen # <<>> => endOpen[1] = <<>>
NoRequestOnADeadScanner == ~deadReq
Accepted == TLCGet("stats").diameter = Len(T) + 1
=============================================================================
