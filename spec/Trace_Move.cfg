SPECIFICATION TSpec
CONSTANTS
  Servers = {"rs1:16020", "rs2:16020", "rs3:16020"}
  Subs = {1, 2}
  MaxMoves = 99
  MaxCalls = 99
  KeepAttached = FALSE
INVARIANTS Located EstablisherOnlyWhileUnavailable
POSTCONDITION Accepted
CHECK_DEADLOCK FALSE
