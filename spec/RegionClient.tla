---------------------------- MODULE RegionClient ----------------------------
(* One connection to a regionserver: region/client.go + region/multi.go.    *)
(*                                                                          *)
(* Goroutines are processes with a pc; every mutex-protected section, every *)
(* channel operation and every call on the net.Conn is one action.          *)
(*                                                                          *)
(*   sender(u)    QueueRPC of an unbatched call in the caller's goroutine:  *)
(*                done/ctx check, send = register, [arm], write, [arm];     *)
(*                error path = fail, unregister, deliver-if-unregistered    *)
(*   submitter(s) QueueBatch: select {ctx, done -> errors, hand-off}        *)
(*   batcher      processRPCs: collect, flush = trySend(multi), exit        *)
(*   reader       receiveRPCs/receive: read, unregister, inFlightDown,      *)
(*                ctx check, deliver                                        *)
(*   closer       Close() = fail(ErrClientClosed)                           *)
(*   fail         sync.Once: close(done); conn.Close; swap sent + deliver   *)
(*   env          server answers in any order or not at all; the network    *)
(*                fails a write or resets the connection; contexts end;     *)
(*                the read deadline expires                                 *)
(*                                                                          *)
(* Items travelling on the wire are unbatched calls (strings) and multis    *)
(* (strings "m1", "m2", ...).  Calls, senders and submitters are strings.              *)
EXTENDS Integers, Sequences, FiniteSets, TLC

CONSTANTS
  UCalls,        \* set of unbatched calls
  Subs,          \* set of submitters
  BatchOf,       \* [Subs -> sequence of calls]: what each submitter hands over
  HasCB,         \* unbatched calls that carry a cellblock (written as 2 buffers)
  QueueSize,     \* rpcQueueSize
  FlushZero,     \* flushInterval = 0
  ArmFirst,      \* TRUE: read deadline armed before the write; FALSE: after it (as the code does)
  SignedArm,     \* TRUE: the counter is signed and inFlightUp arms the deadline only when it is positive afterwards
  AtomicWrites,  \* TRUE: net.Buffers.WriteTo is one atomic gather write (kernel socket)
  WriteLock,     \* TRUE: frames are written under a writer lock
  AtomicDown,    \* TRUE: inFlightDown decrements AND clears the deadline under the mutex (FALSE: clears it after unlocking)
  CompleteOnDownError, \* TRUE: receive completes the call when inFlightDown fails (FALSE: the pinned tree dropped it)
  CloseBeforeSwap, \* TRUE: fail() closes the socket BEFORE it swaps the sent map and completes what was in it (FALSE: after)
  MultiNames,    \* sequence of names for the multis that may be flushed, e.g. <<"m1", "m2">>
  MaxFaults, MaxCancels, AllowClose, AllowReorder

BCalls == UNION {{BatchOf[s][i] : i \in 1..Len(BatchOf[s])} : s \in Subs}
Calls == UCalls \cup BCalls
MaxMulti == Len(MultiNames)
Multis == {MultiNames[i] : i \in 1..Len(MultiNames)}
Procs == UCalls \cup Subs \cup {"batcher", "reader", "closer"}

VARIABLES
  pc,        \* [Procs -> control point]
  done,      \* c.done closed
  failOnce,  \* "no" / "running" / "yes"       (sync.Once)
  failer,    \* who runs the Once body
  failpc,    \* "closeDone" / "closeConn" / "swap"
  conn,      \* "open" / "closed"              (our end)
  broken,    \* the network reset the connection
  sent,      \* registered items (c.sent)
  inFlight,  \* c.inFlight; an Int: the uint32 wrap shows as a negative number
  deadline,  \* read deadline armed?
  wlock,     \* holder of the writer lock or "none"
  offer,     \* submitters blocked in `c.rpcs <- rpcs'
  cur,       \* the multi being accumulated: sequence of calls
  nmulti,    \* multis flushed so far
  multis,    \* [Multis -> [calls, holes]]: contents of flushed multis
  wire,      \* client -> server: sequence of pieces [item, part, parts]
  inbox,     \* server -> client: sequence of response frames (items)
  responded, \* items the server answered
  results,   \* [Calls -> sequence of "ok"/"err"/"closed"]: what was put on each result channel
  accepted,  \* calls this connection took responsibility for
  ctxDone,   \* [Calls \cup Subs -> BOOLEAN]  (a submitter's ctx is the batch ctx)
  armed,     \* items that went through inFlightUp
  answered,  \* items whose response the reader consumed
  failed,    \* items whose send took the error path
  timedOut,  \* the reader saw a timeout
  refusedLate, \* calls refused although the connection was still healthy (never)
  faults, cancels

vars == <<pc, done, failOnce, failer, failpc, conn, broken, sent, inFlight, deadline, wlock, offer, cur,
          nmulti, multis, wire, inbox, responded, results, accepted, ctxDone, armed, answered, failed,
          timedOut, refusedLate, faults, cancels>>

NoMulti == [calls |-> <<>>, holes |-> {}]

Init ==
  /\ pc = [p \in Procs |-> IF p = "batcher" THEN <<"idle">> ELSE IF p = "reader" THEN <<"loop">> ELSE <<"start">>]
  /\ done = FALSE /\ failOnce = "no" /\ failer = "none" /\ failpc = "closeDone"
  /\ conn = "open" /\ broken = FALSE
  /\ sent = {} /\ inFlight = 0 /\ deadline = FALSE /\ wlock = "none"
  /\ offer = {} /\ cur = <<>> /\ nmulti = 0 /\ multis = [k \in Multis |-> NoMulti]
  /\ wire = <<>> /\ inbox = <<>> /\ responded = {}
  /\ results = [c \in Calls |-> <<>>] /\ accepted = {}
  /\ ctxDone = [c \in Calls \cup Subs |-> FALSE]
  /\ armed = {} /\ answered = {} /\ failed = {} /\ timedOut = FALSE /\ refusedLate = {}
  /\ faults = 0 /\ cancels = 0

SetPc(p, v) == pc' = [pc EXCEPT ![p] = v]
IsMulti(it) == it \in Multis
CallsOf(it) == IF IsMulti(it) THEN {multis[it].calls[i] : i \in {j \in 1..Len(multis[it].calls) : j \notin multis[it].holes}}
               ELSE {it}
Parts(it) == IF AtomicWrites THEN 1 ELSE IF IsMulti(it) \/ it \in HasCB THEN 2 ELSE 1
Deliver(cs, kind) == results' = [c \in Calls |-> IF c \in cs THEN Append(results[c], kind) ELSE results[c]]
SeqToSet(s) == {s[i] : i \in 1..Len(s)}

----------------------------------------------------------------------------
(* fail(): sync.Once.  A caller either becomes the failer, or waits while   *)
(* another one runs, or passes when it already ran.                         *)
FailCall(p, cont) ==
  \/ /\ failOnce = "no"
     /\ failOnce' = "running" /\ failer' = p /\ failpc' = "closeDone"
     /\ SetPc(p, <<"infail", cont>>)
     /\ UNCHANGED <<done, conn, broken, sent, inFlight, deadline, wlock, offer, cur, nmulti, multis, wire, inbox,
                    responded, results, accepted, ctxDone, armed, answered, failed, timedOut, refusedLate, faults, cancels>>
  \/ /\ failOnce = "yes"
     /\ SetPc(p, cont)
     /\ UNCHANGED <<done, failOnce, failer, failpc, conn, broken, sent, inFlight, deadline, wlock, offer, cur, nmulti,
                    multis, wire, inbox, responded, results, accepted, ctxDone, armed, answered, failed, timedOut,
                    refusedLate, faults, cancels>>

FailStep(p) ==
  /\ pc[p][1] = "infail" /\ failer = p
  /\ \/ /\ failpc = "closeDone" /\ done' = TRUE /\ failpc' = (IF CloseBeforeSwap THEN "closeConn" ELSE "swap")
        /\ UNCHANGED <<pc, failOnce, failer, conn, sent, results>>
     \/ /\ failpc = "closeConn" /\ conn' = "closed"
        /\ IF CloseBeforeSwap
           THEN failpc' = "swap" /\ UNCHANGED <<pc, failOnce, failer>>
           ELSE failOnce' = "yes" /\ failer' = "none" /\ failpc' = "closeDone" /\ SetPc(p, pc[p][2])
        /\ UNCHANGED <<done, sent, results>>
     \/ /\ failpc = "swap"       \* failSentRPCs: swap the map, then complete everything that was in it
        /\ sent' = {}
        /\ Deliver(UNION {CallsOf(it) : it \in sent}, "closed")
        /\ IF CloseBeforeSwap
           THEN failOnce' = "yes" /\ failer' = "none" /\ failpc' = "closeDone" /\ SetPc(p, pc[p][2])
           ELSE failpc' = "closeConn" /\ UNCHANGED <<pc, failOnce, failer>>   \* a sender admitted earlier may still register and write
        /\ UNCHANGED <<done, conn>>
  /\ UNCHANGED <<broken, inFlight, deadline, wlock, offer, cur, nmulti, multis, wire, inbox, responded, accepted,
                 ctxDone, armed, answered, failed, timedOut, refusedLate, faults, cancels>>

----------------------------------------------------------------------------
(* send(item) on behalf of process p (a sender, or the batcher for a multi) *)
(* control points: reg -> [arm ->] w1 -> [w2 ->] [arm ->] ok | sfail        *)

Register(p, it) ==
  /\ pc[p] = <<"reg", it>>
  /\ sent' = sent \cup {it}
  /\ SetPc(p, IF ArmFirst THEN <<"arm", it>> ELSE <<"lock", it>>)
  /\ UNCHANGED <<done, failOnce, failer, failpc, conn, broken, inFlight, deadline, wlock, offer, cur, nmulti, multis,
                 wire, inbox, responded, results, accepted, ctxDone, armed, answered, failed, timedOut, refusedLate,
                 faults, cancels>>

(* inFlightUp: counter and SetReadDeadline under one mutex *)
Arm(p, it) ==
  /\ pc[p] = <<"arm", it>>
  /\ inFlight' = inFlight + 1
  /\ armed' = armed \cup {it}
  /\ IF conn = "closed"
     THEN /\ SetPc(p, <<"sfail", it>>) /\ failed' = failed \cup {it} /\ UNCHANGED deadline   \* SetReadDeadline fails
     ELSE /\ deadline' = (IF SignedArm /\ inFlight + 1 <= 0 THEN deadline ELSE TRUE) /\ UNCHANGED failed
          /\ SetPc(p, IF ArmFirst THEN <<"lock", it>> ELSE <<"sent", it>>)
  /\ UNCHANGED <<done, failOnce, failer, failpc, conn, broken, sent, wlock, offer, cur, nmulti, multis, wire, inbox,
                 responded, results, accepted, ctxDone, answered, timedOut, refusedLate, faults, cancels>>

Lock(p, it) ==
  /\ pc[p] = <<"lock", it>>
  /\ IF WriteLock THEN wlock = "none" /\ wlock' = p ELSE UNCHANGED wlock
  /\ SetPc(p, <<"w", it, 1>>)
  /\ UNCHANGED <<done, failOnce, failer, failpc, conn, broken, sent, inFlight, deadline, offer, cur, nmulti, multis,
                 wire, inbox, responded, results, accepted, ctxDone, armed, answered, failed, timedOut, refusedLate,
                 faults, cancels>>

AfterWrite(it) == IF ArmFirst THEN <<"sent", it>> ELSE <<"arm", it>>

(* one conn.Write: a whole frame, or one buffer of it *)
Write(p, it) ==
  /\ pc[p][1] = "w" /\ pc[p][2] = it
  /\ LET k == pc[p][3] IN
     \/ /\ conn = "open" /\ ~broken                      \* the write succeeds
        /\ wire' = Append(wire, [item |-> it, part |-> k, parts |-> Parts(it)])
        /\ IF k < Parts(it)
           THEN SetPc(p, <<"w", it, k + 1>>) /\ UNCHANGED wlock
           ELSE SetPc(p, AfterWrite(it)) /\ wlock' = (IF WriteLock THEN "none" ELSE wlock)
        /\ UNCHANGED <<failed, faults, broken>>
     \/ /\ (conn = "closed" \/ broken)                   \* write on a dead connection fails
        /\ SetPc(p, <<"sfail", it>>) /\ failed' = failed \cup {it}
        /\ wlock' = (IF WriteLock THEN "none" ELSE wlock)
        /\ UNCHANGED <<wire, faults, broken>>
     \/ /\ conn = "open" /\ ~broken /\ faults < MaxFaults   \* injected: this write fails, the connection is gone
        /\ faults' = faults + 1 /\ broken' = TRUE
        /\ SetPc(p, <<"sfail", it>>) /\ failed' = failed \cup {it}
        /\ wlock' = (IF WriteLock THEN "none" ELSE wlock)
        /\ UNCHANGED wire
  /\ UNCHANGED <<done, failOnce, failer, failpc, conn, sent, inFlight, deadline, offer, cur, nmulti, multis, inbox,
                 responded, results, accepted, ctxDone, armed, answered, timedOut, refusedLate, cancels>>

(* trySend's error path: fail(err) [ServerError], then unregister; the one  *)
(* who removes the item from `sent' completes it                            *)
SendFailed(p, it) == pc[p] = <<"sfail", it>> /\ FailCall(p, <<"unreg", it>>)

Unregister(p, it, cont) ==
  /\ pc[p] = <<"unreg", it>>
  /\ sent' = sent \ {it}
  /\ IF it \in sent THEN Deliver(CallsOf(it), "err") ELSE UNCHANGED results
  /\ SetPc(p, cont)
  /\ UNCHANGED <<done, failOnce, failer, failpc, conn, broken, inFlight, deadline, wlock, offer, cur, nmulti, multis,
                 wire, inbox, responded, accepted, ctxDone, armed, answered, failed, timedOut, refusedLate, faults, cancels>>

----------------------------------------------------------------------------
(* QueueRPC for an unbatched call u *)
SenderStart(u) ==
  /\ pc[u] = <<"start">>
  /\ \/ /\ done                                   \* refused at once
        /\ Deliver({u}, "closed") /\ SetPc(u, <<"fin">>) /\ UNCHANGED accepted
     \/ /\ ctxDone[u] /\ SetPc(u, <<"fin">>) /\ UNCHANGED <<results, accepted>>
     \/ /\ ~done /\ ~ctxDone[u]
        /\ accepted' = accepted \cup {u}
        /\ SetPc(u, <<"reg", u>>) /\ UNCHANGED results
  /\ UNCHANGED <<done, failOnce, failer, failpc, conn, broken, sent, inFlight, deadline, wlock, offer, cur, nmulti, multis,
                 wire, inbox, responded, ctxDone, armed, answered, failed, timedOut, refusedLate, faults, cancels>>

SenderSent(u) ==
  /\ pc[u] = <<"sent", u>> /\ SetPc(u, <<"fin">>)
  /\ UNCHANGED <<done, failOnce, failer, failpc, conn, broken, sent, inFlight, deadline, wlock, offer, cur, nmulti, multis,
                 wire, inbox, responded, results, accepted, ctxDone, armed, answered, failed, timedOut, refusedLate,
                 faults, cancels>>

Sender(u) == \/ SenderStart(u) \/ Register(u, u) \/ Arm(u, u) \/ Lock(u, u) \/ Write(u, u) \/ SenderSent(u)
             \/ SendFailed(u, u) \/ Unregister(u, u, <<"fin">>) \/ FailStep(u)

----------------------------------------------------------------------------
(* QueueBatch: one select over {ctx.Done, c.done, c.rpcs <- rpcs} *)
SubStart(s) ==
  /\ pc[s] = <<"start">>
  /\ \/ /\ ctxDone[s] /\ SetPc(s, <<"fin">>) /\ UNCHANGED <<results, offer>>
     \/ /\ done /\ Deliver(SeqToSet(BatchOf[s]), "closed") /\ SetPc(s, <<"fin">>) /\ UNCHANGED offer
     \/ /\ offer' = offer \cup {s} /\ SetPc(s, <<"offer">>) /\ UNCHANGED results
  /\ UNCHANGED <<done, failOnce, failer, failpc, conn, broken, sent, inFlight, deadline, wlock, cur, nmulti, multis, wire,
                 inbox, responded, accepted, ctxDone, armed, answered, failed, timedOut, refusedLate, faults, cancels>>

SubGiveUp(s) ==   \* still blocked in the select: the other two cases stay enabled
  /\ pc[s] = <<"offer">>
  /\ \/ /\ ctxDone[s] /\ UNCHANGED results
     \/ /\ done /\ Deliver(SeqToSet(BatchOf[s]), "closed")
  /\ offer' = offer \ {s} /\ SetPc(s, <<"fin">>)
  /\ UNCHANGED <<done, failOnce, failer, failpc, conn, broken, sent, inFlight, deadline, wlock, cur, nmulti, multis, wire,
                 inbox, responded, accepted, ctxDone, armed, answered, failed, timedOut, refusedLate, faults, cancels>>

----------------------------------------------------------------------------
(* processRPCs *)
B == "batcher"
Full == Len(cur) >= QueueSize

(* receive from c.rpcs: rendezvous with a blocked submitter *)
BatcherTake(s) ==
  /\ pc[B] \in {<<"idle">>, <<"collect">>, <<"timed">>}
  /\ (pc[B] = <<"collect">> => ~Full)
  /\ s \in offer
  /\ offer' = offer \ {s}
  /\ cur' = cur \o BatchOf[s]
  /\ accepted' = accepted \cup SeqToSet(BatchOf[s])
  /\ pc' = [pc EXCEPT ![s] = <<"fin">>,
                      ![B] = IF pc[B] = <<"timed">> /\ Len(cur \o BatchOf[s]) >= QueueSize THEN <<"flush">> ELSE
                             IF pc[B] = <<"timed">> THEN <<"timed">> ELSE <<"collect">>]
  /\ UNCHANGED <<done, failOnce, failer, failpc, conn, broken, sent, inFlight, deadline, wlock, nmulti, multis, wire, inbox,
                 responded, results, ctxDone, armed, answered, failed, timedOut, refusedLate, faults, cancels>>

(* the non-blocking drain found nothing more: decide *)
BatcherDecide ==
  /\ pc[B] = <<"collect">> /\ (offer = {} \/ Full)
  /\ SetPc(B, IF Len(cur) = 0 THEN <<"idle">> ELSE IF Full \/ FlushZero THEN <<"flush">> ELSE <<"timed">>)
  /\ UNCHANGED <<done, failOnce, failer, failpc, conn, broken, sent, inFlight, deadline, wlock, offer, cur, nmulti, multis,
                 wire, inbox, responded, results, accepted, ctxDone, armed, answered, failed, timedOut, refusedLate,
                 faults, cancels>>

BatcherTimer ==
  /\ pc[B] = <<"timed">> /\ SetPc(B, <<"flush">>)
  /\ UNCHANGED <<done, failOnce, failer, failpc, conn, broken, sent, inFlight, deadline, wlock, offer, cur, nmulti, multis,
                 wire, inbox, responded, results, accepted, ctxDone, armed, answered, failed, timedOut, refusedLate,
                 faults, cancels>>

(* flush: serialise (calls whose context ended are dropped and leave a hole), then trySend(multi) *)
BatcherFlush ==
  /\ pc[B] = <<"flush">> /\ nmulti < MaxMulti
  /\ nmulti' = nmulti + 1
  /\ multis' = [multis EXCEPT ![MultiNames[nmulti + 1]] = [calls |-> cur, holes |-> {i \in 1..Len(cur) : ctxDone[cur[i]]}]]
  /\ cur' = <<>>
  /\ SetPc(B, <<"reg", MultiNames[nmulti + 1]>>)
  /\ UNCHANGED <<done, failOnce, failer, failpc, conn, broken, sent, inFlight, deadline, wlock, offer, wire, inbox,
                 responded, results, accepted, ctxDone, armed, answered, failed, timedOut, refusedLate, faults, cancels>>

BatcherSent ==
  /\ pc[B][1] = "sent" /\ SetPc(B, <<"collect">>)
  /\ UNCHANGED <<done, failOnce, failer, failpc, conn, broken, sent, inFlight, deadline, wlock, offer, cur, nmulti, multis,
                 wire, inbox, responded, results, accepted, ctxDone, armed, answered, failed, timedOut, refusedLate,
                 faults, cancels>>

(* `case <-c.done: return' in any of the three selects; the deferred        *)
(* returnResults completes what was collected but not flushed               *)
BatcherExit ==
  /\ pc[B] \in {<<"idle">>, <<"collect">>, <<"timed">>} /\ done
  /\ Deliver(SeqToSet(cur), "closed") /\ cur' = <<>>
  /\ SetPc(B, <<"fin">>)
  /\ UNCHANGED <<done, failOnce, failer, failpc, conn, broken, sent, inFlight, deadline, wlock, offer, nmulti, multis, wire,
                 inbox, responded, accepted, ctxDone, armed, answered, failed, timedOut, refusedLate, faults, cancels>>

Batcher == \/ \E s \in Subs : BatcherTake(s)
           \/ BatcherDecide \/ BatcherTimer \/ BatcherFlush \/ BatcherSent \/ BatcherExit
           \/ \E k \in Multis : \/ Register(B, k) \/ Arm(B, k) \/ Lock(B, k) \/ Write(B, k) \/ SendFailed(B, k)
                                \/ Unregister(B, k, <<"collect">>)
           \/ FailStep(B)

----------------------------------------------------------------------------
(* the server and the network *)
Complete(it) == \E i \in 1..Len(wire) : wire[i].item = it /\ wire[i].part = wire[i].parts
CompletedAt(it) == CHOOSE i \in 1..Len(wire) : wire[i].item = it /\ wire[i].part = wire[i].parts
ServerRespond(it) ==
  /\ Complete(it) /\ it \notin responded /\ ~broken
  /\ AllowReorder \/ \A o \in (UCalls \cup Multis) : (Complete(o) /\ o \notin responded /\ o # it) => CompletedAt(it) < CompletedAt(o)
  /\ responded' = responded \cup {it}
  /\ inbox' = Append(inbox, it)
  /\ UNCHANGED <<pc, done, failOnce, failer, failpc, conn, broken, sent, inFlight, deadline, wlock, offer, cur, nmulti,
                 multis, wire, results, accepted, ctxDone, armed, answered, failed, timedOut, refusedLate, faults, cancels>>

NetReset ==
  /\ ~broken /\ faults < MaxFaults
  /\ broken' = TRUE /\ faults' = faults + 1
  /\ UNCHANGED <<pc, done, failOnce, failer, failpc, conn, sent, inFlight, deadline, wlock, offer, cur, nmulti, multis, wire,
                 inbox, responded, results, accepted, ctxDone, armed, answered, failed, timedOut, refusedLate, cancels>>

Cancel(x) ==
  /\ cancels < MaxCancels /\ ~ctxDone[x]
  /\ ctxDone' = [ctxDone EXCEPT ![x] = TRUE] /\ cancels' = cancels + 1
  /\ UNCHANGED <<pc, done, failOnce, failer, failpc, conn, broken, sent, inFlight, deadline, wlock, offer, cur, nmulti,
                 multis, wire, inbox, responded, results, accepted, armed, answered, failed, timedOut, refusedLate, faults>>

----------------------------------------------------------------------------
(* receiveRPCs / receive *)
R == "reader"
ReaderLoop ==
  /\ pc[R] = <<"loop">>
  /\ SetPc(R, IF done THEN <<"fin">> ELSE <<"read">>)
  /\ UNCHANGED <<done, failOnce, failer, failpc, conn, broken, sent, inFlight, deadline, wlock, offer, cur, nmulti, multis,
                 wire, inbox, responded, results, accepted, ctxDone, armed, answered, failed, timedOut, refusedLate,
                 faults, cancels>>

ReaderRead ==
  /\ pc[R] = <<"read">>
  /\ \/ /\ conn = "open" /\ inbox # <<>>            \* a whole frame
        /\ inbox' = Tail(inbox) /\ SetPc(R, <<"unreg", Head(inbox)>>) /\ UNCHANGED timedOut
     \/ /\ (conn = "closed" \/ (broken /\ inbox = <<>>))   \* EOF / reset / closed
        /\ SetPc(R, <<"rfail">>) /\ UNCHANGED <<inbox, timedOut>>
     \/ /\ conn = "open" /\ ~broken /\ inbox = <<>> /\ deadline    \* the read deadline passes
        /\ timedOut' = TRUE /\ SetPc(R, <<"rfail">>) /\ UNCHANGED inbox
  /\ UNCHANGED <<done, failOnce, failer, failpc, conn, broken, sent, inFlight, deadline, wlock, offer, cur, nmulti, multis,
                 wire, responded, results, accepted, ctxDone, armed, answered, failed, refusedLate, faults, cancels>>

ReaderFail == pc[R] = <<"rfail">> /\ FailCall(R, <<"fin">>)

ReaderUnregister ==
  /\ pc[R][1] = "unreg"
  /\ LET it == pc[R][2] IN
     IF it \in sent
     THEN /\ sent' = sent \ {it} /\ answered' = answered \cup {it} /\ SetPc(R, <<"down", it>>)
     ELSE /\ SetPc(R, <<"rfail">>) /\ UNCHANGED <<sent, answered>>      \* unexpected call id: ServerError
  /\ UNCHANGED <<done, failOnce, failer, failpc, conn, broken, inFlight, deadline, wlock, offer, cur, nmulti, multis, wire,
                 inbox, responded, results, accepted, ctxDone, armed, failed, timedOut, refusedLate, faults, cancels>>

(* inFlightDown *)
ReaderDown ==
  /\ pc[R][1] = "down"
  /\ inFlight' = inFlight - 1
  /\ IF inFlight - 1 = 0
     THEN IF ~AtomicDown
          THEN SetPc(R, <<"down2", pc[R][2]>>) /\ UNCHANGED <<deadline, results>>   \* the mutex is released before the deadline is cleared
          ELSE IF conn = "closed"      \* SetReadDeadline fails: the reader holds the call, so it completes it (with the error)
          THEN /\ SetPc(R, <<"rfail">>) /\ UNCHANGED deadline
               /\ (IF CompleteOnDownError THEN Deliver(CallsOf(pc[R][2]), "err") ELSE UNCHANGED results)
          ELSE deadline' = FALSE /\ SetPc(R, <<"ctx", pc[R][2]>>) /\ UNCHANGED results
     ELSE UNCHANGED <<deadline, results>> /\ SetPc(R, <<"ctx", pc[R][2]>>)
  /\ UNCHANGED <<done, failOnce, failer, failpc, conn, broken, sent, wlock, offer, cur, nmulti, multis, wire, inbox,
                 responded, accepted, ctxDone, armed, answered, failed, timedOut, refusedLate, faults, cancels>>
ReaderDown2 ==        \* only with ~AtomicDown: the deadline is cleared outside the mutex
  /\ pc[R][1] = "down2"
  /\ IF conn = "closed"
     THEN /\ SetPc(R, <<"rfail">>) /\ UNCHANGED deadline
          /\ (IF CompleteOnDownError THEN Deliver(CallsOf(pc[R][2]), "err") ELSE UNCHANGED results)
     ELSE deadline' = FALSE /\ SetPc(R, <<"ctx", pc[R][2]>>) /\ UNCHANGED results
  /\ UNCHANGED <<done, failOnce, failer, failpc, conn, broken, sent, inFlight, wlock, offer, cur, nmulti, multis, wire, inbox,
                 responded, accepted, ctxDone, armed, answered, failed, timedOut, refusedLate, faults, cancels>>

ReaderDeliver ==
  /\ pc[R][1] = "ctx"
  /\ LET it == pc[R][2] IN
     IF ~IsMulti(it) /\ ctxDone[it] THEN UNCHANGED results     \* context ended: drop the response
     ELSE Deliver(CallsOf(it), "ok")
  /\ SetPc(R, <<"loop">>)
  /\ UNCHANGED <<done, failOnce, failer, failpc, conn, broken, sent, inFlight, deadline, wlock, offer, cur, nmulti, multis,
                 wire, inbox, responded, accepted, ctxDone, armed, answered, failed, timedOut, refusedLate, faults, cancels>>

Reader == ReaderLoop \/ ReaderRead \/ ReaderFail \/ ReaderUnregister \/ ReaderDown \/ ReaderDown2 \/ ReaderDeliver \/ FailStep(R)

----------------------------------------------------------------------------
Closer == \/ (AllowClose /\ pc["closer"] = <<"start">> /\ FailCall("closer", <<"fin">>))
          \/ FailStep("closer")

Next == \/ \E u \in UCalls : Sender(u)
        \/ \E s \in Subs : SubStart(s) \/ SubGiveUp(s)
        \/ Batcher \/ Reader \/ Closer
        \/ \E it \in UCalls \cup Multis : ServerRespond(it)
        \/ NetReset
        \/ \E x \in Calls \cup Subs : Cancel(x)

Spec == Init /\ [][Next]_vars

----------------------------------------------------------------------------
(* Properties *)

TypeOK == inFlight \in -3..(Cardinality(UCalls) + MaxMulti)

(* C03 *)
AtMostOnce == \A c \in Calls : Len(results[c]) <= 1
Finished(p) == pc[p] = <<"fin">>
ClientQuiet == /\ \A u \in UCalls : Finished(u)
               /\ \A s \in Subs : Finished(s)
               /\ Finished(B) /\ Finished(R)
ExactlyOnceWhenDown ==      \* the connection is down and everything has stopped: every accepted call was completed
  (done /\ failOnce = "yes" /\ ClientQuiet) =>
     \A c \in accepted : ctxDone[c] \/ Len(results[c]) = 1
RefusedAfterDone ==         \* a call arriving after done is refused with an error, not accepted
  \A u \in UCalls : (pc[u] = <<"fin">> /\ u \notin accepted /\ ~ctxDone[u]) => results[u] = <<"closed">>
ConnClosedWhenDown == (failOnce = "yes") => conn = "closed"

(* C18 *)
Outstanding == {it \in armed : it \notin answered /\ it \notin failed}
Quiescent == /\ \A u \in UCalls : pc[u] \in {<<"start">>, <<"fin">>}
             /\ pc[B] \in {<<"idle">>, <<"timed">>, <<"fin">>}
             /\ pc[R] = <<"read">> /\ inbox = <<>>
IdleNotArmed == (Quiescent /\ ~done /\ failOnce = "no" /\ Outstanding = {}) => ~deadline
BusyArmed    == (Quiescent /\ ~done /\ failOnce = "no" /\ Outstanding # {}) => deadline
TimeoutOnlyWhenBusy == timedOut => (\E it \in armed : it \notin answered)
CounterSane == inFlight >= 0

(* C05 (framing): the byte stream is whole frames, one after the other *)
WireWellFormed ==
  \A i \in 1..Len(wire) :
     /\ wire[i].part > 1 => (i > 1 /\ wire[i - 1].item = wire[i].item /\ wire[i - 1].part = wire[i].part - 1)
     /\ wire[i].part = 1 => (i = 1 \/ wire[i - 1].part = wire[i - 1].parts)
CallIdsUnique == \A i, j \in 1..Len(wire) : (wire[i].item = wire[j].item /\ wire[i].part = wire[j].part) => i = j

(* C02 (correlation): a delivered "ok" is for a call the server answered *)
OkOnlyIfAnswered == \A c \in Calls : (\E i \in 1..Len(results[c]) : results[c][i] = "ok") =>
                       \E it \in responded : c \in CallsOf(it)
=============================================================================
