-------------------------------- MODULE Move --------------------------------
(* A region is MOVED to another regionserver while the old one stays up    *)
(* (balancer, "move"): same region name, new address in hbase:meta, no     *)
(* connection is lost.  rpc.go: a request routed to the old server is      *)
(* answered "not serving"; handleResultError marks the region unavailable  *)
(* and starts establishRegion, which looks the region up again (same name, *)
(* other address), takes the connection of THAT server, probes it, attaches *)
(* it to the region (info.SetClient) and releases the waiters.  C01: "the  *)
(* regionserver it is sent to is that region's" - once the region has been *)
(* located again, its requests go to the server that hosts it.             *)
(*                                                                         *)
(* The whole state is one record, and every step is a set-valued function  *)
(* of it, so that Trace_Move can close a state under the steps the servers *)
(* cannot see (routing a request, handling an answer, attaching the        *)
(* connection, releasing the waiters).                                      *)
EXTENDS Naturals, FiniteSets, TLC
CONSTANTS Servers,       \* regionserver addresses
          Subs,          \* the requests of one API call (a batch has several)
          MaxMoves, MaxCalls,
          KeepAttached   \* defective design: SetClient keeps a connection that is still attached (FALSE = the code)
None == "none"
VARIABLE s
(* srv: the server that hosts the region (hbase:meta says the same);  client: the server of the connection attached to the  *)
(* region in the location cache;  avail: the region is available;  epc / eaddr: establishRegion and the address it holds;  *)
(* pc / at: the requests of the API call in progress and where each was routed;  fresh: hbase:meta was read after the last move *)
Init0(srv0) == [srv |-> srv0, client |-> srv0, avail |-> TRUE, epc |-> "free", eaddr |-> None,
                pc |-> [c \in Subs |-> "idle"], at |-> [c \in Subs |-> None], moves |-> 0, calls |-> 0, fresh |-> TRUE]
Init == s \in {Init0(x) : x \in Servers}

Quiet(t) == \A c \in Subs : t.pc[c] \in {"idle", "done"}
(* SendRPC / SendBatch: the region from the cache, available, its client *)
RouteS(t) == {[t EXCEPT !.pc[c] = "fly", !.at[c] = t.client] : c \in {c \in Subs : t.pc[c] = "route" /\ t.avail /\ t.client # None}}
(* the request reaches the server it was sent to: the region's server executes it, any other answers "not serving" *)
ArriveOne(t, c) == IF t.at[c] = t.srv THEN [t EXCEPT !.pc[c] = "done"] ELSE [t EXCEPT !.pc[c] = "nsre"]
ArriveS(t) == {ArriveOne(t, c) : c \in {c \in Subs : t.pc[c] = "fly"}}
(* handleResultError(NotServingRegionError): MarkUnavailable; whoever marks starts the establisher; the request is retried *)
HandleS(t) == {[t EXCEPT !.pc[c] = "route", !.avail = FALSE, !.epc = IF t.avail THEN "lookup" ELSE t.epc] : c \in {c \in Subs : t.pc[c] = "nsre"}}
(* establishRegion *)
LookupS(t) == IF t.epc = "lookup" THEN {[t EXCEPT !.epc = "probe", !.eaddr = t.srv, !.fresh = TRUE]} ELSE {}
ProbeS(t) == IF t.epc = "probe" THEN {IF t.eaddr = t.srv THEN [t EXCEPT !.epc = "set"] ELSE [t EXCEPT !.epc = "lookup"]} ELSE {}
SetS(t) == IF t.epc = "set"
           THEN {[t EXCEPT !.epc = "release", !.client = IF KeepAttached /\ t.client # None THEN t.client ELSE t.eaddr]} ELSE {}
ReleaseS(t) == IF t.epc = "release" THEN {[t EXCEPT !.epc = "free", !.avail = TRUE]} ELSE {}
(* the API *)
StartN(t, S) == [t EXCEPT !.pc = [c \in Subs |-> IF c \in S THEN "route" ELSE "idle"], !.at = [c \in Subs |-> None], !.calls = @ + 1]
StartS(t) == IF Quiet(t) /\ t.calls < MaxCalls THEN {StartN(t, S) : S \in (SUBSET Subs) \ {{}}} ELSE {}
(* the cluster *)
MoveTo(t, to) == [t EXCEPT !.srv = to, !.moves = @ + 1, !.fresh = FALSE]
MoveS(t) == IF t.moves < MaxMoves THEN {MoveTo(t, to) : to \in Servers \ {t.srv}} ELSE {}

Unseen(t) == RouteS(t) \cup HandleS(t) \cup SetS(t) \cup ReleaseS(t)
System(t) == Unseen(t) \cup ArriveS(t) \cup LookupS(t) \cup ProbeS(t) \cup StartS(t)
Sys == s' \in System(s)
Env == s' \in MoveS(s)
Next == Sys \/ Env
Spec == Init /\ [][Next]_s /\ WF_s(Sys)

TypeOK == /\ s.srv \in Servers /\ s.client \in Servers \cup {None} /\ s.avail \in BOOLEAN
          /\ s.epc \in {"free", "lookup", "probe", "set", "release"}
          /\ \A c \in Subs : s.pc[c] \in {"idle", "route", "fly", "nsre", "done"}
(* once the region has been located after its last move and is available again, its connection is its server's *)
Located == (s.fresh /\ s.epc = "free" /\ s.avail) => s.client = s.srv
EstablisherOnlyWhileUnavailable == s.epc # "free" => ~s.avail
(* every call ends: no request goes round in circles between a server that does not host the region and hbase:meta *)
AllServed == <>[](s.calls = MaxCalls /\ \A c \in Subs : s.pc[c] \in {"idle", "done"})
=============================================================================
