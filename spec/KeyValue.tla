------------------------------ MODULE KeyValue ------------------------------
(* HBase KeyValue byte layout (the cell format of cellblocks) and the set   *)
(* of cells a mutation denotes (property C10).                              *)
(*                                                                          *)
(*   int32 total | int32 keyLen | int32 valueLen |                          *)
(*   int16 rowLen | row | int8 famLen | family | qualifier | int64 ts |     *)
(*   int8 type | value          with total = 8 + keyLen + valueLen and      *)
(*   keyLen = 2 + |row| + 1 + |family| + |qualifier| + 8 + 1                *)
(*                                                                          *)
(* Byte strings are sequences of naturals; a timestamp is its 8 big-endian  *)
(* bytes (TLC integers are 32 bit).                                         *)
EXTENDS Integers, Sequences, FiniteSets

BE(n, w) == [i \in 1..w |-> (n \div (256 ^ (w - i))) % 256]   \* w-byte big endian

KeyLen(row, fam, qual) == 2 + Len(row) + 1 + Len(fam) + Len(qual) + 8 + 1
KVLen(row, fam, qual, val) == 4 + 8 + KeyLen(row, fam, qual) + Len(val)   \* bytes consumed

KV(row, fam, qual, ts, type, val) ==
  BE(8 + KeyLen(row, fam, qual) + Len(val), 4) \o BE(KeyLen(row, fam, qual), 4) \o BE(Len(val), 4)
  \o BE(Len(row), 2) \o row \o <<Len(fam)>> \o fam \o qual \o ts \o <<type>> \o val

(* the header of a cell given only the lengths (boundary sizes) *)
KVHeader(rowLen, famLen, qualLen, valLen) ==
  LET keyLen == 2 + rowLen + 1 + famLen + qualLen + 8 + 1
  IN  [total |-> 8 + keyLen + valLen, keyLen |-> keyLen, valLen |-> valLen, consumed |-> 4 + 8 + keyLen + valLen,
       bytes |-> BE(8 + keyLen + valLen, 4) \o BE(keyLen, 4) \o BE(valLen, 4) \o BE(rowLen, 2),
       famLenOffset |-> 14 + rowLen, tsOffset |-> 14 + rowLen + 1 + famLen + qualLen]

TypePut == 4
TypeDelete == 8
TypeDeleteFamilyVersion == 10
TypeDeleteColumn == 12
TypeDeleteFamily == 14
Latest == <<127, 255, 255, 255, 255, 255, 255, 255>>    \* Long.MAX_VALUE

----------------------------------------------------------------------------
(* A mutation: kind, per-family inner maps, timestamp, one-version flag.    *)
(* inner[f] = [nil, qv]: a nil Go map, or a function qualifier -> value.    *)
Inner(isNil, f) == [nil |-> isNil, qv |-> f]
IsDelete(m) == m.kind = "delete"
TsOf(m) == IF m.ts.latest THEN Latest ELSE m.ts.bytes
Cell(f, q, ts, ty, v) == [family |-> f, qualifier |-> q, ts |-> ts, type |-> ty, value |-> v]

(* C10's statement: the cells a mutation denotes (HBase semantics of a Put  *)
(* / Delete / Append / Increment built from that map)                       *)
Denotes(m) ==
  UNION { LET in == m.values[f] IN
          IF IsDelete(m)
          THEN IF in.nil
               THEN {Cell(f, <<>>, TsOf(m), IF m.oneVersion THEN TypeDeleteFamilyVersion ELSE TypeDeleteFamily, <<>>)}
               ELSE {Cell(f, q, TsOf(m), IF m.oneVersion THEN TypeDelete ELSE TypeDeleteColumn, in.qv[q]) : q \in DOMAIN in.qv}
          ELSE IF in.nil THEN {}
               ELSE {Cell(f, q, TsOf(m), TypePut, in.qv[q]) : q \in DOMAIN in.qv}
        : f \in DOMAIN m.values }

(* hrpc/mutate.go: valuesToCellblocks, case by case.  "PANIC" models the    *)
(* length-mismatch panic.                                                   *)
CellblockCells(m) ==
  UNION { LET in == m.values[f] IN
          IF IsDelete(m)
          THEN IF in.nil \/ DOMAIN in.qv = {}
               THEN LET ty == IF m.oneVersion THEN TypeDeleteFamilyVersion ELSE TypeDeleteFamily
                    IN  IF in.nil THEN {Cell(f, <<>>, TsOf(m), ty, <<>>)} ELSE {}
               ELSE {Cell(f, q, TsOf(m), IF m.oneVersion THEN TypeDelete ELSE TypeDeleteColumn, in.qv[q]) : q \in DOMAIN in.qv}
          ELSE IF in.nil THEN {}   \* (after the fix; the pinned tree counted one cell and then panicked)
               ELSE {Cell(f, q, TsOf(m), TypePut, in.qv[q]) : q \in DOMAIN in.qv}
        : f \in DOMAIN m.values }

(* hrpc/mutate.go: valuesToProto, then HBase's rule for turning a           *)
(* MutationProto into cells (ProtobufUtil.toPut / toDelete)                 *)
ProtoQVs(m) ==   \* set of [family, qualifier, value, hasTs, deleteType]
  UNION { LET in == m.values[f]
              isEmpty == in.nil \/ DOMAIN in.qv = {}
              dt == IF ~IsDelete(m) THEN "none"
                    ELSE IF isEmpty THEN (IF m.oneVersion THEN "DELETE_FAMILY_VERSION" ELSE "DELETE_FAMILY")
                    ELSE (IF m.oneVersion THEN "DELETE_ONE_VERSION" ELSE "DELETE_MULTIPLE_VERSIONS")
              eff == IF IsDelete(m) /\ in.nil THEN [q \in {<<>>} |-> <<>>]
                     ELSE IF in.nil THEN [q \in {} |-> <<>>] ELSE in.qv
          IN  {[family |-> f, qualifier |-> q, value |-> eff[q], dt |-> dt] : q \in DOMAIN eff}
        : f \in DOMAIN m.values }

ServerType(dt) == CASE dt = "none" -> TypePut
                    [] dt = "DELETE_ONE_VERSION" -> TypeDelete
                    [] dt = "DELETE_MULTIPLE_VERSIONS" -> TypeDeleteColumn
                    [] dt = "DELETE_FAMILY" -> TypeDeleteFamily
                    [] dt = "DELETE_FAMILY_VERSION" -> TypeDeleteFamilyVersion

ProtoCells(m) == {Cell(x.family, x.qualifier, TsOf(m), ServerType(x.dt), x.value) : x \in ProtoQVs(m)}
=============================================================================
