SPECIFICATION Spec
INVARIANTS CellblockIsDenotes ProtoIsDenotes
CHECK_DEADLOCK FALSE
