SPECIFICATION Spec
CONSTANTS
  Callers <- MC_Callers
  Three = FALSE
  MaxEst = 2
  MaxFaults = 0
  AllowClose = FALSE
  AllowSplit = TRUE
  StartCached = FALSE
  MarkBeforePut = FALSE
  AllowReplace = FALSE
  DelBeforeAvail = TRUE
INVARIANTS NoPanic OneEstablisher EstablisherOnlyWhileUnavailable StableEnd
