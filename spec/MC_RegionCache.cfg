SPECIFICATION Spec
CONSTANT Big = FALSE
VIEW View
INVARIANTS NoOverlap UniqueNames LayersAgreeOverlaps LayersAgreeGet
PROPERTIES EvictedAreDead NewestWins RejectedPutIsNoop
CHECK_DEADLOCK FALSE
