---------------------------- MODULE Gen_SendBatch ----------------------------
(* B1: every scenario of MC_SendBatch with the result SendBatch must return  *)
(* according to the specification, one JSON object per line on stdout.      *)
EXTENDS MC_SendBatch, Json, SequencesExt
CONSTANT Slice, Slices   \* export only scenarios whose number (in TLC's enumeration order) is Slice modulo Slices
J(s) == [srv |-> s.srv, out |-> s.out, reloc |-> <<s.reloc[2], s.reloc[3]>>, own |-> SetToSeq(s.ownCtx),
         cancel |-> [at |-> s.cancel.at, round |-> s.cancel.round, held |-> SetToSeq(s.cancel.held)]]
Export ==
  pc = "done" =>
     PrintT(<<"@@J", ToJson([scr |-> J(scr), kinds |-> [j \in 1..N |-> res[j].kind], allOK |-> allOK, returned |-> returned, hung |-> hung,
                             sent |-> sentLog])>>)
=============================================================================
