SPECIFICATION Spec
CONSTANTS
  RunningPolls = {0, 1, 2, 5}
  Outcomes = {"ok", "exception", "notfound", "rpcerror"}
  AllowCancel = TRUE
  MaxPolls = 8
INVARIANTS WaitsFollowSchedule OnePollPerWait ResultIsTheMastersVerdict NeverPollsAfterTheVerdict
PROPERTIES CancelEndsIt Terminates
CHECK_DEADLOCK FALSE
