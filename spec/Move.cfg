SPECIFICATION Spec
CONSTANTS
  Servers = {"a", "b", "c"}
  Subs = {1, 2}
  MaxMoves = 2
  MaxCalls = 2
  KeepAttached = FALSE
INVARIANTS TypeOK Located EstablisherOnlyWhileUnavailable
PROPERTIES AllServed
CHECK_DEADLOCK FALSE
