------------------------------- MODULE Outage -------------------------------
(* One region object, its availability channel and everyone who touches it  *)
(* (region/info.go: MarkUnavailable / MarkAvailable / SetClient;            *)
(* rpc.go: getRegionAndClientForRPC, handleResultError, clientDown,         *)
(* establishRegion) - the heart of property C09: no panic (MarkAvailable    *)
(* closes a nil channel if the region is not marked), one establisher per   *)
(* outage, waiters released, nobody stranded once the cluster is stable.    *)
(*                                                                          *)
(* avail = 0: available (nil channel); avail = g > 0: unavailable, waiters  *)
(* block on channel number g until it is closed.                            *)
EXTENDS Integers, FiniteSets, TLC

CONSTANTS Callers,      \* caller processes (strings)
          MaxEst,       \* establisher slots
          MaxFaults,    \* environment budget: connection deaths + not-serving answers + a split
          AllowClose, AllowSplit,
          StartCached,  \* TRUE: the region is in the cache and established at the start; FALSE: nobody knows it yet (findRegion)
          MarkBeforePut, \* findRegion marks the fresh region unavailable BEFORE publishing it in the cache (TRUE = the code)
          AllowReplace,  \* the cluster may split the region for good: requests naming it are answered "not serving" from then on and the
                         \* establisher's lookup returns ANOTHER region, which it puts into the cache in place of this one
          DelBeforeAvail \* ... dropping this region's connection BEFORE releasing the waiters (TRUE = the code)

Ests == 1..MaxEst
Conns == 1..(MaxFaults + 2)
VARIABLES
  avail, nextGen,  \* the channel
  closedGens,      \* channels that have been closed (waiters on them are released)
  client,          \* the region's client: 0 = nil, else a connection
  connUp,          \* [Conns -> BOOLEAN]
  cached,          \* connection currently in the clients cache for the server (0 = none)
  dead,            \* the region was replaced (split/merge): its context is cancelled
  panicked,
  cpc, cwait, ccl, \* callers: control point, channel waited on, client in hand
  epc, ecl,        \* establishers: control point ("free" = slot unused), client in hand
  faults, nsre,    \* environment: budget used; the region answers "not serving" to the next request
  cdone,           \* the client was closed
  inCache,         \* the region object is published in the regions cache
  stale,           \* the cluster has replaced the region (split / merge): nobody serves it any more
  relGen           \* the channel generation closed by the establisher that replaced the region in the cache (0 = none)

vars == <<avail, nextGen, closedGens, client, connUp, cached, dead, panicked, cpc, cwait, ccl, epc, ecl, faults, nsre, cdone, inCache, stale, relGen>>

Init ==
  /\ avail = 0 /\ nextGen = 1 /\ closedGens = {}
  /\ inCache = StartCached
  /\ client = (IF StartCached THEN 1 ELSE 0) /\ connUp = [k \in Conns |-> StartCached /\ k = 1]
  /\ cached = (IF StartCached THEN 1 ELSE 0)
  /\ dead = FALSE /\ panicked = FALSE
  /\ cpc = [c \in Callers |-> "start"] /\ cwait = [c \in Callers |-> 0] /\ ccl = [c \in Callers |-> 0]
  /\ epc = [e \in Ests |-> "free"] /\ ecl = [e \in Ests |-> 0]
  /\ faults = 0 /\ nsre = FALSE /\ cdone = FALSE
  /\ stale = FALSE /\ relGen = 0

(* MarkUnavailable: TRUE iff it created the channel; the winner starts an establisher *)
FreeSlot == CHOOSE e \in Ests : epc[e] = "free"
HasSlot == \E e \in Ests : epc[e] = "free"
MarkUnavailableAndSpawn(setNil) ==   \* the conjunct used by every "if reg.MarkUnavailable() { [SetClient(nil);] go reestablish }"
  IF avail = 0
  THEN /\ HasSlot
       /\ avail' = nextGen /\ nextGen' = nextGen + 1
       /\ client' = IF setNil THEN 0 ELSE client
       /\ epc' = [epc EXCEPT ![FreeSlot] = IF cdone THEN "free" ELSE "sleep"]   \* reestablishRegion returns at once on a closed client
  ELSE UNCHANGED <<avail, nextGen, client, epc>>

(* MarkAvailable: close(ch) - panics on a nil channel *)
MarkAvailable ==
  IF avail = 0 THEN panicked' = TRUE /\ UNCHANGED <<avail, closedGens>>
  ELSE closedGens' = closedGens \cup {avail} /\ avail' = 0 /\ UNCHANGED panicked

----------------------------------------------------------------------------
(* a caller: getRegionAndClientForRPC, send, handleResultError *)
CStart(c) ==          \* region from the cache; first availability check
  /\ cpc[c] = "start"
  /\ IF ~inCache THEN cpc' = [cpc EXCEPT ![c] = "miss"] /\ UNCHANGED cwait      \* not in the cache: findRegion
     ELSE IF dead THEN cpc' = [cpc EXCEPT ![c] = "relookup"] /\ UNCHANGED cwait     \* the cache no longer returns a dead region
     ELSE IF avail # 0 THEN cpc' = [cpc EXCEPT ![c] = "wait1"] /\ cwait' = [cwait EXCEPT ![c] = avail]
     ELSE cpc' = [cpc EXCEPT ![c] = "getc"] /\ UNCHANGED cwait
  /\ UNCHANGED <<avail, nextGen, closedGens, client, connUp, cached, dead, panicked, ccl, epc, ecl, faults, nsre, cdone, inCache, stale, relGen>>

CWait(c, from, to) ==   \* select { ctx (not modelled here) ; c.done ; <-ch }
  /\ cpc[c] = from
  /\ \/ cwait[c] \in closedGens /\ cpc' = [cpc EXCEPT ![c] = to]
     \/ cdone /\ cpc' = [cpc EXCEPT ![c] = "done"]
  /\ UNCHANGED <<avail, nextGen, closedGens, client, connUp, cached, dead, panicked, cwait, ccl, epc, ecl, faults, nsre, cdone, inCache, stale, relGen>>

CGetClient(c) ==      \* client := reg.Client(); nil -> MarkUnavailable [+ establisher]
  /\ cpc[c] = "getc"
  /\ IF client # 0
     THEN /\ ccl' = [ccl EXCEPT ![c] = client] /\ cpc' = [cpc EXCEPT ![c] = "send"]
          /\ UNCHANGED <<avail, nextGen, client, epc>>
     ELSE /\ MarkUnavailableAndSpawn(FALSE) /\ cpc' = [cpc EXCEPT ![c] = "rechk"] /\ UNCHANGED ccl
  /\ UNCHANGED <<closedGens, connUp, cached, dead, panicked, cwait, ecl, faults, nsre, cdone, inCache, stale, relGen>>

CRecheck(c) ==        \* second AvailabilityChan() read
  /\ cpc[c] = "rechk"
  /\ IF avail # 0 THEN cpc' = [cpc EXCEPT ![c] = "wait2"] /\ cwait' = [cwait EXCEPT ![c] = avail]
     ELSE cpc' = [cpc EXCEPT ![c] = "after2"] /\ UNCHANGED cwait
  /\ UNCHANGED <<avail, nextGen, closedGens, client, connUp, cached, dead, panicked, ccl, epc, ecl, faults, nsre, cdone, inCache, stale, relGen>>

CAfter2(c) ==         \* dead -> look up again; client still nil -> loop; else go
  /\ cpc[c] = "after2"
  /\ IF dead THEN cpc' = [cpc EXCEPT ![c] = "relookup"] /\ UNCHANGED ccl
     ELSE IF client = 0 THEN cpc' = [cpc EXCEPT ![c] = "start"] /\ UNCHANGED ccl
     ELSE ccl' = [ccl EXCEPT ![c] = client] /\ cpc' = [cpc EXCEPT ![c] = "send"]
  /\ UNCHANGED <<avail, nextGen, closedGens, client, connUp, cached, dead, panicked, cwait, epc, ecl, faults, nsre, cdone, inCache, stale, relGen>>

CSend(c) ==           \* the request over the client in hand: ok / connection dead / region not serving
  /\ cpc[c] = "send"
  /\ IF ~connUp[ccl[c]] THEN cpc' = [cpc EXCEPT ![c] = "srverr"] /\ UNCHANGED nsre
     ELSE IF nsre \/ dead \/ stale THEN cpc' = [cpc EXCEPT ![c] = "nsrerr"] /\ nsre' = FALSE
     ELSE cpc' = [cpc EXCEPT ![c] = "done"] /\ UNCHANGED nsre
  /\ UNCHANGED <<avail, nextGen, closedGens, client, connUp, cached, dead, panicked, cwait, ccl, epc, ecl, faults, cdone, inCache, stale, relGen>>

CNotServing(c) ==     \* handleResultError(NotServingRegionError)
  /\ cpc[c] = "nsrerr"
  /\ MarkUnavailableAndSpawn(FALSE) /\ cpc' = [cpc EXCEPT ![c] = "start"]
  /\ UNCHANGED <<closedGens, connUp, cached, dead, panicked, cwait, ccl, ecl, faults, nsre, cdone, inCache, stale, relGen>>

CClientDown1(c) ==    \* clientDown: the connection leaves the cache ...
  /\ cpc[c] = "srverr"
  /\ cached' = IF cached = ccl[c] THEN 0 ELSE cached
  /\ cpc' = [cpc EXCEPT ![c] = "down2"]
  /\ UNCHANGED <<avail, nextGen, closedGens, client, connUp, dead, panicked, cwait, ccl, epc, ecl, faults, nsre, cdone, inCache, stale, relGen>>
CClientDown2(c) ==    \* ... then the region is marked (SetClient(nil) only by the one who marks)
  /\ cpc[c] = "down2"
  /\ MarkUnavailableAndSpawn(TRUE) /\ cpc' = [cpc EXCEPT ![c] = "start"]
  /\ UNCHANGED <<closedGens, connUp, cached, dead, panicked, cwait, ccl, ecl, faults, nsre, cdone, inCache, stale, relGen>>

CRelookup(c) ==       \* a replaced region: the request goes on with the new region (outside this model)
  /\ cpc[c] = "relookup" /\ cpc' = [cpc EXCEPT ![c] = "done"]
  /\ UNCHANGED <<avail, nextGen, closedGens, client, connUp, cached, dead, panicked, cwait, ccl, epc, ecl, faults, nsre, cdone, inCache, stale, relGen>>

(* findRegion: look the region up in hbase:meta (every caller that misses gets its own fresh object; only the one whose *)
(* put wins matters - it is THE region object of this model; the others find it in the cache on their retry), mark it  *)
(* unavailable, publish it, start its establisher                                                                     *)
FinderBusy == \E d \in Callers : cpc[d] \in {"fput", "fmark", "fspawn"}
CLookup(c) ==
  /\ cpc[c] = "miss"
  /\ cpc' = [cpc EXCEPT ![c] = IF cdone THEN "done" ELSE "found"]
  /\ UNCHANGED <<avail, nextGen, closedGens, client, connUp, cached, dead, panicked, cwait, ccl, epc, ecl, faults, nsre, cdone, inCache, stale, relGen>>
CFound(c) ==
  /\ cpc[c] = "found" /\ ~FinderBusy
  /\ IF inCache THEN cpc' = [cpc EXCEPT ![c] = "start"] /\ UNCHANGED <<avail, nextGen, inCache, stale, relGen>>   \* put: same region already cached, retry
     ELSE IF MarkBeforePut THEN /\ avail' = nextGen /\ nextGen' = nextGen + 1 /\ cpc' = [cpc EXCEPT ![c] = "fput"] /\ UNCHANGED inCache
     ELSE inCache' = TRUE /\ cpc' = [cpc EXCEPT ![c] = "fmark"] /\ UNCHANGED <<avail, nextGen>>
  /\ UNCHANGED <<closedGens, client, connUp, cached, dead, panicked, cwait, ccl, epc, ecl, faults, nsre, cdone, stale, relGen>>
CFPut(c) ==
  /\ cpc[c] = "fput" /\ inCache' = TRUE /\ cpc' = [cpc EXCEPT ![c] = "fspawn"]
  /\ UNCHANGED <<avail, nextGen, closedGens, client, connUp, cached, dead, panicked, cwait, ccl, epc, ecl, faults, nsre, cdone, stale, relGen>>
CFMark(c) ==          \* reg.MarkUnavailable() with the result ignored
  /\ cpc[c] = "fmark" /\ cpc' = [cpc EXCEPT ![c] = "fspawn"]
  /\ IF avail = 0 THEN avail' = nextGen /\ nextGen' = nextGen + 1 ELSE UNCHANGED <<avail, nextGen>>
  /\ UNCHANGED <<closedGens, client, connUp, cached, dead, panicked, cwait, ccl, epc, ecl, faults, nsre, cdone, inCache, stale, relGen>>
CFSpawn(c) ==         \* go establishRegion(reg, addr): the address is known, the first round needs no lookup
  /\ cpc[c] = "fspawn" /\ HasSlot
  /\ epc' = [epc EXCEPT ![FreeSlot] = "put"] /\ cpc' = [cpc EXCEPT ![c] = "start"]
  /\ UNCHANGED <<avail, nextGen, closedGens, client, connUp, cached, dead, panicked, cwait, ccl, ecl, faults, nsre, cdone, inCache, stale, relGen>>

Caller(c) == \/ CLookup(c) \/ CFound(c) \/ CFPut(c) \/ CFMark(c) \/ CFSpawn(c)
             \/ CStart(c) \/ CWait(c, "wait1", "getc") \/ CGetClient(c) \/ CRecheck(c) \/ CWait(c, "wait2", "after2") \/ CAfter2(c)
             \/ CSend(c) \/ CNotServing(c) \/ CClientDown1(c) \/ CClientDown2(c) \/ CRelookup(c)

----------------------------------------------------------------------------
(* establishRegion for this region object *)
ESleep(e) ==          \* sleepAndIncreaseBackoff(reg.Context()): a dead region gives up (and releases)
  /\ epc[e] = "sleep"
  /\ IF dead THEN MarkAvailable /\ epc' = [epc EXCEPT ![e] = "free"]
     ELSE epc' = [epc EXCEPT ![e] = "lookup"] /\ UNCHANGED <<avail, closedGens, panicked>>
  /\ UNCHANGED <<nextGen, client, connUp, cached, dead, cpc, cwait, ccl, ecl, faults, nsre, cdone, inCache, stale, relGen>>
ELookup(e) ==         \* closed client: return without releasing; dead meanwhile: release; else the same region
  /\ epc[e] = "lookup"
  /\ IF dead THEN MarkAvailable /\ epc' = [epc EXCEPT ![e] = "free"]
     ELSE IF cdone THEN epc' = [epc EXCEPT ![e] = "free"] /\ UNCHANGED <<avail, closedGens, panicked>>
     ELSE IF stale THEN epc' = [epc EXCEPT ![e] = "rput"] /\ UNCHANGED <<avail, closedGens, panicked>>   \* the lookup names another region
     ELSE epc' = [epc EXCEPT ![e] = "put"] /\ UNCHANGED <<avail, closedGens, panicked>>
  /\ UNCHANGED <<nextGen, client, connUp, cached, dead, cpc, cwait, ccl, ecl, faults, nsre, cdone, inCache, stale, relGen>>
EPut(e) ==            \* clients.put: the cached connection of the server, or a new one (dialled at once here)
  /\ epc[e] = "put"
  /\ IF cached # 0 THEN ecl' = [ecl EXCEPT ![e] = cached] /\ UNCHANGED <<cached, connUp>>
     ELSE LET k == CHOOSE k \in Conns : ~connUp[k] /\ k # cached /\ \A c \in Callers : ccl[c] # k /\ k > 1 IN
          /\ ecl' = [ecl EXCEPT ![e] = k] /\ cached' = k /\ connUp' = [connUp EXCEPT ![k] = TRUE]
  /\ epc' = [epc EXCEPT ![e] = "probe"]
  /\ UNCHANGED <<avail, nextGen, closedGens, client, dead, panicked, cpc, cwait, ccl, faults, nsre, cdone, inCache, stale, relGen>>
EProbe(e) ==          \* dead connection -> clientDown and again; region not serving -> again; ok -> SetClient
  /\ epc[e] = "probe"
  /\ IF ~connUp[ecl[e]] THEN /\ cached' = (IF cached = ecl[e] THEN 0 ELSE cached) /\ epc' = [epc EXCEPT ![e] = "sleep"]
                             /\ UNCHANGED <<client, nsre>>
     ELSE IF nsre \/ stale THEN nsre' = FALSE /\ epc' = [epc EXCEPT ![e] = "sleep"] /\ UNCHANGED <<client, cached>>
     ELSE client' = ecl[e] /\ epc' = [epc EXCEPT ![e] = "release"] /\ UNCHANGED <<cached, nsre>>
  /\ UNCHANGED <<avail, nextGen, closedGens, connUp, dead, panicked, cpc, cwait, ccl, ecl, faults, cdone, inCache, stale, relGen>>
ERelease(e) ==        \* the window between SetClient and MarkAvailable ends here
  /\ epc[e] = "release"
  /\ MarkAvailable /\ epc' = [epc EXCEPT ![e] = "free"]
  /\ UNCHANGED <<nextGen, client, connUp, cached, dead, cpc, cwait, ccl, ecl, faults, nsre, cdone, inCache, stale, relGen>>
(* the lookup returned another region (this one was split or merged away): regions.put(new) marks this one dead; its      *)
(* connection is dropped (clients.del: SetClient(nil)) and the waiters are released to look the key up again - in that   *)
(* order, or a released waiter still finds a connection on the dead region and sends its request there                   *)
ERPut(e) ==
  /\ epc[e] = "rput" /\ dead' = TRUE
  /\ epc' = [epc EXCEPT ![e] = IF DelBeforeAvail THEN "rdel" ELSE "ravail"]
  /\ UNCHANGED <<avail, nextGen, closedGens, client, connUp, cached, panicked, cpc, cwait, ccl, ecl, faults, nsre, cdone, inCache, stale, relGen>>
ERDel(e) ==
  /\ epc[e] = "rdel" /\ client' = 0
  /\ epc' = [epc EXCEPT ![e] = IF DelBeforeAvail THEN "ravail" ELSE "free"]
  /\ UNCHANGED <<avail, nextGen, closedGens, connUp, cached, dead, panicked, cpc, cwait, ccl, ecl, faults, nsre, cdone, inCache, stale, relGen>>
ERAvail(e) ==
  /\ epc[e] = "ravail" /\ relGen' = avail /\ MarkAvailable
  /\ epc' = [epc EXCEPT ![e] = IF DelBeforeAvail THEN "free" ELSE "rdel"]
  /\ UNCHANGED <<nextGen, client, connUp, cached, dead, cpc, cwait, ccl, ecl, faults, nsre, cdone, inCache, stale>>
Est(e) == ESleep(e) \/ ELookup(e) \/ EPut(e) \/ EProbe(e) \/ ERelease(e) \/ ERPut(e) \/ ERDel(e) \/ ERAvail(e)

----------------------------------------------------------------------------
(* environment *)
ConnDies == /\ faults < MaxFaults /\ \E k \in Conns : connUp[k] /\ connUp' = [connUp EXCEPT ![k] = FALSE]
            /\ faults' = faults + 1
            /\ UNCHANGED <<avail, nextGen, closedGens, client, cached, dead, panicked, cpc, cwait, ccl, epc, ecl, nsre, cdone, inCache, stale, relGen>>
NotServingOnce == /\ faults < MaxFaults /\ ~nsre /\ nsre' = TRUE /\ faults' = faults + 1
                  /\ UNCHANGED <<avail, nextGen, closedGens, client, connUp, cached, dead, panicked, cpc, cwait, ccl, epc, ecl, cdone, inCache, stale, relGen>>
Split == /\ AllowSplit /\ faults < MaxFaults /\ ~dead /\ dead' = TRUE /\ faults' = faults + 1   \* cache put of a daughter: MarkDead
         /\ UNCHANGED <<avail, nextGen, closedGens, client, connUp, cached, panicked, cpc, cwait, ccl, epc, ecl, nsre, cdone, inCache, stale, relGen>>
Replaced == /\ AllowReplace /\ faults < MaxFaults /\ ~stale /\ ~dead /\ stale' = TRUE /\ faults' = faults + 1
            /\ UNCHANGED <<avail, nextGen, closedGens, client, connUp, cached, dead, panicked, cpc, cwait, ccl, epc, ecl, nsre, cdone, inCache, relGen>>
(* a caller of ANOTHER region that shares the connection notices its death first and takes it out of the cache *)
OtherRegionDown == /\ cached # 0 /\ ~connUp[cached] /\ cached' = 0
                   /\ UNCHANGED <<avail, nextGen, closedGens, client, connUp, dead, panicked, cpc, cwait, ccl, epc, ecl, faults, nsre, cdone, inCache, stale, relGen>>
Close == /\ AllowClose /\ ~cdone /\ cdone' = TRUE
         /\ (IF avail = 0 THEN avail' = nextGen /\ nextGen' = nextGen + 1 ELSE UNCHANGED <<avail, nextGen>>)   \* closeAll marks, nobody establishes
         /\ client' = 0
         /\ UNCHANGED <<closedGens, connUp, cached, dead, panicked, cpc, cwait, ccl, epc, ecl, faults, nsre, inCache, stale, relGen>>
AllDone == \A c \in Callers : cpc[c] = "done"
Terminated == AllDone /\ (\A e \in Ests : epc[e] = "free") /\ UNCHANGED vars

Next == \/ \E c \in Callers : Caller(c)
        \/ \E e \in Ests : Est(e)
        \/ ConnDies \/ NotServingOnce \/ Split \/ Replaced \/ Close \/ OtherRegionDown \/ Terminated
Spec == Init /\ [][Next]_vars

----------------------------------------------------------------------------
NoPanic == ~panicked
OneEstablisher == Cardinality({e \in Ests : epc[e] # "free"}) <= 1
EstablisherOnlyWhileUnavailable == (\E e \in Ests : epc[e] # "free") => avail # 0
(* nobody is stranded: every state without a successor (TLC's deadlock check) is the terminated one; and at the end *)
(* the region is available unless it was replaced or the client closed                                            *)
(* C01 under a layout change: a caller that waited for the region and was released by the establisher that had just put   *)
(* the replacement into the cache is routed from the cache - it never sends its request to the replaced region           *)
NoSendAfterReplace == \A c \in Callers : ~(cpc[c] = "send" /\ relGen # 0 /\ cwait[c] = relGen)
StableEnd == (AllDone /\ \A e \in Ests : epc[e] = "free") => (avail = 0 \/ cdone)
=============================================================================
