SPECIFICATION Spec
CONSTANT FixOwnCtx = TRUE
INVARIANTS CancelEnabled CallCancelEnabled
PROPERTY CancelledReturns
CHECK_DEADLOCK FALSE
