------------------------------- MODULE Backoff -------------------------------
(* The retry schedule of rpc.go: sleepAndIncreaseBackoff and the loops that  *)
(* use it (property C17).  Durations are in milliseconds.                    *)
EXTENDS Integers, Sequences

Start == 16
(* one call: sleep `b' (nothing for b = 0), return the next value *)
NextB(b) == IF b = 0 THEN Start
            ELSE IF b < 5000 THEN 2 * b
            ELSE IF b < 30000 THEN b + 5000
            ELSE b
Slept(b) == b     \* how long the call with argument b waits

(* the k-th wait (k >= 1) of a loop whose variable starts at Start: SendRPC, SendBatch, lookupRegion *)
RECURSIVE Var(_)
Var(k) == IF k = 1 THEN Start ELSE NextB(Var(k - 1))
Sched(k) == Var(k)
(* closed form claimed by the property *)
Closed(k) == IF k <= 10 THEN 16 * (2 ^ (k - 1))         \* 16 .. 8192
             ELSE IF k <= 15 THEN 8192 + 5000 * (k - 10) \* 13192 .. 33192
             ELSE 33192
(* a loop whose variable starts at 0 (establishRegion): the first pass does not wait *)
SchedFromZero(k) == IF k = 1 THEN 0 ELSE Sched(k - 1)

----------------------------------------------------------------------------
(* The request loop of SendRPC against a persistently failing target: which *)
(* waits separate successive attempts.                                       *)
VARIABLES kind,      \* "later" (retry-later answers) or "server" (connection-level failures)
          b, errs, attempts, waits
lvars == <<kind, b, errs, attempts, waits>>
LInit == kind \in {"later", "server"} /\ b = Start /\ errs = 0 /\ attempts = 1 /\ waits = <<>>
LNext ==
  /\ attempts < 24
  /\ attempts' = attempts + 1 /\ kind' = kind
  /\ IF kind = "later"
     THEN waits' = Append(waits, Slept(b)) /\ b' = NextB(b) /\ errs' = errs
     ELSE \* a connection-level error is retried at once at most twice, then the schedule applies
          /\ errs' = errs + 1
          /\ IF errs > 1 THEN waits' = Append(waits, Slept(b)) /\ b' = NextB(b)
             ELSE waits' = Append(waits, 0) /\ b' = b
LSpec == LInit /\ [][LNext]_lvars

ClosedFormHolds == \A k \in 1..22 : Sched(k) = Closed(k)
Monotone == \A k \in 1..21 : Sched(k) <= Sched(k + 1)
Bounded == \A k \in 1..22 : Sched(k) <= 33192
Discipline ==
  LET imm == IF kind = "server" THEN 2 ELSE 0 IN
    \A j \in 1..Len(waits) : waits[j] = (IF j <= imm THEN 0 ELSE Sched(j - imm))
=============================================================================
