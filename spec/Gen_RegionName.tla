--------------------------- MODULE Gen_RegionName ---------------------------
(* B1: TLC writes the scope's names sorted by the tuple order; the harness  *)
(* checks region.Compare against positions in that list.                    *)
EXTENDS MC_RegionName, Json, SequencesExt
Sorted == SortSeq(SetToSeq(All), LAMBDA a, b : TupleCmp(a, b) < 0)
ASSUME ndJsonSerialize("c16_sorted.ndjson", Sorted)
ASSUME PrintT(<<"@@N", Cardinality(All)>>)
(* the search keys of the scope as the client must build them (createRegionSearchKey): table , key , ':' *)
ASSUME ndJsonSerialize("c16_searchkeys.ndjson",
         SetToSeq({[table |-> t, key |-> k, bytes |-> Flat(SearchName(t, k))] : t \in Tables, k \in Keys}))
=============================================================================
