SPECIFICATION Spec
CONSTANT Full = TRUE
INVARIANTS AlgoIsTuple NoPanic Antisym TotalOnNames FirstRegionFirst
CHECK_DEADLOCK FALSE
