SPECIFICATION Spec
CONSTANT FixOwnCtx = TRUE
INVARIANTS CallCancelEnabledEverywhere
PROPERTY CancelledReturns
CHECK_DEADLOCK FALSE
