SPECIFICATION Spec
CONSTANTS
  PartialModes = {FALSE, TRUE}
  MaxCut = 2
  MaxErrors = 0
  AllowCancel = FALSE
  AllowUserClose = FALSE
  AllowEarlyEnd = FALSE
  MaxRenew = 0
  FixRenew = TRUE
  RenewModes = {FALSE}
  ErrorOnce = TRUE
VIEW View
INVARIANTS PrefixOfExpected ExactRowsAtEOF FragmentsConcatenate ErrorOnceThenEOF NoLeakedRegionScanner ClosedMeansNoCurrent
CHECK_DEADLOCK FALSE
