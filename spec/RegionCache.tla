---------------------------- MODULE RegionCache ----------------------------
(* The client's location cache (caches.go: keyRegionCache) and the lookup   *)
(* done on it (rpc.go: getRegionFromCache).                                 *)
(*                                                                          *)
(* Abstract layer: the cache is a set of regions; Put / Del / Get are given *)
(* by interval reasoning only (properties C08 and the lookup half of C01).  *)
(* Implementation layer: the cache is a B-tree ordered by region name; the  *)
(* overlap walk (getOverlaps) and the lookup (Seek + Prev + sanity checks)  *)
(* are transcribed on the sorted sequence.  TLC checks that the two layers  *)
(* agree in every reachable state.                                          *)
(*                                                                          *)
(* A region is a record [obj, table, start, stop, id]: obj identifies the   *)
(* Go object (two objects may carry the same name), table is the fully      *)
(* qualified table name, start/stop are byte strings (<<>> = unbounded),    *)
(* id is a natural (creation timestamp).  The region *name* is              *)
(* (table, start, id).                                                      *)
EXTENDS RegionName, SequencesExt

VARIABLES cache,        \* set of region records
          dead,         \* set of region records whose context was cancelled
          lastOverlaps, \* output of the last Put: set of regions
          lastReplaced, \* output of the last Put / Del: BOOLEAN
          lastGet,      \* output of the last Get: a region or NoRegion
          lastOp        \* "init" / "put" / "del" / "get"

cvars == <<cache, dead, lastOverlaps, lastReplaced, lastGet, lastOp>>

NoRegion == [obj |-> -1]

RECURSIVE DigitsOf(_)
DigitsOf(n) == IF n < 10 THEN <<48 + n>> ELSE DigitsOf(n \div 10) \o <<48 + (n % 10)>>

(* name as the (table, start, id) tuple of RegionName; the id is compared   *)
(* numerically by the cache (uint64) and as a digit string by the order;    *)
(* ids of one scope have the same number of digits so both agree            *)
NameOf(r) == Name(r.table, r.start, DigitsOf(r.id))
SameName(a, b) == a.table = b.table /\ a.start = b.start /\ a.id = b.id

Unbounded(k) == k = <<>>

(* caches.go: isRegionOverlap *)
Overlap(a, b) ==
  /\ a.table = b.table
  /\ (Unbounded(b.stop) \/ Lex(a.start, b.stop) < 0)
  /\ (Unbounded(a.stop) \/ Lex(a.stop, b.start) > 0)

InRange(r, t, k) ==
  /\ r.table = t
  /\ Lex(r.start, k) <= 0
  /\ (Unbounded(r.stop) \/ Lex(k, r.stop) < 0)

WellFormed(r) == Unbounded(r.stop) \/ Lex(r.start, r.stop) < 0

----------------------------------------------------------------------------
(* Abstract layer *)

AbsOverlaps(c, r) == {o \in c : Overlap(o, r)}

AbsGet(c, t, k) ==
  LET S == {r \in c : InRange(r, t, k)}
  IN  IF S = {} THEN NoRegion ELSE CHOOSE r \in S : TRUE

Init ==
  /\ cache = {} /\ dead = {}
  /\ lastOverlaps = {} /\ lastReplaced = FALSE /\ lastGet = NoRegion /\ lastOp = "init"

(* keyRegionCache.put *)
Put(r) ==
  LET same == {o \in cache : SameName(o, r)}
      ov   == AbsOverlaps(cache, r)
  IN  /\ lastGet' = lastGet /\ lastOp' = "put"
      /\ IF same # {}
         THEN /\ lastOverlaps' = same /\ lastReplaced' = FALSE
              /\ UNCHANGED <<cache, dead>>
         ELSE IF \E o \in ov : o.id > r.id
         THEN /\ lastOverlaps' = ov /\ lastReplaced' = FALSE
              /\ UNCHANGED <<cache, dead>>
         ELSE /\ cache' = (cache \ ov) \cup {r}
              /\ dead' = dead \cup ov
              /\ lastOverlaps' = ov /\ lastReplaced' = TRUE

(* keyRegionCache.del: removes the entry with that name, marks the object   *)
(* it was handed dead                                                       *)
Del(r) ==
  /\ cache' = {o \in cache : ~SameName(o, r)}
  /\ dead' = dead \cup {r}
  /\ lastReplaced' = (\E o \in cache : SameName(o, r))
  /\ lastOp' = "del"
  /\ UNCHANGED <<lastOverlaps, lastGet>>

(* getRegionFromCache *)
Get(t, k) ==
  /\ lastGet' = AbsGet(cache, t, k) /\ lastOp' = "get"
  /\ UNCHANGED <<cache, dead, lastOverlaps, lastReplaced>>

----------------------------------------------------------------------------
(* Properties (C08, lookup half of C01) *)

NoOverlap == \A a, b \in cache : a # b => ~Overlap(a, b)
UniqueNames == \A a, b \in cache : a # b => ~SameName(a, b)
EvictedAreDead == [][lastOp' = "put" => (cache \ cache') \subseteq dead']_cvars
NewestWins ==   \* an accepted put leaves exactly: the old cache minus everything it overlaps, plus itself
  [][\A r \in cache' \ cache :
        /\ cache' = (cache \ AbsOverlaps(cache, r)) \cup {r}
        /\ \A o \in AbsOverlaps(cache, r) : o.id <= r.id]_cvars
RejectedPutIsNoop == [][(lastReplaced' = FALSE /\ cache' # cache) => cache' \subseteq cache]_cvars

----------------------------------------------------------------------------
(* Implementation layer: the B-tree as a sequence sorted by region name     *)

Sorted(c) == SortSeq(SetToSeq(c), LAMBDA a, b : TupleCmp(NameOf(a), NameOf(b)) < 0)

(* number of entries that sort before the search key = where Seek lands *)
SeekPos(s, t, k) == Cardinality({i \in 1..Len(s) : TupleCmp(NameOf(s[i]), SearchName(t, k)) < 0})

(* caches.go: getOverlaps.  After Seek the enumerator is stepped back one   *)
(* (re-seeking the first entry when that falls off the front), the entry    *)
(* there is taken if it overlaps, and then entries are taken going forward  *)
(* for as long as they overlap.                                             *)
ImplOverlaps(c, r) ==
  IF c = {} THEN {}
  ELSE
  LET s == Sorted(c)
      n == Len(s)
      p == SeekPos(s, r.table, r.start)
      first == IF p = 0 THEN 1 ELSE p
      \* last index of the run of overlapping entries that follows `first'
      Run == {j \in (first + 1)..n : \A m \in (first + 1)..j : Overlap(s[m], r)}
  IN  (IF Overlap(s[first], r) THEN {s[first]} ELSE {}) \cup {s[j] : j \in Run}

(* rpc.go: getRegionFromCache = keyRegionCache.get (Seek, Prev) + checks *)
ImplGet(c, t, k) ==
  LET s == Sorted(c)
      p == SeekPos(s, t, k)
  IN  IF p = 0 THEN NoRegion
      ELSE LET r == s[p]
           IN  IF r.table # t THEN NoRegion
               ELSE IF ~Unbounded(r.stop) /\ Lex(k, r.stop) >= 0 THEN NoRegion
               ELSE r
=============================================================================
