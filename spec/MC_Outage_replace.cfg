SPECIFICATION Spec
CONSTANTS
  Callers <- MC_Callers
  Three = FALSE
  MaxEst = 2
  MaxFaults = 3
  AllowClose = FALSE
  AllowSplit = TRUE
  StartCached = TRUE
  MarkBeforePut = TRUE
  AllowReplace = TRUE
  DelBeforeAvail = TRUE
INVARIANTS NoPanic OneEstablisher EstablisherOnlyWhileUnavailable StableEnd NoSendAfterReplace
