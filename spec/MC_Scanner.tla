------------------------------ MODULE MC_Scanner ------------------------------
(* All scenarios of the small scope in one run: 4 rows with 1-3 cells, 4 region layouts, 3 ranges per direction,   *)
(* both directions, partial results on/off.                                                                       *)
EXTENDS Scanner
RowsT == <<[key |-> <<0>>, n |-> 2], [key |-> <<0, 1>>, n |-> 3], [key |-> <<1>>, n |-> 1], [key |-> <<1, 0>>, n |-> 2]>>
Layouts == { <<>>, << <<1>> >>, << <<0, 1>>, <<1, 0>> >>, << <<0, 0>> >> }
FwdRanges == { [a |-> <<>>, b |-> <<>>], [a |-> <<0, 1>>, b |-> <<1, 0>>], [a |-> <<0, 0>>, b |-> <<1>>], [a |-> <<1>>, b |-> <<>>] }
RevRanges == { [a |-> <<1, 0>>, b |-> <<0>>], [a |-> <<1, 0, 0>>, b |-> <<>>], [a |-> <<1>>, b |-> <<0, 1>>], [a |-> <<0, 1, 7>>, b |-> <<>>] }
CONSTANTS PartialModes, RenewModes
Configs == {[rows |-> RowsT, splits |-> l, start |-> r.a, stop |-> r.b, reversed |-> FALSE, partial |-> p, renew |-> rn] : l \in Layouts, r \in FwdRanges, p \in PartialModes, rn \in RenewModes}
      \cup {[rows |-> RowsT, splits |-> l, start |-> r.a, stop |-> r.b, reversed |-> TRUE, partial |-> p, renew |-> rn] : l \in Layouts, r \in RevRanges, p \in PartialModes, rn \in RenewModes}
Init == cfg \in Configs /\ InitRest
Spec == Init /\ [][NextC]_vars
View == <<cfg, scn, nextId, startRow, curId, curReg, buf, closed, renewing, renewId, ticks, orphans, pc, acc, opening, outs, closeSent, cancelled, errors, ctxReported, userClosed, earlyEnded>>
=============================================================================
