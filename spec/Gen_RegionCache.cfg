SPECIFICATION Spec
CONSTANT Big = TRUE
VIEW View
CHECK_DEADLOCK FALSE
