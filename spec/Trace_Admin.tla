----------------------------- MODULE Trace_Admin -----------------------------
(* Recorded executions of the real admin client against the simulated       *)
(* master, validated against Admin.tla: which requests the master saw       *)
(* (the operation, every getProcedureResult with its virtual time), when    *)
(* the context was cancelled, what the API call returned and when.          *)
EXTENDS Admin, Json
T == ndJsonDeserialize("admin_trace.ndjson")
VARIABLES i, lastPoll, lastEv
tvars == <<vars, i, lastPoll, lastEv>>

TInit == /\ scenario = [running |-> 0, outcome |-> "ok", submitFails |-> FALSE] /\ pc = "submit" /\ polls = 0 /\ waits = <<>>
         /\ ctxDone = FALSE /\ result = "none" /\ i = 1 /\ lastPoll = 0 /\ lastEv = <<>>

Reset(e) == /\ scenario' = [running |-> e.running, outcome |-> e.outcome, submitFails |-> e.submitFails]
            /\ pc' = "submit" /\ polls' = 0 /\ waits' = <<>> /\ ctxDone' = FALSE /\ result' = "none" /\ lastPoll' = 0

(* a poll seen by the master: the first one follows the submission at once, the k+1-th comes Var(k) ms after the k-th *)
PollSeen(e) ==
  /\ ~ctxDone
  /\ \/ /\ pc = "poll" /\ Poll /\ (polls = 0 => TRUE)
     \/ /\ pc = "sleep"
        /\ e.t - lastPoll = 1000 * Var(Len(waits) + 1)          \* microseconds of virtual time
        /\ waits' = Append(waits, Var(Len(waits) + 1))
        /\ polls' = polls + 1 /\ polls < MaxPolls
        /\ IF polls < scenario.running THEN pc' = "sleep" /\ UNCHANGED result ELSE Finish(scenario.outcome)
        /\ UNCHANGED <<scenario, ctxDone>>
  /\ polls' = e.n
  /\ lastPoll' = e.t

(* the API call returned: the model is at its verdict, or gets there by noticing the ended context *)
Returned(e) ==
  /\ \/ pc = "done" /\ UNCHANGED vars
     \/ pc = "submit" /\ Submit /\ pc' = "done"
     \/ pc = "poll" /\ ctxDone /\ Poll
     \/ pc = "sleep" /\ ctxDone /\ Sleep
  /\ result' = e.result
  /\ (e.result = "ctx" => e.t = e.cancelledAt)      \* promptly: no virtual time between the cancellation and the return
  /\ UNCHANGED lastPoll

TNext ==
  /\ i <= Len(T) /\ i' = i + 1 /\ lastEv' = <<T[i]>>
  /\ LET e == T[i] IN
     CASE e.ev = "adminStart" -> Reset(e)
       [] e.ev = "submitSeen" -> pc = "submit" /\ ~scenario.submitFails /\ Submit /\ pc' = "poll" /\ UNCHANGED lastPoll
       [] e.ev = "procPoll" -> PollSeen(e)
       [] e.ev = "cancel" -> Cancel /\ UNCHANGED lastPoll
       [] e.ev = "adminRet" -> Returned(e)
       [] OTHER -> UNCHANGED <<vars, lastPoll>>
TSpec == TInit /\ [][TNext]_tvars
Accepted == TLCGet("stats").diameter = Len(T) + 1
=============================================================================
