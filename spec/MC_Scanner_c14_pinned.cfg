SPECIFICATION Spec
CONSTANTS
  PartialModes = {FALSE}
  MaxCut = 2
  MaxErrors = 0
  AllowCancel = TRUE
  AllowUserClose = FALSE
  AllowEarlyEnd = FALSE
  MaxRenew = 0
  FixRenew = TRUE
  RenewModes = {FALSE}
  ErrorOnce = FALSE
VIEW View
INVARIANTS PrefixOfExpected ExactRowsAtEOF FragmentsConcatenate ErrorOnceThenEOF NoLeakedRegionScanner ClosedMeansNoCurrent
CHECK_DEADLOCK FALSE
