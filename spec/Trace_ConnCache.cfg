SPECIFICATION Spec
INVARIANTS DialsBounded QuiescentOK
POSTCONDITION Accepted
CHECK_DEADLOCK FALSE
