-------------------------- MODULE Trace_RequestLoop --------------------------
(* Contract view of the request loop (rpc.go: SendRPC / handleResultError)  *)
(* for C04 and C09: what each request met at the servers, attempt by        *)
(* attempt, and how it ended, against the classification table of           *)
(* ErrorClasses; and the state of the client at stable quiescent points.    *)
EXTENDS Integers, Sequences, FiniteSets, TLC, Json, ErrorClasses
T == ndJsonDeserialize("rl_trace.ndjson")
VARIABLES i, att, ended, lastQ, stable
vars == <<i, att, ended, lastQ, stable>>
Empty == [x \in {} |-> 0]
Ext(f, k, v) == [x \in DOMAIN f \cup {k} |-> IF x = k THEN v ELSE f[x]]
Init == i = 1 /\ att = Empty /\ ended = Empty /\ lastQ = <<>> /\ stable = FALSE
Next ==
  /\ i <= Len(T) /\ i' = i + 1
  /\ LET e == T[i] IN
     CASE e.ev = "reset" -> att' = Empty /\ ended' = Empty /\ lastQ' = <<>> /\ stable' = FALSE
       [] e.ev = "call" -> att' = Ext(att, e.id, <<>>) /\ UNCHANGED <<ended, lastQ, stable>>
       [] e.ev = "attempt" ->   \* the request reached a server: outcome = "ok" or the Java class it was answered with / "drop"
            att' = Ext(att, e.id, Append(IF e.id \in DOMAIN att THEN att[e.id] ELSE <<>>, [class |-> e.class, wal |-> e.wal]))
            /\ UNCHANGED <<ended, lastQ, stable>>
       [] e.ev = "ret" -> ended' = Ext(ended, e.id, [err |-> e.err, class |-> e.class]) /\ UNCHANGED <<att, lastQ, stable>>
       [] e.ev = "stable" -> stable' = TRUE /\ UNCHANGED <<att, ended, lastQ>>
       [] e.ev = "quiesce" -> lastQ' = <<e>> /\ UNCHANGED <<att, ended, stable>>
       [] OTHER -> UNCHANGED <<att, ended, lastQ, stable>>
Spec == Init /\ [][Next]_vars

KindOf(a) == IF a.class = "ok" THEN "ok" ELSE IF a.class = "drop" THEN "server" ELSE Classify(a.class, a.wal)
(* only a retryable outcome is followed by another attempt; an application error is never retried *)
RetriesJustified ==
  \A id \in DOMAIN att : \A k \in 1..(Len(att[id]) - 1) : KindOf(att[id][k]) \in {"retryable", "notserving", "server"}
(* how a request ends is what its last attempt met: success, or that very application exception, unchanged *)
EndsAsLastAttempt ==
  \A id \in DOMAIN ended :
     LET a == att[id] IN
       /\ ended[id].err = "none" => (a # <<>> /\ KindOf(a[Len(a)]) = "ok")
       /\ ended[id].err = "app" => (a # <<>> /\ KindOf(a[Len(a)]) = "other" /\ ended[id].class = a[Len(a)].class)
       /\ ended[id].err \in {"none", "app", "tableNotFound"}       \* with a live context nothing else may surface
(* once the cluster is stable and the client quiescent: nobody blocked, no cached region unavailable *)
StableQuiescence ==
  (stable /\ lastQ # <<>>) => (lastQ[1].blocked = <<>> /\ lastQ[1].unavailable = <<>>)
Accepted == TLCGet("stats").diameter = Len(T) + 1
=============================================================================
