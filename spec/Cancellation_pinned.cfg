SPECIFICATION Spec
CONSTANT FixOwnCtx = FALSE
INVARIANTS CancelEnabled CallCancelEnabled
PROPERTY CancelledReturns
CHECK_DEADLOCK FALSE
