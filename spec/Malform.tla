------------------------------- MODULE Malform -------------------------------
(* Property C11: which ways a response (or a hbase:meta row) can be         *)
(* malformed, and what the client may do about each.                        *)
(*                                                                          *)
(* The response grammar is a tree of length / count / index fields:         *)
(*   frame:  int32 len | varint h | ResponseHeader{call_id, exception{class,*)
(*           stack}, cell_block_meta{length}} | varint r | Response |       *)
(*           cellblock = cell*                                              *)
(*   cell:   int32 kvLen | int32 keyLen | int32 valLen | int16 rowLen | row *)
(*           | int8 famLen | family | qualifier | ts | type | value         *)
(*   get / mutate: Result{associated_cell_count}                            *)
(*   scan:   cells_per_result[], partial_flag_per_result[]                  *)
(*   multi:  RegionActionResult[]{exception | ResultOrException[]{index,    *)
(*           result | exception}}                                           *)
(*   region-info cell value: "PBUF" RegionInfo{table_name, ...}             *)
(* A case is (kind of outstanding call, field, operator).                   *)
EXTENDS Integers, FiniteSets, TLC, Json, SequencesExt

Kinds == {"get", "mutate", "scan", "multi"}
Common == { <<"header", "truncated">>, <<"header", "garbage">>, <<"callId", "missing">>, <<"callId", "unknown">>,
            <<"cellblockLen", "minus1">>, <<"cellblockLen", "plus1">>, <<"cellblockLen", "frameSize">>, <<"cellblockLen", "beyondFrame">>,
            <<"cellblockLen", "huge">>, <<"cellblockLen", "missing">>,
            <<"exception", "noClass">>, <<"exception", "noStack">>, <<"exception", "noBoth">>,
            <<"body", "truncated">>, <<"body", "garbage">>, <<"body", "empty">>, <<"body", "missingDelimiter">>,
            <<"cell.kvLen", "zero">>, <<"cell.kvLen", "minus1">>, <<"cell.kvLen", "plus1">>, <<"cell.kvLen", "max">>,
            <<"cell.keyLen", "zero">>, <<"cell.keyLen", "plus1">>, <<"cell.keyLen", "max">>,
            <<"cell.valLen", "plus1">>, <<"cell.valLen", "max">>,
            <<"cell.keyValLen", "keyMinusK_valPlusK">>, <<"cell.keyValLen", "keyPlusK_valMinusK">>,
            <<"cell.rowLen", "plus1">>, <<"cell.rowLen", "max">>,
            <<"cell.famLen", "plus1">>, <<"cell.famLen", "max">>,
            <<"cellblock", "everyPrefix">>, <<"cellblock", "trailingGarbage">>,
            <<"cellCount", "plus1">>, <<"cellCount", "minus1">>, <<"cellCount", "huge">>,
            \* counts n for which n * k wraps around 2^32 to a small number (k = plausible per-cell sizes): a size check done in
            \* 32-bit arithmetic lets them through, and the count is then taken at its word
            <<"cellCount", "wrap8">>, <<"cellCount", "wrap16">>, <<"cellCount", "wrap24">>, <<"cellCount", "wrap32">>, <<"cellCount", "wrap48">>,
            \* the count is a SIGNED 32-bit field of the protocol: a negative count is a count like any other wrong one
            <<"cellCount", "neg1">>, <<"cellCount", "neg3">>, <<"cellCount", "minInt">> }
ScanOnly == { <<"partialFlags", "shorter">>, <<"partialFlags", "longer">>, <<"partialFlags", "missing">> }
MultiOnly == { <<"index", "zero">>, <<"index", "outOfRange">>, <<"index", "hole">>, <<"index", "duplicate">>,
               <<"result", "omitted">>, <<"result", "both">>, <<"result", "neither">>,
               <<"regionResults", "extra">>, <<"regionResults", "fewer">>, <<"regionResults", "exceptionWithResults">>,
               <<"regionResults", "exceptionNoName">>, <<"actionException", "noName">>,
               \* an entry that carries an exception instead of a result, with a bad index (first / last entry of its region)
               <<"excIndex", "zero">>, <<"excIndex", "missing">>, <<"excIndex", "outOfRange">>, <<"excIndex", "hole">>,
               <<"excIndex", "duplicate">>,
               <<"excIndexLast", "zero">>, <<"excIndexLast", "missing">>, <<"excIndexLast", "outOfRange">>, <<"excIndexLast", "hole">>,
               <<"excIndexLast", "duplicate">>, <<"excIndex", "serverFatalClass">>, <<"excIndexLast", "serverFatalClass">> }
RegionInfoCases == { <<"value", "empty">>, <<"value", "len1">>, <<"value", "len3">>, <<"value", "badMagic">>, <<"value", "badProto">>,
                     <<"value", "noTableName">>, <<"row", "noCells">>, <<"server", "empty">> }
Cases == {[kind |-> k, field |-> c[1], op |-> c[2]] : k \in Kinds, c \in Common}
      \cup {[kind |-> "scan", field |-> c[1], op |-> c[2]] : c \in ScanOnly}
      \cup {[kind |-> "multi", field |-> c[1], op |-> c[2]] : c \in MultiOnly}
      \cup {[kind |-> "regioninfo", field |-> c[1], op |-> c[2]] : c \in RegionInfoCases}

(* ---- client level: the response decodes (a valid protobuf, a consistent cellblock) but what it says is inconsistent in a *)
(* way that only its CONSUMER can notice: scanner.Next (row assembly), the hbase:meta lookup (ParseRegionInfo, the region   *)
(* cache ordered by region.Compare), Increment / CheckAndPut (look into the returned cells / flags).  A healthy cluster     *)
(* answers the nth request of one public API call with such a response.                                                   *)
ScanConsumerCases == { "more-partial-flags-than-results/last-real-partial", "more-partial-flags-than-results/last-real-complete",
                       "fewer-partial-flags-than-results", "result-with-zero-cells-flagged-partial", "only-zero-cell-results",
                       "no-scanner-id-but-more-in-region", "no-flags-at-all", "results-in-protobuf-AND-cellblock-counts",
                       "cells-of-two-rows-in-one-result",
                       (* optional fields nobody asked for: well-formed, and a server is free to send them *)
                       "unsolicited-scan-metrics", "scan-metrics-entry-without-name-and-value", "heartbeat-flag-with-results" }
MetaRowCases == { "row-key-without-any-comma", "row-key-with-one-comma", "row-key-empty", "row-key-of-another-table",
                  "no-server-column", "server-without-port", "server-empty", "only-the-server-column", "regioninfo-twice",
                  "zero-cell-row", "more-partial-flags-than-results", "unsolicited-scan-metrics" }
ClientCases ==
       {[api |-> a, target |-> "scan", case |-> c] : a \in {"scan", "scan-partial"}, c \in ScanConsumerCases}
  \cup {[api |-> a, target |-> "meta", case |-> c] : a \in {"get", "scan", "batch", "cacheregions"}, c \in MetaRowCases}
  \cup {[api |-> "increment", target |-> "increment", case |-> c] : c \in {"value-shorter-than-8-bytes", "no-cells", "no-result", "empty-value"}}
  \cup {[api |-> "checkandput", target |-> "checkandput", case |-> "no-processed-flag"],
        [api |-> "get", target |-> "get", case |-> "no-result"], [api |-> "get", target |-> "get", case |-> "no-message"],
        [api |-> "get", target |-> "get", case |-> "wrong-message-type"], [api |-> "put", target |-> "put", case |-> "wrong-message-type"],
        [api |-> "put", target |-> "put", case |-> "result-with-cells-unsolicited"], [api |-> "get", target |-> "get", case |-> "exists-flag-without-cells"]}
(* what the driver observes of the API call and of the client afterwards *)
ClientOrderly(o) == ~o.panicked /\ o.returned /\ o.usableAfterwards

(* what may be observed after the frame has been handed to the reader:                                           *)
(*   panicked / spun            never                                                                             *)
(*   connFailed                 the stream is unusable: the connection is failed in the orderly way of C03       *)
(*   completed[c] in 0..2       results put on call c's channel                                                   *)
(*   stillRegistered            the item is still in the sent map (the orderly failure will complete it)         *)
Orderly(o, calls) ==
  /\ ~o.panicked /\ ~o.spun
  /\ \A c \in calls : o.completed[c] <= 1
  /\ IF o.connFailed
     THEN o.stillRegistered \/ \A c \in calls : o.completed[c] = 1
     ELSE \A c \in calls : o.completed[c] = 1      \* a result or an error for every affected caller
=============================================================================
