------------------------- MODULE MC_RegionCachePut -------------------------
(* keyRegionCache.put by several establishers at once.  The search for the  *)
(* regions a new one overlaps and the change of the tree are ONE critical   *)
(* section (AtomicPut = TRUE, the code).  Split into a search and a later   *)
(* change (AtomicPut = FALSE: the search under a read lock, the change      *)
(* under the write lock - every access still locked, no data race) two      *)
(* puts that searched the same tree both go in: NoOverlap is violated.      *)
(* Driver: C08 "simultaneous puts" (generations of one range; a parent,     *)
(* its daughters and their daughters).                                      *)
EXTENDS RegionCache, TLC
CONSTANT AtomicPut
VARIABLE pending    \* puts that have searched the tree and not changed it yet
TA == <<97>>
R(s, e, i) == [obj |-> 0, table |-> TA, start |-> s, stop |-> e, id |-> i]
Universe == {R(<<98>>, <<102>>, 1), R(<<98>>, <<102>>, 2), R(<<98>>, <<100>>, 3), R(<<100>>, <<102>>, 3), R(<<98>>, <<102>>, 4)}
Search(r) ==
  /\ Cardinality(pending) < 2 /\ \A p \in pending : p.r # r
  /\ pending' = pending \cup {[r |-> r, ov |-> AbsOverlaps(cache, r), same |-> {o \in cache : SameName(o, r)}]}
  /\ UNCHANGED cvars
Change(p) ==
  /\ pending' = pending \ {p}
  /\ lastGet' = lastGet /\ lastOp' = "put" /\ lastOverlaps' = p.ov
  /\ IF p.same # {} \/ \E o \in p.ov : o.id > p.r.id
     THEN lastReplaced' = FALSE /\ UNCHANGED <<cache, dead>>
     ELSE cache' = (cache \ p.ov) \cup {p.r} /\ dead' = dead \cup p.ov /\ lastReplaced' = TRUE
Next == IF AtomicPut THEN (\E r \in Universe : Put(r)) /\ UNCHANGED pending
        ELSE (\E r \in Universe : Search(r)) \/ (\E p \in pending : Change(p))
Spec == Init /\ pending = {} /\ [][Next]_<<cvars, pending>>
View == <<cache, pending>>
(* the newest generation of a range that was put is the one that stays: nothing cached is older than a dead region it overlaps *)
NewestStays == \A a \in cache, d \in dead : (Overlap(a, d) /\ ~SameName(a, d)) => a.id >= d.id
=============================================================================
