---------------------------- MODULE Trace_Routing ----------------------------
(* B2: executions of the real client against the simulated cluster.  For    *)
(* every API call the requests the servers executed must be at the owner of *)
(* the key (region name in the request, server it arrived at), and          *)
(* hbase:meta must have been asked - with the search key of that very key - *)
(* exactly when the owner was not known yet.                                *)
EXTENDS Routing, TLC, Json, Sequences
T == ndJsonDeserialize("c01_trace.ndjson")
VARIABLES i, layout, known, cur, metas, execs, lastCall
vars == <<i, layout, known, cur, metas, execs, lastCall>>
None == [op |-> "none"]
Init == i = 1 /\ layout = {} /\ known = {} /\ cur = None /\ metas = <<>> /\ execs = <<>> /\ lastCall = <<>>
ToSet(s) == {s[j] : j \in 1..Len(s)}
Next ==
  /\ i <= Len(T) /\ i' = i + 1
  /\ LET e == T[i] IN
     CASE e.ev = "reset" -> layout' = {} /\ known' = {} /\ cur' = None /\ metas' = <<>> /\ execs' = <<>> /\ lastCall' = <<>>
       [] e.ev = "region" -> /\ layout' = layout \cup {[name |-> e.name, table |-> e.table, start |-> e.start, stop |-> e.stop,
                                                          id |-> e.id, host |-> e.host]}
                             /\ UNCHANGED <<known, cur, metas, execs, lastCall>>
       [] e.ev = "apiCall" -> /\ cur' = [op |-> e.op, table |-> e.table, keys |-> e.keys]
                              /\ metas' = <<>> /\ execs' = <<>> /\ lastCall' = <<>> /\ UNCHANGED <<layout, known>>
       [] e.ev = "metaScan" -> metas' = Append(metas, e.start) /\ lastCall' = <<>> /\ UNCHANGED <<layout, known, cur, execs>>
       [] e.ev = "exec" -> /\ execs' = IF e.probe THEN execs ELSE Append(execs, [region |-> e.region, server |-> e.server, row |-> e.row])
                           /\ lastCall' = <<>> /\ UNCHANGED <<layout, known, cur, metas>>
       [] e.ev = "apiRet" -> /\ lastCall' = <<[call |-> cur, metas |-> metas, execs |-> execs, err |-> e.err, knownBefore |-> known]>>
                             /\ known' = known \cup {Owner(layout, cur.table, cur.keys[j]).name : j \in 1..Len(cur.keys)}
                             /\ cur' = None /\ metas' = <<>> /\ execs' = <<>> /\ UNCHANGED layout
       [] OTHER -> UNCHANGED <<layout, known, cur, metas, execs, lastCall>>
Spec == Init /\ [][Next]_vars

(* evaluated in the state right after an apiRet *)
CallOK ==
  lastCall # <<>> =>
    LET c == lastCall[1]
        ks == c.call.keys
        owners == [j \in 1..Len(ks) |-> Owner(layout, c.call.table, ks[j])]
        missing == {j \in 1..Len(ks) : owners[j].name \notin c.knownBefore}
    IN /\ c.err = "none"
       \* every key was executed exactly once, at its owner: region named in the request and server it was sent to
       /\ Len(c.execs) = Len(ks)
       /\ \A j \in 1..Len(ks) : \E x \in 1..Len(c.execs) :
             c.execs[x].row = ks[j] /\ c.execs[x].region = owners[j].name /\ c.execs[x].server = owners[j].host
       \* known range => routed from the cache; unknown => hbase:meta asked for exactly that key
       /\ (missing = {} => c.metas = <<>>)
       /\ \A j \in missing : \E m \in 1..Len(c.metas) : \E j2 \in missing :
             owners[j2] = owners[j] /\ c.metas[m] = SearchKeyBytes(c.call.table, ks[j2])
       /\ \A m \in 1..Len(c.metas) : \E j \in missing : c.metas[m] = SearchKeyBytes(c.call.table, ks[j])
Accepted == TLCGet("stats").diameter = Len(T) + 1
=============================================================================
