import sys, os, re
sys.path.insert(0, os.path.dirname(os.path.abspath(__file__))); import vlib
mod=sys.argv[1]; cfg=sys.argv[2] if len(sys.argv)>2 and sys.argv[2].endswith('.cfg') else None
kw={}
for a in sys.argv[2:]:
    if '=' in a:
        k,v=a.split('=',1); kw[k]=int(v) if v.isdigit() else (v=='True' if v in('True','False') else v)
r=vlib.run_tlc(mod,cfg,timeout=kw.pop('timeout',1200),**kw)
print(mod,cfg,'ok=',r['ok'],'gen=',r['generated'],'distinct=',r['distinct'],'depth=',r['depth'],'violated=',r['violated'],'err=',r['error'],'wall=',round(r['wall_s'],1))
if not r['ok']:
    out=r['out']
    i=out.find('Error:')
    lines=[l for l in out[i if i>=0 else 0:].splitlines() if not l.startswith(('Parsing file','Semantic processing'))]
    print("\n".join(lines[:int(os.environ.get('N','80'))]))
