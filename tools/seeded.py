#!/usr/bin/env python3
"""tools/seeded.py <ID> <check ids...>: take the seeded change left in /tmp/mut/<ID>, verify it independently in a scratch
worktree (suite passes with it, demo fails with it and passes without), run the given checks against it in /repo, and file
it under /verif/seeded/<ID>/ (patch.diff, demo, meta.json)."""
import json, os, shutil, subprocess, sys, tempfile, time
ID = sys.argv[1]; checks = sys.argv[2:] or [ID.split('-')[0]]
src = os.environ.get("SEED_SRC") or "/tmp/mut/" + ID
env = dict(os.environ, GOFLAGS="-mod=mod", GOPROXY="off", GOSUMDB="off", GOTOOLCHAIN="local")
def sh(cmd, cwd=None, timeout=1800):
    p = subprocess.run(cmd, shell=True, cwd=cwd, env=env, stdout=subprocess.PIPE, stderr=subprocess.STDOUT, text=True, timeout=timeout)
    return p.returncode, p.stdout
rc, patch = sh("git diff", cwd=src)
assert patch.strip(), "no library change in " + src
demos = [f for f in subprocess.run("git ls-files --others --exclude-standard", shell=True, cwd=src, stdout=subprocess.PIPE, text=True).stdout.split() if f.endswith("_test.go")]
assert demos, "no demo test file"
scratch = tempfile.mkdtemp(prefix="seedchk-")
wt = os.path.join(scratch, "wt")
sh("git -C /repo worktree add -q --detach %s HEAD" % wt)
res = {}
try:
    open(os.path.join(scratch, "p.diff"), "w").write(patch)
    # (a) suite with the change, without the demo
    rc, out = sh("git apply %s/p.diff && go build ./... && go test -vet=off -count=1 ./..." % scratch, cwd=wt)
    res["suite_with_change"] = "pass" if rc == 0 and "FAIL" not in out else "FAIL"
    # (b) demo with the change
    for d in demos:
        os.makedirs(os.path.dirname(os.path.join(wt, d)) or wt, exist_ok=True)
        shutil.copy(os.path.join(src, d), os.path.join(wt, d))
    pkgs = " ".join(sorted({"./" + (os.path.dirname(d) or ".") for d in demos}))
    rc, out = sh("go test -vet=off -count=1 -run TestSeededDemo %s" % pkgs, cwd=wt, timeout=600)
    res["demo_with_change"] = "fails" if rc != 0 else "PASSES"
    res["demo_output_tail"] = out[-600:]
    # (c) demo without the change
    rc, out = sh("git apply -R %s/p.diff && go test -vet=off -count=1 -run TestSeededDemo %s" % (scratch, pkgs), cwd=wt, timeout=600)
    res["demo_without_change"] = "passes" if rc == 0 else "FAILS"
finally:
    sh("git -C /repo worktree remove --force %s" % wt); shutil.rmtree(scratch, ignore_errors=True)
print(json.dumps({k: v for k, v in res.items() if k != "demo_output_tail"}))
valid = res.get("suite_with_change") == "pass" and res.get("demo_with_change") == "fails" and res.get("demo_without_change") == "passes"
det = {}
if valid:
    assert subprocess.run("git -C /repo status --porcelain", shell=True, stdout=subprocess.PIPE, text=True).stdout.strip() == "", "/repo not clean"
    pf = "/tmp/seed-%s.diff" % ID; open(pf, "w").write(patch)
    try:
        rc, out = sh("git -C /repo apply " + pf); assert rc == 0, out
        for c in checks:
            t0 = time.time()
            rc, out = sh("bin/check %s --tier quick" % c, cwd="/verif", timeout=3000)
            first = [l for l in out.splitlines() if l.startswith(("VIOLATION", "  ", "MACHINERY", "OK"))][:3]
            det[c] = dict(exit=rc, seconds=round(time.time() - t0), first=[f[:300] for f in first])
            print(c, "exit", rc, first[1][:200] if len(first) > 1 else first[:1])
    finally:
        sh("git -C /repo checkout -- ."); os.remove(pf)
od = "/verif/seeded/" + ID
os.makedirs(od, exist_ok=True)
open(od + "/patch.diff", "w").write(patch)
for d in demos: shutil.copy(os.path.join(src, d), od + "/" + os.path.basename(d))
if os.path.exists(src + "/SEEDED.md"): shutil.copy(src + "/SEEDED.md", od + "/SEEDED.md")
meta = dict(id=ID, breaks_property=ID.split('-')[0], valid=valid, verification=res, checks_run=det,
            detected_by=[c for c, v in det.items() if v["exit"] == 1], author="independent sub-agent given only the property text")
json.dump(meta, open(od + "/meta.json", "w"), indent=1)
print("valid" if valid else "INVALID", "detected_by", meta["detected_by"])
