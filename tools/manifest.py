"""Regenerates MANIFEST.json from the table below (keeps it schema-valid)."""
import json, os, sys
V = os.path.dirname(os.path.dirname(os.path.abspath(__file__)))
props = [json.loads(l) for l in open(os.path.join(V, "properties.jsonl"))]
sys.path.insert(0, os.path.join(V, "tools"))
from claims import CLAIMS, NOT_APPLICABLE, HOOK_COMMITS
checks = []
for p in props:
    pid = p["id"]
    if pid not in CLAIMS:
        continue
    c = CLAIMS[pid]
    checks.append(dict(property_id=pid, quick_cmd="bin/check %s --tier quick" % pid,
                       thorough_cmd="bin/check %s --tier thorough" % pid,
                       evidence_file="/verif/evidence/%s.json" % pid,
                       replay_cmd_template="bin/check replay {path}", engine="tlc+go-harness",
                       level_claimed=dict(category=c["level"], text=c["text"], design_ref=c.get("ref", "DESIGN.md section 5/" + pid)),
                       level_note=c["note"], technique=c["technique"]))
na = [dict(property_id=p["id"], reason=NOT_APPLICABLE.get(p["id"], "check not built yet (work in progress)"))
      for p in props if p["id"] not in CLAIMS]
m = dict(version=1, setup_cmd="bin/setup",
         hooks=dict(guard="verif", enable="go test -tags verif (the checks add -tags verif and -overlay themselves)",
                    baseline_off_cmd="cd /repo && go test -vet=off -count=1 -timeout 25m ./...",
                    source_commits=HOOK_COMMITS, add_only=True),
         engines=[dict(name="tlc+go-harness", path="/verif/bin/check", serves_properties=sorted(CLAIMS),
                       kind_free_text="explicit TLA+ specifications (spec/*.tla) model-checked with TLC; bound to the code by "
                       "replaying TLC-generated cases into the real packages (go test -overlay) and by validating traces "
                       "recorded from the real code against trace specifications")],
         checks=checks, notes="see DESIGN.md; known findings in known_findings.json", not_applicable=na)
json.dump(m, open(os.path.join(V, "MANIFEST.json"), "w"), indent=1)
print("MANIFEST.json: %d checks, %d not_applicable" % (len(checks), len(na)))
