"""Shared by the region-client properties (C02, C03, C05, C18): run a driver, validate its trace with Trace_RegionClient."""
import json, os, re
import vlib


def run_driver(chk, test, result_file, env, timeout=1500, race=True):
    wd = vlib.scratch("verif-rc-")
    e = dict(VERIF_OUT=wd, VERIF_SEED=str(chk.seed))
    e.update(env)
    t = vlib.go_test("region", "^%s$" % test, env=e, timeout=timeout, race=race)
    resf = os.path.join(wd, result_file)
    if "panic: " in t["out"] and not os.path.exists(resf):
        v = vlib.classify_panic(t["out"])
        if v is None:
            raise vlib.MachineryError("%s: the harness itself panicked:\n%s" % (test, t["out"][-3000:]))
        return wd, dict(scenarios=0, distinct=0, events=0, samples=[], violations=[v]), t
    if not os.path.exists(resf):
        raise vlib.driver_failed("%s produced no result" % test, t["out"])
    res = json.load(open(resf))
    if t["rc"] != 0:
        # the test binary failed although a (partial) result was written: a data race report or a crash
        out = t["out"]
        if "WARNING: DATA RACE" in out:
            v = vlib.classify_race(out)       # both conflicting accesses are the client's own code (whoever called it)
            if v:
                res["violations"] = (res.get("violations") or []) + [v]
                return wd, res, t
            i = out.find("WARNING: DATA RACE")
            block = out[i:i + 3000]
            in_repo = [l for l in block.splitlines() if (vlib.REPO + "/") in l and "zz_verif" not in l]
            if in_repo and not [l for l in block.splitlines()[:12] if "zz_verif" in l]:
                res.setdefault("violations", None)
                res["violations"] = (res["violations"] or []) + [dict(sig="data-race", desc="race detector report in the client:\n" + block[:1500])]
                return wd, res, t
            # the harness only reads what the client delivered to it over a result channel: a client write that races with
            # rcResultTag (the function that looks at a delivered result) means the client still writes to memory it gave away
            for blk in out.split("WARNING: DATA RACE")[1:]:
                secs = blk.split("\n\n")[:2]
                if len(secs) < 2:
                    continue
                def kind(sec):
                    h = sec.strip().splitlines()[0].lower() if sec.strip() else ""
                    return "write" if "write at" in h else ("read" if "read at" in h else "")
                def frames(sec):
                    return re.findall(r"\n\s+(/\S+\.go):\d+", sec)
                for w, r_ in ((secs[0], secs[1]), (secs[1], secs[0])):
                    fw = [f for f in frames(w) if f.startswith(vlib.REPO + "/")]
                    # (the write happens in the client's own code - whoever called into the client; the read is the harness looking
                    # at a result it was given)
                    if kind(w) == "write" and kind(r_) == "read" and fw and "zz_verif" not in fw[0] and "verifsim" not in fw[0] \
                            and "rcResultTag" in r_:
                        res["violations"] = (res.get("violations") or []) + [dict(sig="delivered-result-overwritten",
                            desc="the client writes to memory of a result it has already delivered to a caller (race detector):\n"
                                 + ("WARNING: DATA RACE" + blk)[:1800])]
                        return wd, res, t
        raise vlib.MachineryError("%s: test binary failed (rc=%d):\n%s" % (test, t["rc"], out[-2500:]))
    return wd, res, t


def validate_trace(chk, wd, sig_prefix, chunk=4000):
    path = os.path.join(wd, "rc_trace.ndjson")
    lines = [l for l in open(path).read().splitlines() if l.strip()]
    if not lines:
        return 0
    chunks = vlib.split_trace(lines, chunk, reset_marker='"ev":"reset"')
    results = vlib.validate_chunks("Trace_RegionClient", "rc_trace.ndjson", chunks, parallel=8, timeout=900)
    ok_events = 0
    for r in results:
        res, ch = r["res"], chunks[r["chunk"]]
        chk.add_tlc(res)
        if res["violated"]:
            inv = str(res["violated"])
            fi = r["fail_index"] or 2
            upto = max(1, fi - 1)
            start = upto - 1
            while start > 0 and '"ev":"reset"' not in ch[start]:
                start -= 1
            hist = [json.loads(x) for x in ch[start:upto]]
            scen = hist[0].get("scenario", "?") if hist else "?"
            chk.violation("%s:%s" % (sig_prefix, inv), "scenario %s: the recorded execution of the real region client violates %s "
                          "of the contract specification at event %s" % (scen, inv, json.dumps(hist[-1])[:400]),
                          dict(kind="rc-trace", scenario=scen, invariant=inv, history=hist[-60:]))
            ok_events += upto
            continue
        vlib.tlc_must_pass(res, "Trace_RegionClient chunk %d" % r["chunk"])
        ok_events += len(ch)
    return ok_events
