#!/usr/bin/env python3
"""tools/seeded_all.py [ids...]: regression of the machinery itself. Every change kept under seeded/<id>/ is applied to a
scratch worktree of /repo (never to /repo), the check of the property it breaks is run against that worktree
(VERIF_REPO, evidence redirected to a scratch directory) and must exit 1; at the end the same checks must exit 0 on the
unchanged worktree. Prints one line per change; exit 0 iff every change is detected and the clean tree is quiet."""
import json, os, shutil, subprocess, sys, tempfile, time
V = os.path.dirname(os.path.dirname(os.path.abspath(__file__)))
ids = sys.argv[1:] or sorted(d for d in os.listdir(V + "/seeded") if os.path.exists(V + "/seeded/" + d + "/patch.diff"))
scratch = tempfile.mkdtemp(prefix="seedall-")
wt = scratch + "/wt"
subprocess.run("git -C /repo worktree add -q --detach %s HEAD" % wt, shell=True, check=True)
# the working tree of /repo may carry uncommitted edits: mirror them
diff = subprocess.run("git -C /repo diff", shell=True, stdout=subprocess.PIPE, text=True).stdout
if diff.strip():
    open(scratch + "/wip.diff", "w").write(diff)
    subprocess.run("git -C %s apply %s/wip.diff" % (wt, scratch), shell=True, check=True)
env = dict(os.environ, VERIF_REPO=wt, VERIF_EVID=scratch + "/evidence")
bad = 0
try:
    for i in ids:
        # (two changes filed under C02 break the positional contract of SendBatch results, which is property C07: see DESIGN.md 0A.6)
        prop = {"C02-e": "C07", "C02-g": "C07"}.get(i, i.split("-")[0])
        pf = "%s/seeded/%s/patch.diff" % (V, i)
        r = subprocess.run("git -C %s apply %s" % (wt, pf), shell=True, stdout=subprocess.PIPE, stderr=subprocess.STDOUT, text=True)
        if r.returncode != 0:
            print(i, "PATCH-DOES-NOT-APPLY", r.stdout.strip()[:200]); bad += 1
            continue
        t0 = time.time()
        p = subprocess.run([V + "/bin/check", prop, "--tier", "quick"], env=env, stdout=subprocess.PIPE, stderr=subprocess.STDOUT, text=True)
        first = [l for l in p.stdout.splitlines() if l.startswith("  ")][:1]
        print(i, "exit", p.returncode, "%ds" % (time.time() - t0), "DETECTED" if p.returncode == 1 else "MISSED", (first[0].strip()[:150] if first else ""), flush=True)
        if p.returncode != 1:
            bad += 1
        subprocess.run("git -C %s checkout -- . && git -C %s clean -fdq" % (wt, wt), shell=True, check=True)
        if diff.strip():
            subprocess.run("git -C %s apply %s/wip.diff" % (wt, scratch), shell=True, check=True)
finally:
    subprocess.run("git -C /repo worktree remove --force %s" % wt, shell=True)
    shutil.rmtree(scratch, ignore_errors=True)
print("seeded changes: %d, not detected: %d" % (len(ids), bad))
sys.exit(1 if bad else 0)
