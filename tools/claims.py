HOOK_COMMITS = []
NOT_APPLICABLE = {}
CLAIMS = {
 "C16": dict(level="model_checking",
   technique="TLA+ spec RegionName (tuple order + transcription of Compare) model-checked with TLC on all pairs of a small scope; TLC-sorted scope replayed into region.Compare; random observed pairs trace-validated by TLC",
   text="TLC proves on every pair (and every triple of a sub-scope) of the scope that the transcribed algorithm has the sign of the (table,start,id) tuple order; the real region.Compare is then checked on all ordered pairs of the TLC-sorted scope (775 names incl. search keys) and on seeded random well-formed names whose observed sign TLC validates against TupleCmp. Exhaustive small scope is the right level for a pure comparison function whose interesting cases are the bytes around ','.",
   note="assumes well-formed names (table and id without ','); scope constants in spec/MC_RegionName.tla; TLC and the Json community module are trusted"),
}
