HOOK_COMMITS = []
NOT_APPLICABLE = {}
CLAIMS = {
 "C16": dict(level="model_checking",
   technique="TLA+ spec RegionName (tuple order + transcription of Compare) model-checked with TLC on all pairs of a small scope; TLC-sorted scope replayed into region.Compare; random observed pairs trace-validated by TLC",
   text="TLC proves on every pair (and every triple of a sub-scope) of the scope that the transcribed algorithm has the sign of the (table,start,id) tuple order; the real region.Compare is then checked on all ordered pairs of the TLC-sorted scope (775 names incl. search keys) and on seeded random well-formed names whose observed sign TLC validates against TupleCmp. Exhaustive small scope is the right level for a pure comparison function whose interesting cases are the bytes around ','.",
   note="assumes well-formed names (table and id without ','); scope constants in spec/MC_RegionName.tla; TLC and the Json community module are trusted"),
 "C08": dict(level="model_checking",
   technique="TLA+ spec RegionCache (abstract interval semantics + transcription of the B-tree overlap walk and lookup) model-checked with TLC; every step of the real keyRegionCache over all reachable states of the scope and over random walks is trace-validated by TLC (Trace_RegionCache)",
   text="TLC explores every cache reachable by puts/removals over the scope and checks NoOverlap, NewestWins, RejectedPutIsNoop, EvictedAreDead and that the transcribed B-tree walk finds exactly the overlapping set. The real cache is then driven breadth-first through every reachable state of that scope (every put and del from every state) and through seeded random walks over arbitrary byte keys with >100 regions; each step's (overlaps, replaced, full contents, dead flags) must equal the specification's, with the invariants evaluated in every state.",
   note="region names unique ((table,start,id) determines stop); ids < 2^31 in the harness; TLC + Json module trusted"),
 "C10": dict(level="model_checking",
   technique="TLA+ spec KeyValue (byte layout + Denotes + transcriptions of both mutation encoders) model-checked with TLC over all mutation shapes; TLC-generated shapes, byte vectors and boundary-length vectors replayed into the real encoders/decoder and an independent decoder",
   text="TLC checks CellblockCells = ProtoCells = Denotes for all 852 mutation shapes; the same shapes (with the cell sets computed by the specification), 1701 KeyValue byte vectors and 315 boundary-length vectors are replayed into hrpc: real cellblock bytes, associated cell count, the client's own decoder, an independent decoder and the protobuf form under HBase's proto->cell rule must all give the specification's cells and byte counts.",
   note="HBase's server-side proto->cell rule is transcribed (not executed); contents at boundary sizes are seeded samples"),
}
