#!/bin/sh
# usage: wave.sh <srcdir> <suffix> ID:check1,check2 ...
src=$1; suf=$2; shift 2
cd /verif
for spec in "$@"; do
  id=${spec%%:*}; checks=$(echo ${spec#*:} | tr ',' ' ')
  echo "=== $id"; SEED_SRC=$src/$id python3 tools/seeded.py $id-$suf $checks 2>&1 | tail -4 | cut -c1-250
done
