"""Print a TLC counterexample tersely: action names, and chosen variables of the last state."""
import sys, os, re
sys.path.insert(0, os.path.dirname(os.path.abspath(__file__))); import vlib
mod, cfg = sys.argv[1], sys.argv[2]
show = sys.argv[3:] 
r = vlib.run_tlc(mod, cfg, timeout=900)
out = r['out']
print('violated=', r['violated'], 'distinct=', r['distinct'])
states = re.split(r'\nState \d+: ', out)
for st in states[1:]:
    head = st.splitlines()[0]
    m = re.match(r'<(\w+)(\([^)]*\))?', head)
    print('  ', (m.group(1) + (m.group(2) or '')) if m else head[:60])
last = states[-1] if len(states) > 1 else ''
for v in show:
    m = re.search(r'/\\ %s = (.*?)(?=\n/\\ |\n\n|\Z)' % v, last, re.S)
    if m: print(v, '=', ' '.join(m.group(1).split()))
