#!/bin/sh
# runs every registered quick (or $1) check on the current tree; prints one line per check
tier=${1:-quick}
for p in C01 C02 C03 C04 C05 C06 C07 C08 C09 C10 C11 C12 C13 C14 C15 C16 C17 C18 C19 C20; do
  s=$(date +%s); out=$(bin/check $p --tier $tier 2>&1); rc=$?
  echo "$p rc=$rc $(( $(date +%s) - s ))s $(echo "$out" | grep -E '^(OK|VIOLATION|MACHINERY|KNOWN)' | grep -v KNOWN | head -2 | cut -c1-160 | tr '\n' ' ')"
done
