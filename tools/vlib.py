"""Shared machinery for /verif checks: scratch dirs, TLC runner, Go harness
runner (overlay onto /repo's working tree), known findings, evidence."""
import atexit, glob, json, os, re, shutil, subprocess, sys, tempfile, time

VERIF = os.path.dirname(os.path.dirname(os.path.abspath(__file__)))
REPO = os.environ.get("VERIF_REPO", "/repo")
SPEC = os.path.join(VERIF, "spec")
HARNESS = os.path.join(VERIF, "harness")
EVID = os.environ.get("VERIF_EVID") or os.path.join(VERIF, "evidence")   # (VERIF_EVID: regression runs against seeded changes)
REPLAYS = os.path.join(EVID, "replays")
GO = os.environ.get("VERIF_GO", "go1.26.8")
NCPU = os.cpu_count() or 4

_scratch = []


def scratch(prefix="verif-"):
    d = tempfile.mkdtemp(prefix=prefix)
    _scratch.append(d)
    return d


@atexit.register
def _cleanup():
    if os.environ.get("VERIF_KEEP"):
        return
    for d in _scratch:
        shutil.rmtree(d, ignore_errors=True)


class MachineryError(Exception):
    """exit 2: the machinery could not decide (never a violation)."""


class ClientStall(Exception):
    """A scenario did not end (verifsim.Bubble's real-time limit) and the saved stacks show goroutines of the client blocked
    for ever on one of the client's own mutexes while nothing of the harness holds them up: a dead-lock in the code under
    test. Carries the violation (sig, desc)."""
    def __init__(self, sig, desc):
        Exception.__init__(self, desc)
        self.sig, self.desc = sig, desc


def classify_stall(text, pkg, run):
    """Stacks of a stalled scenario -> ClientStall (the client dead-locked) or MachineryError (anything else)."""
    gor = [g for g in text.split("\n\n") if g.startswith("goroutine ")]
    def client_frames(g):
        return [l.strip() for l in g.splitlines() if l.startswith("\t") and (REPO + "/") in l and "zz_verif" not in l
                and "/internal/verifsim/" not in l]
    # a goroutine of the client parked inside a harness hook (or a held connection operation) means the harness is what
    # keeps the others waiting: never a verdict
    for g in gor:
        if ("vhook(" in g or "verifsim.(*Conn).before" in g) and "[running" not in g.splitlines()[0]:
            return MachineryError("%s -run %s: a scenario stalled while the harness holds a goroutine of the client inside a hook:\n%s"
                                  % (pkg, run, g[:1500]))
    locked = [g for g in gor if re.match(r"goroutine \d+ \[sync\.(RW)?Mutex\.(R)?Lock", g) and client_frames(g)
              and "zz_verif" not in g.split("\n")[1] and "verifsim." not in g.split("\n")[1]]
    mine = []
    for g in locked:
        # the frame right under sync.(*Mutex).Lock must be the client's
        lines = g.splitlines()
        funcs = [l for l in lines[1:] if not l.startswith("\t")]
        callers = [f for f in funcs if not f.startswith(("sync.", "internal/", "runtime."))]
        if callers and "tsuna/gohbase" in callers[0] and "zz_verif" not in g.split(callers[0])[1].split("\n")[1] \
                and "verifsim" not in callers[0]:
            mine.append(g)
    if mine:
        where = sorted({re.sub(r"\(.*", "", [f for f in g.splitlines()[1:] if not f.startswith("\t") and not f.startswith(("sync.", "internal/", "runtime."))][0])
                        for g in mine})
        return ClientStall("client-deadlock:" + ",".join(w.split("/")[-1] for w in where)[:120],
                           "a scenario of %s never ended: %d goroutine(s) of the client are blocked for ever on a mutex of the client (%s) and nothing "
                           "of the harness holds them up:\n%s" % (run, len(mine), ", ".join(where), "\n\n".join(m[:900] for m in mine[:3])))
    # an explosion of goroutines of the client (tens of thousands started by the same function of the client): a loop of the
    # client that spawns without waiting. No driver starts goroutines in a loop; the scenario cannot end because the client
    # never comes to rest.
    starters = {}
    for g in gor:
        m = re.search(r"created by (github\.com/tsuna/gohbase[\w./()*]*)", g)
        if m and "zz_verif" not in g.split("created by")[-1] and "verifsim" not in m.group(1):
            starters[m.group(1)] = starters.get(m.group(1), 0) + 1
    if starters:
        fn, n = max(starters.items(), key=lambda kv: kv[1])
        if n >= 5000:
            return ClientStall("client-goroutine-explosion:" + fn.split("/")[-1], "a scenario of %s never ended: %d goroutines of the client started by %s "
                               "are alive at once (%d goroutines in all) - a loop of the client that starts goroutines without ever waiting" % (run, n, fn, len(gor)))
    return MachineryError("%s -run %s: a scenario did not end within the real-time limit and no dead-lock of the client explains it:\n%s"
                          % (pkg, run, text[:3000]))


def log(*a):
    print(*a, flush=True)


# ----------------------------------------------------------------------------
# TLC
# ----------------------------------------------------------------------------

def tlc_env():
    e = dict(os.environ)
    return e


def run_tlc(module, cfg=None, workers=None, timeout=600, simulate=None, depth=None,
            seed=None, extra=None, files=None, deque=False, heap=None, workdir=None,
            defines=None, coverage=False, nodeadlock=False):
    """Run TLC on spec/<module>.tla with spec/<cfg> in a scratch copy.

    files: dict name -> path of extra files copied next to the spec (traces).
    Returns dict(rc, out, generated, distinct, depth, violated, error, wall_s).
    """
    wd = workdir or scratch("verif-tlc-")
    for f in glob.glob(os.path.join(SPEC, "*.tla")) + glob.glob(os.path.join(SPEC, "*.cfg")):
        shutil.copy(f, wd)
    for name, path in (files or {}).items():
        dst = os.path.join(wd, name)
        if os.path.abspath(path) != os.path.abspath(dst):
            shutil.copy(path, dst)
    cfg = cfg or (module + ".cfg")
    meta = os.path.join(wd, "meta-" + module + "-" + str(os.getpid()) + "-" + str(int(time.time() * 1000) % 100000))
    cmd = ["java", "-XX:+UseParallelGC", "-Djava.io.tmpdir=" + wd]   # (TLC leaves a tlc-* directory per run in the JVM's tmpdir)
    cmd.append("-Xmx" + (heap or "10g"))
    cmd += ["-Xss256m"]
    if deque:
        cmd.append("-Dtlc2.tool.queue.IStateQueue=StateDeque")
    cmd += ["-cp", "/opt/veriftools/tla/tla2tools.jar:/opt/veriftools/tla/CommunityModules-deps.jar",
            "tlc2.TLC", "-metadir", meta, "-config", cfg,
            "-workers", str(workers or "auto")]
    if nodeadlock:
        cmd.append("-deadlock")
    if coverage:
        cmd += ["-coverage", "1"]
    if simulate is not None:
        cmd += ["-simulate", simulate]
        if depth:
            cmd += ["-depth", str(depth)]
    if seed is not None:
        cmd += ["-seed", str(seed)]
    cmd += list(extra or [])
    cmd.append(module + ".tla")
    t0 = time.time()
    try:
        p = subprocess.run(cmd, cwd=wd, env=tlc_env(), stdout=subprocess.PIPE, stderr=subprocess.STDOUT,
                           timeout=timeout, text=True, errors="replace")
        out, rc, timed_out = p.stdout, p.returncode, False
    except subprocess.TimeoutExpired as e:
        out = (e.stdout or b"")
        if isinstance(out, bytes):
            out = out.decode(errors="replace")
        rc, timed_out = -9, True
        subprocess.run(["pkill", "-f", meta], check=False)
    res = dict(rc=rc, out=out, wall_s=time.time() - t0, timed_out=timed_out, workdir=wd, cmd=" ".join(cmd))
    m = re.findall(r"(\d+) states generated, (\d+) distinct states found", out)
    if m:
        res["generated"], res["distinct"] = int(m[-1][0]), int(m[-1][1])
    else:
        res["generated"], res["distinct"] = 0, 0
    m = re.search(r"The depth of the complete state graph search is (\d+)", out)
    res["depth"] = int(m.group(1)) if m else 0
    res["violated"] = None
    m = re.search(r"Invariant (\S+) is violated", out)
    if m:
        res["violated"] = m.group(1)
    m = re.search(r"Action property (\S+) is violated|Temporal properties were violated|"
                  r"Error: Deadlock reached|Postcondition .* violated|Assumption .* is false", out)
    if m and not res["violated"]:
        res["violated"] = m.group(0)
    res["error"] = None
    if rc not in (0,) and not res["violated"]:
        em = re.search(r"(Error: .*|Exception.*|\*\*\* Errors.*)", out)
        res["error"] = em.group(1) if em else ("timeout" if timed_out else "rc=%d" % rc)
    res["ok"] = (rc == 0 and not res["violated"])
    return res


def tlc_must_pass(res, what):
    """A model run that must succeed on the model of the (fixed) design."""
    if res["ok"]:
        return
    tail = "\n".join([l for l in res["out"].splitlines() if not l.startswith(("Parsing file", "Semantic processing", "Linting of", "Progress("))][-40:])
    raise MachineryError("%s: TLC did not pass (violated=%s error=%s timed_out=%s)\n%s" % (
        what, res["violated"], res["error"], res["timed_out"], tail))


def tlc_printed_json(out, tag="@@J "):
    """JSON values printed by the spec via PrintT(<<"@@J", ...>>)-like lines."""
    vals = []
    for line in out.splitlines():
        i = line.find(tag)
        if i >= 0:
            vals.append(line[i + len(tag):])
    return vals


# ----------------------------------------------------------------------------
# Go harness
# ----------------------------------------------------------------------------

PKG_DIRS = {  # harness dir -> (repo dir, is test package file)
    "gohbase": ("", True),
    "region": ("region", True),
    "hrpc": ("hrpc", True),
    "simhbase": ("internal/verifsim", False),
}


def build_overlay(wd):
    repl = {}
    for hd, (rd, is_test) in PKG_DIRS.items():
        for f in sorted(glob.glob(os.path.join(HARNESS, hd, "*.go"))):
            base = os.path.basename(f)[:-3]
            if is_test:
                name = "zz_verif_%s_test.go" % base
            else:
                name = base + ".go"
            repl[os.path.join(REPO, rd, name)] = f
    path = os.path.join(wd, "overlay.json")
    with open(path, "w") as fh:
        json.dump({"Replace": repl}, fh)
    return path


def go_env(extra=None):
    e = dict(os.environ)
    e.update(GOFLAGS="-mod=mod", GOPROXY="off", GOSUMDB="off", GOTOOLCHAIN="local")
    e.setdefault("GOCACHE", os.path.expanduser("~/.cache/go-build-verif"))
    e.update(extra or {})
    return e


def go_test(pkg, run, env=None, timeout=900, race=False, wd=None, tags="verif", count=1, parallel=None,
            test_timeout=None, race_rerun=None):
    """Run overlaid harness tests of ./<pkg> in /repo's working tree.

    Returns dict(rc, out, wall_s). rc: 0 pass, 1 test failure, 2 build failure.

    race_rerun (default: for every package but region, whose drivers judge races themselves): a race report between two
    accesses of the client itself ends a scenario bubble - and with it the driver - at once (synctest.Test fails the outer
    test). A race is not by itself a verdict about the property, so the driver is run again WITHOUT the race detector and
    that run's observations decide; the race report is kept in the returned dict (client_race).
    """
    if race_rerun is None:
        race_rerun = pkg != "region"
    if race and race_rerun:
        r = go_test(pkg, run, env=env, timeout=timeout, race=True, wd=wd, tags=tags, count=count, parallel=parallel,
                    test_timeout=test_timeout, race_rerun=False)
        v = classify_race(r["out"]) if r["rc"] != 0 else None
        if not v:
            return r
        log("  go test %s -run %s: the race detector reports a race inside the client; running the driver again without it" % (pkg, run))
        outdir = (env or {}).get("VERIF_OUT")
        if outdir and os.path.isdir(outdir):
            for f in os.listdir(outdir):
                if f.endswith(("_result.json", ".ndjson")) and not (env or {}).get("VERIF_IN") == outdir:
                    os.remove(os.path.join(outdir, f))
        r2 = go_test(pkg, run, env=env, timeout=timeout, race=False, wd=None, tags=tags, count=count, parallel=parallel,
                     test_timeout=test_timeout, race_rerun=False)
        r2["client_race"] = v["desc"]
        return r2
    wd = wd or scratch("verif-go-")
    ov = build_overlay(wd)
    cmd = [GO, "test", "-vet=off", "-overlay=" + ov, "-count=%d" % count, "-run", run,
           "-timeout", test_timeout or ("%ds" % max(60, timeout - 10))]
    if tags:
        cmd += ["-tags", tags]
    if race:
        cmd.append("-race")
    if parallel:
        cmd += ["-parallel", str(parallel)]
    cmd.append("./" + pkg if pkg else ".")
    t0 = time.time()
    try:
        p = subprocess.run(cmd, cwd=REPO, env=go_env(env), stdout=subprocess.PIPE, stderr=subprocess.STDOUT,
                           timeout=timeout, text=True, errors="replace")
        out, rc = p.stdout, p.returncode
    except subprocess.TimeoutExpired as e:
        out = e.stdout or ""
        if isinstance(out, bytes):
            out = out.decode(errors="replace")
        raise MachineryError("go test %s -run %s timed out after %ss\n%s" % (pkg, run, timeout, out[-3000:]))
    stallf = os.path.join((env or {}).get("VERIF_OUT", ""), "stall.txt") if (env or {}).get("VERIF_OUT") else ""
    if stallf and os.path.exists(stallf):
        vf = os.path.join(os.path.dirname(stallf), "stall_verdict.json")
        if os.path.exists(vf):
            v = json.load(open(vf))     # the driver had observed this before the scenario stopped making progress
            kf = set()
            kpath = os.path.join(VERIF, "known_findings.json")
            if os.path.exists(kpath):
                kf = {f["signature"] for f in json.load(open(kpath)).get("findings", []) if f.get("status") == "open"}
            if v["sig"] in kf:
                # what the driver had seen is a listed finding: it says nothing about why this scenario stopped - the stall is
                # judged on its own (a listed finding never hides a different failure)
                raise classify_stall(open(stallf, errors="replace").read(), pkg, run)
            raise ClientStall(v["sig"], v["desc"] + "\n(and then a scenario never ended - goroutines that spin or never finish: " +
                              open(stallf, errors="replace").readline().strip()[:160] + ")")
        raise classify_stall(open(stallf, errors="replace").read(), pkg, run)
    if rc != 0 and ("[build failed]" in out or "[setup failed]" in out or re.search(r"^# ", out, re.M) and "FAIL" in out and "--- FAIL" not in out and "panic:" not in out):
        raise MachineryError("harness does not build against /repo's working tree:\n" + out[-4000:])
    return dict(rc=rc, out=out, wall_s=time.time() - t0)


# ----------------------------------------------------------------------------
# Findings, evidence, verdict
# ----------------------------------------------------------------------------

def known_findings(pid):
    path = os.path.join(VERIF, "known_findings.json")
    if not os.path.exists(path):
        return []
    data = json.load(open(path))
    return [f for f in data.get("findings", []) if f["property"] == pid and f.get("status") == "open"]


class Check:
    def __init__(self, pid, level, tier, seed):
        self.pid, self.level, self.tier, self.seed = pid, level, tier, seed
        self.t0 = time.time()
        self.cov = dict(states=0, transitions=0, traces_validated_against_impl=0, samples=[],
                        evaluations=0, distinct_nontrivial=0, rule="", exhaustive=False)
        self.assumptions = []
        self.violations = []   # (signature, description, replay_path)
        self.known_seen = []   # (signature, description)
        self.notes = []
        for old in glob.glob(os.path.join(REPLAYS, "%s-%s-*.json" % (pid, tier))):
            os.remove(old)   # replays of an earlier run of this check

    def add_tlc(self, res):
        self.cov["states"] += res.get("distinct", 0)
        self.cov["transitions"] += res.get("generated", 0)

    def sample(self, s, cap=6):
        if len(self.cov["samples"]) < cap:
            self.cov["samples"].append(s)

    def violation(self, signature, desc, replay_obj):
        """Record a real-code violation. Known findings are matched by signature."""
        if str(signature).startswith("harness:"):
            # the driver could not set its scenario up (a forced schedule was not reached, ...): never a verdict about the code
            raise MachineryError("driver problem (%s): %s" % (signature, desc))
        for f in known_findings(self.pid):
            if f["signature"] == signature:
                if all(k[0] != signature for k in self.known_seen):
                    self.known_seen.append((signature, f["what"]))
                return False
        if sum(1 for v in self.violations if v[0] == signature) >= 3:
            self.suppressed = getattr(self, "suppressed", 0) + 1
            return True
        os.makedirs(REPLAYS, exist_ok=True)
        n = len(self.violations) + 1
        path = os.path.join(REPLAYS, "%s-%s-%d.json" % (self.pid, self.tier, n))
        with open(path, "w") as fh:
            json.dump(dict(property=self.pid, signature=signature, description=desc, seed=self.seed,
                           tier=self.tier, replay=replay_obj), fh, indent=1, default=str)
        self.violations.append((signature, desc, path))
        return True

    def finish(self):
        os.makedirs(EVID, exist_ok=True)
        cov = dict(self.cov)
        if self.notes:
            cov["notes"] = self.notes
        if self.known_seen:
            cov["known_findings_reobserved"] = [k[0] for k in self.known_seen]
        ev = dict(property_id=self.pid, tier=self.tier, seed=self.seed, level=self.level, coverage=cov,
                  assumptions=self.assumptions, wall_s=round(time.time() - self.t0, 2),
                  violations=len(self.violations))
        with open(os.path.join(EVID, self.pid + ".json"), "w") as fh:
            json.dump(ev, fh, indent=1, default=str)
        for sig, what in self.known_seen:
            log("KNOWN-FINDING: property=%s %s" % (self.pid, what))
        for sig, desc, path in self.violations[:20]:
            log("VIOLATION property=%s replay=%s" % (self.pid, path))
            log("  " + desc.replace("\n", "\n  ")[:2000])
        if self.violations:
            return 1
        if not cov["traces_validated_against_impl"] and not cov["evaluations"]:
            # nothing of the real code was observed (a driver that died early behind a listed finding, ...): no verdict
            log("MACHINERY-ERROR property=%s: the check ended without having evaluated the real code at all" % self.pid)
            return 2
        log("OK property=%s tier=%s seed=%d states=%d traces=%d evaluations=%d wall=%.1fs" % (
            self.pid, self.tier, self.seed, cov["states"], cov["traces_validated_against_impl"],
            cov["evaluations"], time.time() - self.t0))
        return 0


def read_json_lines(path):
    out = []
    with open(path) as fh:
        for line in fh:
            line = line.strip()
            if line:
                out.append(json.loads(line))
    return out


# ----------------------------------------------------------------------------
# Trace validation in chunks (one JVM per chunk, several in parallel)
# ----------------------------------------------------------------------------
from concurrent.futures import ThreadPoolExecutor


def split_trace(lines, max_events, reset_marker='"ev":"reset"'):
    """Split at reset events so that every chunk starts from the initial state."""
    chunks, cur = [], []
    for ln in lines:
        if reset_marker in ln and len(cur) >= max_events:
            chunks.append(cur)
            cur = []
        cur.append(ln)
    if cur:
        chunks.append(cur)
    return chunks


def validate_chunks(module, trace_name, chunks, cfg=None, parallel=4, timeout=1200, deque=False, extra_files=None):
    """Returns list of dict(chunk=k, res=<run_tlc result>, fail_index=<value of i in the violating state or None>)."""
    def one(k):
        wd = scratch("verif-tr-")
        with open(os.path.join(wd, trace_name), "w") as fh:
            fh.write("\n".join(chunks[k]) + "\n")
        r = run_tlc(module, cfg, workers=1, timeout=timeout, workdir=wd, deque=deque, files=extra_files, heap="1500m")
        fi = None
        if r["violated"]:
            tail = r["out"][r["out"].find("is violated"):]
            m = re.findall(r"/\\ i = (\d+)", tail)
            if m:
                fi = int(m[-1])
        out = dict(chunk=k, res=r, fail_index=fi)
        if not os.environ.get("VERIF_KEEP"):
            shutil.rmtree(wd, ignore_errors=True)
        return out
    with ThreadPoolExecutor(max_workers=parallel) as ex:
        return list(ex.map(one, range(len(chunks))))


def classify_panic(out):
    """A Go panic in a harness run: returns a violation dict if the first non-runtime frame after the panic is
    in the code under test (/repo, not an overlaid zz_verif file), else None (harness bug)."""
    i = out.find("panic: ")
    if i < 0:
        return None
    block = out[i:i + 6000]
    msg = block.splitlines()[0]
    if "deadlock: " in msg and "bubble" in msg:
        return None   # goroutines left behind when a scenario function returned: the drivers check stranded callers themselves
    frames = re.findall(r"\n\t(/\S+\.go):(\d+)", block)
    for path, line in frames:
        if "/go1.26" in path or "/usr/lib/go" in path or "/src/runtime/" in path or "/src/testing/" in path or "/pkg/mod/" in path:
            continue
        if path.startswith(REPO + "/") and "zz_verif" not in path and "/internal/verifsim/" not in path:
            return dict(sig="client-panic", desc="the client panicked at %s:%s: %s\n%s" % (path, line, msg, block[:2000]))
        return None
    return None


def driver_failed(label, out, leak_is_violation=False):
    """What to raise when a driver ended without (usable) results: a panic whose innermost non-runtime frame is code of the
    client is the client's (a violation, reported like a stall verdict); anything else is the machinery's (exit 2).
    leak_is_violation (C19): a scenario bubble that cannot end because goroutines of the CLIENT (and only of the client) are
    blocked for ever after the scenario closed the client is "a goroutine left behind"."""
    v = classify_panic(out)
    if v:
        return ClientStall(v["sig"], v["desc"])
    if leak_is_violation and "deadlock: main bubble goroutine has exited but blocked goroutines remain" in out:
        gor = [g for g in out.split("\n\n") if g.startswith("goroutine ") and "synctest bubble" in g.splitlines()[0]]
        def client_only(g):
            fr = [l for l in g.splitlines()[1:] if l.startswith("\t")]
            return fr and all(("zz_verif" not in l and "/internal/verifsim/" not in l) for l in fr) and any((REPO + "/") in l for l in fr)
        if gor and all(client_only(g) for g in gor):
            fn = gor[0].splitlines()[1].split("(")[0].split("/")[-1]
            return ClientStall("goroutine-left-after-close:" + fn, "after the scenario had closed the client, %d goroutine(s) of the client stay blocked for "
                               "ever (the scenario's bubble cannot end):\n%s" % (len(gor), "\n\n".join(g[:700] for g in gor[:3])))
    return MachineryError(label + ":\n" + out[-3500:])


def classify_race(out):
    """A race-detector report: violation dict if both conflicting accesses are in the code under test, None if the
    harness is involved (a harness bug)."""
    i = out.find("WARNING: DATA RACE")
    if i < 0:
        return None
    block = out[i:i + 5000]
    secs = block.split("\n\n")
    tops = []
    for sec in secs[:2]:
        # the innermost frame that is not the Go runtime / standard library (a copy() shows as runtime.slicecopy)
        # ... nor a third-party library the client calls (the B-tree of its cache): the access is the caller's
        fr = [f for f in re.findall(r"\n\s+(/\S+\.go):\d+", sec) if "/src/runtime/" not in f and not re.search(r"/go[0-9.]*/src/", f) and "/pkg/mod/" not in f]
        tops.append(fr[0] if fr else "")
    def in_client(p):
        return p.startswith(REPO + "/") and "zz_verif" not in p and "/internal/verifsim/" not in p
    if len(tops) == 2 and all(in_client(p) for p in tops):
        return dict(sig="data-race", desc="the race detector reports a data race in the client (%s vs %s):\n%s" % (tops[0], tops[1], block[:2500]))
    return None
