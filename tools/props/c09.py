"""C09 - concurrent failures never crash the client or strand a waiting request. (Driver shared with C04.)"""
import json, os
import vlib

LEVEL = "model_checking"
C04_SIGS = ("rl-trace:RetriesJustified", "rl-trace:EndsAsLastAttempt")


def run_driver(chk, nrand):
    wd = vlib.scratch("verif-rl-")
    # (C09 is the property about what concurrent reporters of one outage do to the shared state: here a race report between two
    # accesses of the client IS a verdict - no re-run without the detector)
    t = vlib.go_test("", "^TestVerifRequestLoop$", env=dict(VERIF_OUT=wd, VERIF_SEED=str(chk.seed), VERIF_N=str(nrand)), timeout=1700, race=True,
                     race_rerun=False)
    resf = os.path.join(wd, "rl_result.json")
    viol = []
    if "WARNING: DATA RACE" in t["out"]:
        v = vlib.classify_race(t["out"])
        if v is None:
            i = t["out"].find("WARNING: DATA RACE")
            raise vlib.MachineryError("race inside the harness:\n" + t["out"][i:i + 3500])
        viol.append(v)
    if not os.path.exists(resf) or (t["rc"] != 0 and not viol):
        v = vlib.classify_panic(t["out"])
        if v:
            return dict(scenarios=0, distinct=0, samples=[], violations=[v], extra={}), wd
        raise vlib.driver_failed("request-loop driver failed", t["out"])
    res = json.load(open(resf))
    res["violations"] = (res["violations"] or []) + viol
    return res, wd


def validate(chk, wd):
    lines = [l for l in open(os.path.join(wd, "rl_trace.ndjson")).read().splitlines() if l.strip()]
    chunks = vlib.split_trace(lines, 3000)
    okev, out = 0, []
    for x in vlib.validate_chunks("Trace_RequestLoop", "rl_trace.ndjson", chunks, parallel=10, timeout=600):
        rr, ch = x["res"], chunks[x["chunk"]]
        chk.add_tlc(rr)
        if rr["violated"]:
            fi = x["fail_index"] or 2
            upto = max(1, min(len(ch), fi - 1))
            start = upto - 1
            while start > 0 and '"ev":"reset"' not in ch[start]:
                start -= 1
            hist = [json.loads(y) for y in ch[start:upto]]
            out.append(("rl-trace:" + str(rr["violated"]), "scenario %s violates %s: last events %s" % (
                hist[0].get("scenario"), rr["violated"], json.dumps(hist[-4:])[:700]), hist))
            okev += upto
            continue
        vlib.tlc_must_pass(rr, "Trace_RequestLoop")
        okev += len(ch)
    return okev, out, lines


def run(chk):
    thorough = chk.tier == "thorough"
    cfg = "MC_Outage.cfg" if thorough else "MC_Outage_quick.cfg"
    r = vlib.run_tlc("MC_Outage", cfg, timeout=1700)
    vlib.tlc_must_pass(r, cfg)
    chk.add_tlc(r)
    # the findRegion path (nobody knows the region yet): the code's order "mark unavailable, then publish" keeps one establisher;
    # the other order must produce TLC's counter-example (negative control of the model)
    na = vlib.run_tlc("MC_Outage", "MC_Outage_markafter.cfg", timeout=600)
    if na["violated"] != "OneEstablisher":
        raise vlib.MachineryError("MC_Outage_markafter: expected the OneEstablisher counter-example, got %r" % (na,))
    chk.cov["model_counterexample_publish_before_mark"] = str(na["violated"])
    if thorough:
        rm = vlib.run_tlc("MC_Outage", "MC_Outage_miss.cfg", timeout=1700)
        vlib.tlc_must_pass(rm, "MC_Outage_miss")
        chk.add_tlc(rm)
    if thorough:
        r2 = vlib.run_tlc("MC_Outage", "MC_Outage_close.cfg", timeout=1700)
        vlib.tlc_must_pass(r2, "MC_Outage_close")
        chk.add_tlc(r2)
    res, wd = run_driver(chk, 600 if thorough else 80)
    for v in res["violations"] or []:
        if v["sig"] in ("request-misrouted", "request-failed-by-a-connection-fault", "request-failed-by-a-transient-fault"):
            continue    # (C04's verdict: a request that fails because the client addressed the wrong region)
        chk.violation(v["sig"], v["desc"], dict(kind="c09", detail=v))
    if res["scenarios"]:
        okev, tv, lines = validate(chk, wd)
        for sig, desc, hist in tv:
            if not sig.startswith(C04_SIGS):
                chk.violation(sig, desc, dict(kind="rl-trace", history=hist[-60:]))
        chk.cov["events_validated"] = okev
        for l in lines[1:4]:
            chk.sample(json.loads(l))
    chk.cov["traces_validated_against_impl"] = res["scenarios"]
    chk.cov["evaluations"] = res["scenarios"]
    chk.cov["distinct_nontrivial"] = res["distinct"]
    chk.cov["rule"] = ("3 forced windows (connection dies between SetClient and MarkAvailable; second user between cache removal and marking; "
                       "split while requests wait), 36 exception-class scenarios, and seeded fault scripts: 2-11 concurrent callers over 2-4 "
                       "regions on 3 servers with 1-8 events from {move, split, merge, not-serving, retry-later classes, abort+reassign, restart, "
                       "reset, meta move, server-fatal exception, accept-then-drop}; race detector on; after the cluster is left alone for 10 "
                       "virtual minutes nobody may be blocked and no cached region unavailable")
    for s in res["samples"] or []:
        chk.sample(s)
    chk.sample(dict(model_cfg=cfg, states=r["distinct"]))
    chk.assumptions += ["virtual time; simulated cluster with a consistent hbase:meta", "-race instrumented build of the client and the harness"]


def replay(chk, rep):
    print(json.dumps(rep["replay"], indent=1)[:4000])
    run(chk)
    return chk.finish()
