"""C19 - Close is terminal and leaves nothing running. (Driver shared with C20.)"""
import json, os
import vlib

LEVEL = "model_checking"
C20_SIGS = ("dials-exceed",)


def run_driver(chk, nrand):
    wd = vlib.scratch("verif-c19-")
    t = vlib.go_test("", "^TestVerifC19$", env=dict(VERIF_OUT=wd, VERIF_SEED=str(chk.seed), VERIF_N=str(nrand)), timeout=1700, race=True)
    resf = os.path.join(wd, "c19_result.json")
    if not os.path.exists(resf) or t["rc"] != 0:
        v = vlib.classify_panic(t["out"])
        if v:
            return dict(scenarios=0, distinct=0, samples=[], violations=[v], extra={})
        raise vlib.driver_failed("C19 driver failed", t["out"], leak_is_violation=True)
    return json.load(open(resf))


def run(chk):
    thorough = chk.tier == "thorough"
    r = vlib.run_tlc("MC_ConnCache", "MC_ConnCache.cfg", timeout=1200)
    vlib.tlc_must_pass(r, "MC_ConnCache")
    chk.add_tlc(r)
    p = vlib.run_tlc("MC_ConnCache", "MC_ConnCache_pinned.cfg", timeout=600)
    chk.cov["model_counterexample_pinned_design"] = str(p["violated"])
    # negative control: a closeAll that skips connections left without regions must break ClosedIsTerminal in the model
    nc = vlib.run_tlc("MC_ConnCache", "MC_ConnCache_closenonempty.cfg", timeout=600)
    if nc["violated"] != "ClosedIsTerminal":
        raise vlib.MachineryError("MC_ConnCache_closenonempty: expected the ClosedIsTerminal counter-example, got %r" % (nc["violated"],))
    chk.cov["model_counterexample_close_skips_regionless_connection"] = str(nc["violated"])
    res = run_driver(chk, 300 if thorough else 40)
    for v in res["violations"] or []:
        chk.violation(v["sig"], v["desc"], dict(kind="c19", detail=v))
    chk.cov["traces_validated_against_impl"] = res["scenarios"]
    chk.cov["evaluations"] = res["scenarios"]
    chk.cov["distinct_nontrivial"] = res["distinct"]
    chk.cov["hook_positions"] = res.get("extra")
    chk.cov["rule"] = ("forced schedules replaying the TLC counter-examples of MC_ConnCache_pinned (Close after an establisher located its region "
                       "and before clients.put, for each region; Close between the dialer returning and the conn being published, for the 1st-3rd "
                       "dial; ZooKeeper failing / hanging across Close); Close at EVERY hook position hit by a 5-call workload (queue size 1 and 5); "
                       "seeded random workloads with faults and Close at a random virtual time. distinct = scenarios")
    chk.sample(dict(model_cfg="MC_ConnCache.cfg", states=r["distinct"]))
    chk.assumptions += ["virtual time; goroutines are counted with runtime.NumGoroutine and stacks 6 virtual minutes after Close",
                        "hook points inside critical sections (sync.Once bodies) are observed but never used to park a goroutine"]


def replay(chk, rep):
    print(json.dumps(rep["replay"], indent=1)[:4000])
    run(chk)
    return chk.finish()
