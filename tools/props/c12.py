"""C12 - a batch executes each call once, in per-region order, or not at all."""
import json, os
import vlib
from props import c07

LEVEL = "model_checking"


def run(chk):
    thorough = chk.tier == "thorough"
    res, r = c07.run_sendbatch(chk, 6000 if thorough else 500, thorough)
    for v in res["violations"] or []:
        if v["sig"].startswith(c07.C12_SIGS) or v["sig"] in ("client-panic", "goroutines-stranded"):
            chk.violation(v["sig"], v["desc"], dict(kind="sendbatch", detail=v))
    wd = vlib.scratch("verif-c12-")
    t = vlib.go_test("", "^TestVerifC12Reject$", env=dict(VERIF_OUT=wd, VERIF_SEED=str(chk.seed)), timeout=900, race=True)
    resf = os.path.join(wd, "c12r_result.json")
    if not os.path.exists(resf) or t["rc"] != 0:
        v = vlib.classify_panic(t["out"])
        if v:
            chk.violation(v["sig"], v["desc"], dict(kind="panic"))
            return
        raise vlib.driver_failed("C12 reject driver failed", t["out"])
    r2 = json.load(open(resf))
    for v in r2["violations"] or []:
        chk.violation(v["sig"], v["desc"], dict(kind="c12-reject", detail=v))
    # the wire side of a batch: every action of a multi request sits in the RegionAction of the region that owns its row and
    # is followed (in the shared cell stream) by its own cells - otherwise a call is executed with another call's payload
    import wirecontent
    rc = wirecontent.run_content(chk)
    for v in rc["violations"] or []:
        if wirecontent.misrouted(v):
            chk.violation("batch-path:" + v["sig"], v["desc"], dict(kind="c12-batch", detail=v))
    c07.fill(chk, res)
    chk.cov["batch_path_operations_decoded"] = rc["distinct"]
    chk.cov["evaluations"] += r2["scenarios"]
    chk.cov["distinct_nontrivial"] += r2["distinct"]
    chk.cov["traces_validated_against_impl"] += r2["scenarios"]
    chk.cov["rule"] += ("; server-side: inside every multi request received, the calls of one region are in batch order and no row is executed "
                        "twice (OnlyRetryableResent / NoReexecutionAfterSuccess / BatchOrderKept are checked by TLC on the model); rejected "
                        "batches: %d placements (batch size 1-4 x position x {other table, duplicate of each other entry, SkipBatch get, "
                        "SkipBatch put, scan}) must send nothing" % r2["scenarios"])


def replay(chk, rep):
    print(json.dumps(rep["replay"], indent=1)[:4000])
    run(chk)
    return chk.finish()
