"""C08 - the location cache never holds overlapping regions; the newest wins.
Also hosts the shared cache driver used by C01 (lookup half)."""
import json, os
import vlib

LEVEL = "model_checking"


def model(chk, thorough):
    r = vlib.run_tlc("MC_RegionCache", "MC_RegionCache_big.cfg" if thorough else "MC_RegionCache.cfg", timeout=1200)
    vlib.tlc_must_pass(r, "MC_RegionCache")
    chk.add_tlc(r)
    return r


def drive(chk, gets, walks, walklen, maxstates=0):
    wd = vlib.scratch("verif-c08-")
    # several puts at once: the search and the change of the tree are one critical section (driver: "simultaneous puts")
    pa = vlib.run_tlc("MC_RegionCachePut", "MC_RegionCachePut.cfg", timeout=300)
    vlib.tlc_must_pass(pa, "MC_RegionCachePut")
    chk.add_tlc(pa)
    pn = vlib.run_tlc("MC_RegionCachePut", "MC_RegionCachePut_split.cfg", timeout=300)
    if pn["violated"] != "NoOverlap":
        raise vlib.MachineryError("MC_RegionCachePut_split: expected the NoOverlap counter-example, got %r" % (pn["violated"],))
    chk.cov["model_counterexample_search_and_change_not_one_critical_section"] = "NoOverlap"
    g = vlib.run_tlc("Gen_RegionCache", workers=1, timeout=120, workdir=wd)
    vlib.tlc_must_pass(g, "Gen_RegionCache")
    t = vlib.go_test("", "^TestVerifC08$", env=dict(VERIF_IN=wd, VERIF_OUT=wd, VERIF_SEED=str(chk.seed),
                     VERIF_WALKS=str(walks), VERIF_WALKLEN=str(walklen), VERIF_GETS="1" if gets else "0",
                     VERIF_MAXSTATES=str(maxstates or 3 * max(1, g["distinct"]))), timeout=1500)
    resf = os.path.join(wd, "c08_result.json")
    if not os.path.exists(resf):
        raise vlib.driver_failed("cache driver produced no result", t["out"])
    res = json.load(open(resf))
    lines = open(os.path.join(wd, "c08_trace.ndjson")).read().splitlines()
    return res, lines


def validate(chk, lines, pid_for):
    """pid_for(event) -> True if a mismatch on this event kind belongs to this property."""
    chunks = vlib.split_trace(lines, 6000)
    results = vlib.validate_chunks("Trace_RegionCache", "c08_trace.ndjson", chunks, parallel=14, timeout=1500)
    validated = 0
    for r in results:
        res, ch = r["res"], chunks[r["chunk"]]
        chk.add_tlc(res)
        if res["violated"]:
            fi = r["fail_index"] or 1
            inv = str(res["violated"])
            ev = json.loads(ch[max(0, fi - 2)]) if "StepOK" in inv else json.loads(ch[max(0, min(len(ch), fi - 1) - 1)])
            start = max(0, fi - 2)
            while start > 0 and '"ev":"reset"' not in ch[start]:
                start -= 1
            hist = [json.loads(x) for x in ch[start:fi - 1]]
            if pid_for(ev, inv):
                what = ("the real cache's step %s disagrees with the specification (%s)" % (json.dumps(ev)[:600], inv))
                sig = "cache-step-mismatch:" + ev.get("ev", "?") if "StepOK" in inv else "cache-invariant:" + inv
                chk.violation(sig, what, dict(kind="cache-trace", history=hist[-40:], failing=ev, invariant=inv))
            validated += max(0, fi - 2)
            continue
        vlib.tlc_must_pass(res, "Trace_RegionCache chunk %d" % r["chunk"])
        validated += len(ch)
    return validated, len(chunks)


def run(chk):
    thorough = chk.tier == "thorough"
    model(chk, thorough)
    res, lines = drive(chk, gets=False, walks=(60 if thorough else 6), walklen=(1500 if thorough else 600))
    if res.get("panic"):
        chk.violation("cache-panic", res["panic"], dict(kind="cache-panic", detail=res["panic"]))
    # the users of the cache (routing, scans in both directions, re-establishment, splits / merges / moves): after each
    # step the client's cache holds regions exactly as the cluster defined them, none intersecting
    wd2 = vlib.scratch("verif-c08c-")
    # (the last class of this driver runs the cache under concurrent users: there a race report between two accesses of the client
    # is the verdict - no re-run without the detector)
    t2 = vlib.go_test("", "^TestVerifC08Client$", env=dict(VERIF_OUT=wd2, VERIF_SEED=str(chk.seed)), timeout=900, race=True, race_rerun=False)
    rf2 = os.path.join(wd2, "c08c_result.json")
    if not os.path.exists(rf2) or t2["rc"] != 0:
        v = vlib.classify_panic(t2["out"]) or vlib.classify_race(t2["out"])
        if v:
            chk.violation(v["sig"], v["desc"], dict(kind="panic"))
            return
        raise vlib.driver_failed("C08 client-level driver failed", t2["out"])
    res2 = json.load(open(rf2))
    for v in res2["violations"] or []:
        if v["sig"].startswith("cached-"):
            chk.violation(v["sig"], v["desc"], dict(kind="c08-client", detail=v))
    chk.cov["client_level_cache_inspections"] = res2["scenarios"]
    validated, nchunks = validate(chk, lines, lambda ev, inv: True)
    chk.cov["traces_validated_against_impl"] = nchunks
    chk.cov["events_validated"] = validated
    chk.cov["evaluations"] = res["events"]
    chk.cov["distinct_nontrivial"] = res["bfs_transitions"] + res["walk_steps"]
    chk.cov["rule"] = ("breadth-first over all %d cache states reachable in the TLC scope (%d regions): every put and every del "
                       "from every state (%d transitions, complete=%s) + %d seeded random walks (%d steps) over arbitrary byte "
                       "keys with up to ~130 boundaries per table" % (res["bfs_states"], res["universe"], res["bfs_transitions"],
                                                                    res["bfs_complete"], res["walks"], res["walk_steps"]))
    chk.cov["exhaustive"] = bool(res["bfs_complete"])
    for ln in lines[1:4] + lines[-2:]:
        chk.sample(json.loads(ln))
    chk.assumptions += ["region names are unique: (table,start,id) determines the stop key",
                        "ids fit in 31 bits in the harness (TLC integers)"]


def replay(chk, rep):
    print(json.dumps(rep["replay"], indent=1)[:4000])
    run(chk)
    return chk.finish()
