"""C10 - cell encoding is lossless and both mutation encodings agree."""
import json, os
import vlib

LEVEL = "model_checking"


def run(chk):
    thorough = chk.tier == "thorough"
    r = vlib.run_tlc("MC_KeyValue", timeout=600)
    vlib.tlc_must_pass(r, "MC_KeyValue")
    chk.add_tlc(r)
    wd = vlib.scratch("verif-c10-")
    g = vlib.run_tlc("Gen_KeyValue", workers=1, timeout=300, workdir=wd)
    vlib.tlc_must_pass(g, "Gen_KeyValue")
    t = vlib.go_test("hrpc", "^TestVerifC10$", env=dict(VERIF_IN=wd, VERIF_OUT=wd, VERIF_SEED=str(chk.seed),
                     VERIF_REPS="40" if thorough else "2"), timeout=1200)
    resf = os.path.join(wd, "c10_result.json")
    if not os.path.exists(resf):
        raise vlib.driver_failed("C10 driver produced no result", t["out"])
    res = json.load(open(resf))
    for v in res["violations"] or []:
        chk.violation(v["sig"], v["desc"], dict(kind="c10", detail=v))
    # the batch path: the same mutation shapes grouped into multi requests over two regions (region/multi.go builds one cell
    # stream for all of them): what the server decodes per action must be that mutation's cells
    import wirecontent
    rc = wirecontent.run_content(chk)
    for v in rc["violations"] or []:
        if wirecontent.mutation_encoding(v) or v["sig"] == "client-panic":
            chk.violation("batch-path:" + v["sig"], v["desc"], dict(kind="c10-batch", detail=v))
    chk.cov["batch_path_operations_decoded"] = rc["distinct"]
    chk.cov["traces_validated_against_impl"] = res["mutations"] + res["kv_vectors"] + res["length_vectors"]
    chk.cov["evaluations"] = res["evaluations"]
    chk.cov["distinct_nontrivial"] = res["distinct"]
    chk.cov["rule"] = ("every mutation shape of the TLC scope (%d: kind x per-family map shape {nil, empty, 1-2 qualifiers, empty qualifier} "
                       "for 0-2 families x timestamp {latest, 5, 2^64-2} x one-version) with its cell set computed by the specification; "
                       "%d KeyValue byte vectors computed by the specification; %d boundary length vectors with seeded contents" % (
                           res["mutations"], res["kv_vectors"], res["length_vectors"]))
    chk.cov["exhaustive"] = True
    for s in res["samples"] or []:
        chk.sample(s)
    chk.assumptions += ["HBase's proto->cell rule (ProtobufUtil.toPut/toDelete) as transcribed in the harness and in KeyValue.tla",
                        "contents at boundary sizes are sampled (seeded), not enumerated"]


def replay(chk, rep):
    print(json.dumps(rep["replay"], indent=1)[:3000])
    run(chk)
    return chk.finish()
