"""C03 - a failing connection completes every outstanding request exactly once."""
import json, os
import vlib, rcshared

LEVEL = "model_checking"


def run(chk):
    thorough = chk.tier == "thorough"
    cfg = "MC_RegionClient_c03.cfg" if thorough else "MC_RegionClient_c03_quick.cfg"
    r = vlib.run_tlc("MC_RegionClient", cfg, timeout=1700)
    vlib.tlc_must_pass(r, cfg)
    chk.add_tlc(r)
    # the pinned tree's receive path (drop the call when inFlightDown fails) must still give the counter-example forced in A1
    p = vlib.run_tlc("MC_RegionClient", "MC_RegionClient_c03_pinned.cfg", timeout=600)
    chk.cov["model_counterexample_for_dropping_call_on_inFlightDown_error"] = str(p["violated"])
    # fail() that completes the sent calls BEFORE it closes the socket must give the stranded call forced in A4 (and, through
    # the top-level client, in C19's A5)
    sf = vlib.run_tlc("MC_RegionClient", "MC_RegionClient_c03_swapfirst.cfg", timeout=600)
    if sf["violated"] != "ExactlyOnceWhenDown":
        raise vlib.MachineryError("MC_RegionClient_c03_swapfirst: expected the ExactlyOnceWhenDown counter-example, got %r" % (sf["violated"],))
    chk.cov["model_counterexample_for_completing_before_closing_the_socket"] = "ExactlyOnceWhenDown"
    wd, res, t = rcshared.run_driver(chk, "TestVerifC03", "c03_result.json",
                                     dict(VERIF_N="600" if thorough else "60", VERIF_TIER=chk.tier), timeout=1700)
    for v in res["violations"] or []:
        chk.violation(v["sig"], v["desc"], dict(kind="c03", detail=v))
    n = rcshared.validate_trace(chk, wd, "c03-trace")
    chk.cov["traces_validated_against_impl"] = res["scenarios"]
    chk.cov["events_validated"] = n
    chk.cov["evaluations"] = res["scenarios"]
    chk.cov["distinct_nontrivial"] = res["distinct"]
    chk.cov["rule"] = ("5 forced schedules from TLC behaviours (Close between the reader's unregister and inFlightDown; reader failure while a "
                       "sender is between register and write; Close after a failed write before unregister); for each of 4-5 workloads "
                       "(single, cellblock put, multi of 3, mixed batched/unbatched, staggered) the k-th conn operation fails for EVERY k of "
                       "the fault-free run x {write after 0 bytes, write after half, read EOF, read reset, deadline error, external Close}, "
                       "plus the server cutting the 1st/2nd/3rd response mid-frame; 12 other deaths (timeout, undecodable header, unknown / "
                       "missing call id, server-fatal exceptions); seeded random fault positions with jitter. distinct = scenarios")
    chk.cov["exhaustive"] = True
    for s in res["samples"] or []:
        chk.sample(s)
    chk.sample(dict(model_cfg=cfg, states=r["distinct"]))
    chk.assumptions += ["in-memory net.Conn; a failed operation breaks the connection for good",
                        "short reads of 5 bytes force every frame to be assembled from several reads"]


def replay(chk, rep):
    print(json.dumps(rep["replay"], indent=1)[:4000])
    run(chk)
    return chk.finish()
