"""C07 - batch results are positional and self-consistent. (Shared SendBatch machinery with C12.)"""
import json, os
import vlib

LEVEL = "model_checking"
C07_SIGS = ("batch-results-differ", "batch-allok", "batch-never-returns")
C12_SIGS = ("batch-region-order", "batch-call-executed-twice", "batch-call-not-executed-once", "batch-rejected")


def run_sendbatch(chk, limit, thorough):
    cfg = "MC_SendBatch_n3.cfg" if thorough else "MC_SendBatch.cfg"
    r = vlib.run_tlc("MC_SendBatch", cfg, timeout=1700)
    vlib.tlc_must_pass(r, cfg)
    chk.add_tlc(r)
    p = vlib.run_tlc("MC_SendBatch", "MC_SendBatch_pinned.cfg", timeout=900)
    chk.cov["model_counterexample_pinned_design"] = str(p["violated"])
    wd = vlib.scratch("verif-sb-")
    g = vlib.run_tlc("Gen_SendBatch", workers=1, timeout=900, workdir=wd)
    vlib.tlc_must_pass(g, "Gen_SendBatch")
    vals = vlib.tlc_printed_json(g["out"], '"@@J", ')
    with open(os.path.join(wd, "sb_scripts.ndjson"), "w") as fh:
        for v in vals:
            v = v.rstrip()
            if v.endswith(">>"):
                v = v[:-2]
            fh.write(json.loads(v) + "\n")
    t = vlib.go_test("", "^TestVerifSendBatch$", env=dict(VERIF_IN=wd, VERIF_OUT=wd, VERIF_SEED=str(chk.seed), VERIF_N=str(limit)),
                     timeout=1700, race=True)
    resf = os.path.join(wd, "sb_result.json")
    if not os.path.exists(resf):
        v = vlib.classify_panic(t["out"])
        if v:
            return dict(scenarios=0, distinct=0, samples=[], violations=[v], extra={}), r
        raise vlib.driver_failed("SendBatch driver produced no result", t["out"])
    res = json.load(open(resf))
    if t["rc"] != 0 and not res.get("violations"):
        raise vlib.driver_failed("SendBatch driver failed", t["out"])
    return res, r


def run(chk):
    thorough = chk.tier == "thorough"
    res, r = run_sendbatch(chk, 6000 if thorough else 700, thorough)
    for v in res["violations"] or []:
        if v["sig"].startswith(C07_SIGS) or v["sig"] in ("client-panic", "goroutines-stranded"):
            chk.violation(v["sig"], v["desc"], dict(kind="sendbatch", detail=v))
    fill(chk, res)


def fill(chk, res):
    chk.cov["traces_validated_against_impl"] = res["scenarios"]
    chk.cov["evaluations"] = res["scenarios"]
    chk.cov["distinct_nontrivial"] = res["distinct"]
    chk.cov["rule"] = ("scenarios enumerated by TLC (Gen_SendBatch: batches of 2 calls on 1-2 servers x 10 per-call outcome sequences over 3 rounds "
                       "{ok, fatal, retry-later, not-serving, connection-dead} x re-location {ok, table gone, never comes back} x a call whose own "
                       "context ended x cancellation {never, while servers hold round r, during the back-off after round r, while re-locating}); "
                       "%s of the %s scenarios (seeded stride) executed against the real SendBatch; the returned results and flag compared with the "
                       "specification's" % (res["scenarios"], (res.get("extra") or {}).get("scripts_available")))
    for s in res["samples"] or []:
        chk.sample(s)
    chk.assumptions += ["the simulated servers produce the scripted outcome per call and round; a dead connection fails every call sent over it",
                        "a cancellation 'during' a phase is issued at a virtual time inside that phase (back-off >= 16 ms, everything else <= 2 ms)"]


def replay(chk, rep):
    print(json.dumps(rep["replay"], indent=1)[:4000])
    run(chk)
    return chk.finish()
