"""C05 - bytes written to the server encode exactly the requested operation."""
import json, os
import vlib, rcshared

LEVEL = "model_checking"


def run(chk):
    thorough = chk.tier == "thorough"
    # framing under concurrency: the design with a writer lock holds; without one (per-buffer writes) TLC shows the interleaving
    r = vlib.run_tlc("MC_RegionClient", "MC_RegionClient_c05_locked.cfg", timeout=1500)
    vlib.tlc_must_pass(r, "MC_RegionClient_c05_locked")
    chk.add_tlc(r)
    p = vlib.run_tlc("MC_RegionClient", "MC_RegionClient_c05_nonatomic.cfg", timeout=600)
    chk.cov["model_counterexample_without_writer_lock"] = str(p["violated"])
    wd, res, t = rcshared.run_driver(chk, "TestVerifC05Framing", "c05f_result.json", dict(VERIF_N="40" if thorough else "6"),
                                     race=True)
    for v in res["violations"] or []:
        chk.violation(v["sig"], v["desc"], dict(kind="c05-framing", detail=v))
    # content: TLC-enumerated operation shapes through the real encoder, decoded independently at the server
    import wirecontent
    rc = wirecontent.run_content(chk)
    for v in rc["violations"] or []:
        chk.violation(v["sig"], v["desc"], dict(kind="c05-content", detail=v))
    chk.cov["traces_validated_against_impl"] = res["scenarios"] + rc["scenarios"]
    chk.cov["evaluations"] = res["scenarios"] + rc["distinct"]
    chk.cov["distinct_nontrivial"] = res["distinct"] + rc["distinct"]
    chk.cov["rule"] = ("framing: forced two-writer interleavings (codec on/off, queue size 1/2) + free-running G senders on the in-memory conn and "
                       "on loopback TCP; content: every query-option combination of the TLC scope (2048 gets: families x time range x versions x "
                       "store limit/offset x cache blocks x priority x consistency x filter x exists-only), every mutation shape of C10 (852) with "
                       "rotating durability / TTL, 32 scan shapes with random query options, each for codec {none, snappy} x queue size {1,4,8} "
                       "(multi groupings of 1..8 calls over two regions), random byte rows, one value in 97 above the snappy chunk size; the "
                       "expected request fields come from the specification (Wire.tla ExpectedQuery / ExpectedScan, KeyValue.tla Denotes)")
    for s in (res["samples"] or []) + (rc["samples"] or []):
        chk.sample(s)
    chk.assumptions += ["the protobuf library is trusted for message bodies; filters are compared by class name, not interpreted"]


def replay(chk, rep):
    print(json.dumps(rep["replay"], indent=1)[:4000])
    run(chk)
    return chk.finish()
