"""C05 - bytes written to the server encode exactly the requested operation."""
import json, os
import vlib, rcshared

LEVEL = "model_checking"


def run(chk):
    thorough = chk.tier == "thorough"
    # framing under concurrency: the design with a writer lock holds; without one (per-buffer writes) TLC shows the interleaving
    r = vlib.run_tlc("MC_RegionClient", "MC_RegionClient_c05_locked.cfg", timeout=1500)
    vlib.tlc_must_pass(r, "MC_RegionClient_c05_locked")
    chk.add_tlc(r)
    p = vlib.run_tlc("MC_RegionClient", "MC_RegionClient_c05_nonatomic.cfg", timeout=600)
    chk.cov["model_counterexample_without_writer_lock"] = str(p["violated"])
    wd, res, t = rcshared.run_driver(chk, "TestVerifC05Framing", "c05f_result.json", dict(VERIF_N="40" if thorough else "6"),
                                     race=True)
    for v in res["violations"] or []:
        chk.violation(v["sig"], v["desc"], dict(kind="c05-framing", detail=v))
    chk.cov["traces_validated_against_impl"] = res["scenarios"]
    chk.cov["evaluations"] = res["scenarios"]
    chk.cov["distinct_nontrivial"] = res["distinct"]
    chk.cov["rule"] = "forced two-writer interleavings (codec on/off, queue size 1/2) + free-running G senders on in-memory conn and loopback TCP"
    for s in res["samples"] or []:
        chk.sample(s)


def replay(chk, rep):
    print(json.dumps(rep["replay"], indent=1)[:4000])
    run(chk)
    return chk.finish()
