"""C14 - scanners terminate cleanly and release server-side scanners."""
import json
import vlib
from props import c06

LEVEL = "model_checking"


def run(chk):
    thorough = chk.tier == "thorough"
    res, r = c06.run_scan(chk, True, "MC_Scanner_c14.cfg", 1500 if thorough else 200, 0 if thorough else 80)
    p = vlib.run_tlc("MC_Scanner", "MC_Scanner_c14_pinned.cfg", timeout=600)
    chk.cov["model_counterexample_for_ctx_error_on_every_call"] = str(p["violated"])
    chk.cov["rule"] = ("the C06 scenarios, each ended at a rotating position: Close (twice) before the k-th Next, cancellation before the k-th "
                       "Next, an exception on the k-th scan request, an early 'no more results' on the k-th response; Next is called until two "
                       "terminal results were seen; after the asynchronous close requests drained the open region scanners of the simulated "
                       "servers are read")
    chk.assumptions += ["a region scanner opened by a request whose response the client never saw is reclaimed by its lease (not counted)"]


def replay(chk, rep):
    print(json.dumps(rep["replay"], indent=1)[:4000])
    run(chk)
    return chk.finish()
