"""Admin client executions (harness/gohbase/cadmin.go) validated against Admin.tla by Trace_Admin. Shared by C13 (an ended
context ends the operation at once, also between polls) and C17 (the polls follow the retry schedule)."""
import json, os
import vlib


def run_admin(chk):
    r = vlib.run_tlc("Admin", "Admin.cfg", timeout=600)
    vlib.tlc_must_pass(r, "Admin")
    chk.add_tlc(r)
    wd = vlib.scratch("verif-admin-")
    t = vlib.go_test("", "^TestVerifAdmin$", env=dict(VERIF_OUT=wd, VERIF_SEED=str(chk.seed)), timeout=1200, race=True)
    resf = os.path.join(wd, "admin_result.json")
    if not os.path.exists(resf) or t["rc"] != 0:
        v = vlib.classify_panic(t["out"])
        if v:
            return dict(scenarios=0, violations=[dict(sig="admin:" + v["sig"], desc=v["desc"])], stuck=[])
        raise vlib.driver_failed("admin driver failed", t["out"])
    res = json.load(open(resf))
    lines = [l for l in open(os.path.join(wd, "admin_trace.ndjson")).read().splitlines() if l.strip()]
    chunks = vlib.split_trace(lines, 1, reset_marker='"ev":"adminStart"')
    stuck = []
    ok = 0
    for x in vlib.validate_chunks("Trace_Admin", "admin_trace.ndjson", chunks, parallel=12, timeout=600):
        rr, ch = x["res"], chunks[x["chunk"]]
        chk.add_tlc(rr)
        rejected = "Postcondition" in str(rr.get("error") or "")
        if rr["violated"] or rejected:
            # an invariant failed, or the trace was not accepted: `depth' states = depth - 1 events were followed, the next
            # one is the first event Admin.tla cannot explain
            sc = json.loads(ch[0])
            k = (x["fail_index"] or 1) - 1 if rr["violated"] else int(rr.get("depth") or 1) - 1
            at = json.loads(ch[min(len(ch) - 1, max(0, k))])
            evs = [json.loads(l) for l in ch]
            after_cancel = any(e.get("ev") == "cancel" for e in evs[:max(0, k)])
            stuck.append(dict(scenario=sc.get("scenario"), violated=str(rr["violated"] or "not accepted"), at=at,
                              after_cancel=after_cancel, events=evs[:40]))
            continue
        vlib.tlc_must_pass(rr, "Trace_Admin")
        ok += len(ch)
    res["stuck"] = stuck
    res["events_ok"] = ok
    return res
