"""C01 - requests are routed to the region that owns the row key."""
import json, os
import vlib
from props import c08

LEVEL = "model_checking"


def run(chk):
    thorough = chk.tier == "thorough"
    # lookup half: the cache model (shared with C08), with lookups after every state / step
    c08.model(chk, thorough)
    res, lines = c08.drive(chk, gets=True, walks=(40 if thorough else 5), walklen=(1200 if thorough else 500))
    if res.get("panic"):
        chk.violation("cache-panic", res["panic"], dict(kind="cache-panic", detail=res["panic"]))
    validated, nchunks = c08.validate(chk, lines, lambda ev, inv: True)
    ngets = sum(1 for l in lines if '"ev":"get"' in l)
    # layout change under waiting requests (Outage.tla, establisher replacing the region): the design that drops the replaced
    # region's connection before releasing the waiters holds; the other order must give the counter-example that the forced
    # real-time schedule of the driver (class D) reproduces on the real client
    rr = vlib.run_tlc("MC_Outage", "MC_Outage_replace.cfg", timeout=1500)
    vlib.tlc_must_pass(rr, "MC_Outage_replace")
    chk.add_tlc(rr)
    nr = vlib.run_tlc("MC_Outage", "MC_Outage_availbeforedel.cfg", timeout=600)
    if nr["violated"] != "NoSendAfterReplace":
        raise vlib.MachineryError("MC_Outage_availbeforedel: expected the NoSendAfterReplace counter-example, got %r" % (nr["violated"],))
    chk.cov["model_counterexample_release_before_drop"] = "NoSendAfterReplace"
    # routing half
    wd = vlib.scratch("verif-c01-")
    g = vlib.run_tlc("Gen_Routing", workers=1, timeout=120, workdir=wd)
    vlib.tlc_must_pass(g, "Gen_Routing")
    t = vlib.go_test("", "^TestVerifC01$", env=dict(VERIF_IN=wd, VERIF_OUT=wd, VERIF_SEED=str(chk.seed), VERIF_TIER=chk.tier,
                     VERIF_N="150" if thorough else "25"), timeout=1700, race=True)
    resf = os.path.join(wd, "c01_result.json")
    if not os.path.exists(resf):
        v = vlib.classify_panic(t["out"])
        if v:
            chk.violation(v["sig"], v["desc"], dict(kind="panic"))
            return
        raise vlib.driver_failed("C01 driver produced no result", t["out"])
    r1 = json.load(open(resf))
    if t["rc"] != 0:
        raise vlib.driver_failed("C01 driver failed", t["out"])
    for v in r1["violations"] or []:
        chk.violation(v["sig"], v["desc"], dict(kind="c01", detail=v))
    tl = [l for l in open(os.path.join(wd, "c01_trace.ndjson")).read().splitlines() if l.strip()]
    chunks = vlib.split_trace(tl, 3000)
    results = vlib.validate_chunks("Trace_Routing", "c01_trace.ndjson", chunks, parallel=10, timeout=900)
    okev = 0
    for r in results:
        rr, ch = r["res"], chunks[r["chunk"]]
        chk.add_tlc(rr)
        if rr["violated"]:
            fi = r["fail_index"] or 2
            upto = max(1, fi - 1)
            start = upto - 1
            while start > 0 and '"ev":"apiCall"' not in ch[start]:
                start -= 1
            hist = [json.loads(x) for x in ch[start:upto]]
            chk.violation("routing-trace:" + str(rr["violated"]), "the real client's API call %s was not routed as the specification requires: %s" % (
                json.dumps(hist[0])[:300], json.dumps(hist[1:])[:900]), dict(kind="routing-trace", history=hist))
            okev += upto
            continue
        vlib.tlc_must_pass(rr, "Trace_Routing chunk %d" % r["chunk"])
        okev += len(ch)
    # a region moved under the client: Move.tla (and its defective twin), and what the servers saw in class M against it
    mvr = vlib.run_tlc("Move", "Move.cfg", timeout=600)
    vlib.tlc_must_pass(mvr, "Move")
    chk.add_tlc(mvr)
    mvn = vlib.run_tlc("Move", "Move_keepattached.cfg", timeout=600)
    if mvn["violated"] != "Located":
        raise vlib.MachineryError("Move_keepattached: expected the Located counter-example, got %r" % (mvn["violated"],))
    chk.cov["model_counterexample_connection_kept_after_a_move"] = "Located"
    ml = [l for l in open(os.path.join(wd, "c01_move_trace.ndjson")).read().splitlines() if l.strip()]
    if len(ml) < 100:
        raise vlib.MachineryError("class M left no trace (%d lines)" % len(ml))
    mres = vlib.validate_chunks("Trace_Move", "move_trace.ndjson", [ml], parallel=1, timeout=600)[0]["res"]
    chk.add_tlc(mres)
    if mres["violated"]:
        chk.violation("move-trace:" + str(mres["violated"]), "after a region had been moved to another server the state of the real client, as the "
                      "servers saw it, violates %s of Move.tla" % mres["violated"], dict(kind="move-trace", trace=ml[:400]))
    elif not mres["ok"] and "Postcondition Accepted" in mres["out"]:
        k = max(1, mres["depth"])     # lines 1..k-1 are behaviours of Move.tla, line k is not
        lo = k - 1
        while lo > 0 and '"ev":"reset"' not in ml[lo]:
            lo -= 1
        hist = [json.loads(x) for x in ml[lo:k]]
        chk.violation("move-trace:not-a-behaviour-of-Move", "scenario %s: after the region had been moved, what the servers saw of the real client is not a "
                      "behaviour of Move.tla - no step of the specification explains %s after %s" % (
                          hist[0].get("scenario"), json.dumps(hist[-1]), json.dumps(hist[1:-1])[-900:]), dict(kind="move-trace", history=hist))
    else:
        vlib.tlc_must_pass(mres, "Trace_Move")
    chk.cov["move_trace_events_validated"] = len(ml)
    chk.cov["traces_validated_against_impl"] = r1["scenarios"] + nchunks
    chk.cov["events_validated"] = okev + validated
    # the batch path: calls grouped into one multi request must each be filed under the region that owns their row
    import wirecontent
    rc = wirecontent.run_content(chk)
    for v in rc["violations"] or []:
        if wirecontent.misrouted(v):
            chk.violation("batch-path:" + v["sig"], v["desc"], dict(kind="c01-batch", detail=v))
    chk.cov["batch_path_operations_decoded"] = rc["distinct"]
    chk.cov["evaluations"] = r1["distinct"] + ngets
    chk.cov["distinct_nontrivial"] = r1["distinct"] + ngets
    chk.cov["rule"] = ("routing: all 32 layouts of the TLC scope (every subset of 5 boundaries around 0x00 ',' 0xff) x 17 keys (at, next to, "
                       "shorter and longer than the boundaries) in seeded first-touch orders x request kinds {get, put, delete, append, "
                       "increment, check-and-put, batch} (2 kinds per key in quick, all 7 in thorough), with same-prefixed and namespaced "
                       "sibling tables, + seeded random layouts over arbitrary byte keys on 4 tables: %d routed API calls; lookup: %d cache "
                       "lookups after every reachable cache state of the C08 scope and along random walks" % (r1["distinct"], ngets))
    for s in r1["samples"] or []:
        chk.sample(s)
    for l in tl[5:8]:
        chk.sample(json.loads(l))
    chk.assumptions += ["the establisher's probe request (exists-only get at start key + 17 zero bytes) is an internal request and excluded",
                        "hbase:meta is consistent (contiguous, non-overlapping regions); keys shorter than 32 KiB"]


def replay(chk, rep):
    print(json.dumps(rep["replay"], indent=1)[:4000])
    run(chk)
    return chk.finish()
