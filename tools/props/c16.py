"""C16 - region names totally ordered by (table, start key, id)."""
import json, os
import vlib

LEVEL = "model_checking"


def run(chk):
    thorough = chk.tier == "thorough"
    # 1. the model: transcription of Compare == tuple order on every pair of the scope
    r = vlib.run_tlc("MC_RegionName", "MC_RegionName_full.cfg" if thorough else "MC_RegionName.cfg", timeout=1500)
    vlib.tlc_must_pass(r, "MC_RegionName")
    chk.add_tlc(r)
    pairs_model = r["distinct"]
    if thorough:
        r3 = vlib.run_tlc("MC_RegionNameTriples", timeout=900)
        vlib.tlc_must_pass(r3, "MC_RegionNameTriples")
        chk.add_tlc(r3)
    # 2. B1: spec-sorted scope -> real Compare
    wd = vlib.scratch("verif-c16-")
    g = vlib.run_tlc("Gen_RegionName", workers=1, timeout=600, workdir=wd)
    vlib.tlc_must_pass(g, "Gen_RegionName")
    if not os.path.exists(os.path.join(wd, "c16_sorted.ndjson")):
        raise vlib.MachineryError("Gen_RegionName wrote no scope file")
    nrand = 200000 if thorough else 30000
    t = vlib.go_test("region", "^TestVerifC16$", env=dict(VERIF_IN=wd, VERIF_OUT=wd, VERIF_SEED=str(chk.seed),
                                                          VERIF_N=str(nrand)), timeout=900)
    resf = os.path.join(wd, "c16_result.json")
    if not os.path.exists(resf):
        raise vlib.driver_failed("C16 driver produced no result", t["out"])
    res = json.load(open(resf))
    for v in (res["violations"] or []):
        chk.violation("compare-vs-tuple-order", v, dict(kind="c16", detail=v))
    # 2b. the producer of the search keys of that scope (createRegionSearchKey): the specification's bytes, fresh memory
    tk = vlib.go_test("", "^TestVerifC16Keys$", env=dict(VERIF_IN=wd, VERIF_OUT=wd, VERIF_SEED=str(chk.seed)), timeout=600, race=True)
    rk = os.path.join(wd, "c16k_result.json")
    if not os.path.exists(rk) or tk["rc"] != 0:
        v = vlib.classify_panic(tk["out"])
        if v:
            chk.violation(v["sig"], v["desc"], dict(kind="panic"))
            return
        raise vlib.driver_failed("C16 search-key driver failed", tk["out"])
    resk = json.load(open(rk))
    for v in resk["violations"] or []:
        chk.violation(v["sig"], v["desc"], dict(kind="c16-keys", detail=v))
    chk.cov["search_keys_built_and_checked"] = resk["scenarios"]
    # 3. B2: observed signs validated by TLC against TupleCmp (chunks: one JVM per 50k lines)
    lines = open(os.path.join(wd, "c16_pairs.ndjson")).read().splitlines()
    validated = 0
    chunk = 50000
    for off in range(0, len(lines), chunk):
        part = lines[off:off + chunk]
        twd = vlib.scratch("verif-c16t-")
        with open(os.path.join(twd, "c16_pairs.ndjson"), "w") as fh:
            fh.write("\n".join(part) + "\n")
        tr = vlib.run_tlc("Trace_RegionName", workers=1, timeout=900, workdir=twd)
        chk.add_tlc(tr)
        if tr["violated"] and "LineOK" in str(tr["violated"]):
            import re
            m = re.search(r"i = (\d+)", tr["out"][tr["out"].find("LineOK"):])
            idx = int(m.group(1)) if m else 1
            bad = json.loads(part[idx - 1])
            chk.violation("compare-vs-tuple-order",
                          "region.Compare returned sign %d for a=%s b=%s; the specification's tuple order disagrees" % (
                              bad["cmp"], bad["a"], bad["b"]), dict(kind="c16-pair", pair=bad))
            validated += idx - 1
            continue
        vlib.tlc_must_pass(tr, "Trace_RegionName")
        validated += len(part)
    chk.cov["traces_validated_against_impl"] = validated
    chk.cov["evaluations"] = res["evaluations"]
    chk.cov["distinct_nontrivial"] = res["names"] * (res["names"] - 1) + res["random_pairs"]
    chk.cov["rule"] = ("all ordered pairs of the %d names/search keys of the TLC scope (distinct names) + %d seeded random "
                       "well-formed name pairs, two thirds of them near neighbours" % (res["names"], res["random_pairs"]))
    chk.cov["exhaustive"] = True
    chk.cov["model_pairs"] = pairs_model
    for s in res["samples"]:
        chk.sample(s)
    chk.assumptions += ["names are well-formed: table without ',', id without ','",
                        "scope: tables {a,aa,a-,a:a,b}, start keys over {00,'+',',','-',ff} up to length 2, ids {1,12,2,1.h.}"]


def replay(chk, rep):
    print(json.dumps(rep["replay"], indent=1))
    return run_single(chk)


def run_single(chk):
    run(chk)
    return chk.finish()
