"""C20 - one connection per regionserver, shared by all its regions."""
import json, os
import vlib

LEVEL = "model_checking"


def run(chk):
    thorough = chk.tier == "thorough"
    r = vlib.run_tlc("MC_ConnCache", "MC_ConnCache.cfg", timeout=1200)
    vlib.tlc_must_pass(r, "MC_ConnCache")
    chk.add_tlc(r)
    # negative control: a clients.del that forgets a connection left without regions must break DialsBounded in the model
    nc = vlib.run_tlc("MC_ConnCache", "MC_ConnCache_deldrops.cfg", timeout=600)
    if nc["violated"] != "DialsBounded":
        raise vlib.MachineryError("MC_ConnCache_deldrops: expected the DialsBounded counter-example, got %r" % (nc["violated"],))
    chk.cov["model_counterexample_del_forgets_regionless_connection"] = str(nc["violated"])
    wd = vlib.scratch("verif-c20-")
    t = vlib.go_test("", "^TestVerifC20$", env=dict(VERIF_OUT=wd, VERIF_SEED=str(chk.seed), VERIF_N="400" if thorough else "40"), timeout=1700, race=True)
    resf = os.path.join(wd, "c20_result.json")
    if not os.path.exists(resf) or t["rc"] != 0:
        v = vlib.classify_panic(t["out"])
        if v:
            chk.violation(v["sig"], v["desc"], dict(kind="panic"))
            return
        raise vlib.driver_failed("C20 driver failed", t["out"])
    res = json.load(open(resf))
    for v in res["violations"] or []:
        chk.violation(v["sig"], v["desc"], dict(kind="c20", detail=v))
    lines = [l for l in open(os.path.join(wd, "cc_trace.ndjson")).read().splitlines() if l.strip()]
    chunks = vlib.split_trace(lines, 3000)
    okev = 0
    for x in vlib.validate_chunks("Trace_ConnCache", "cc_trace.ndjson", chunks, parallel=10, timeout=600):
        rr, ch = x["res"], chunks[x["chunk"]]
        chk.add_tlc(rr)
        if rr["violated"]:
            fi = x["fail_index"] or 2
            upto = max(1, min(len(ch), fi - 1))
            start = upto - 1
            while start > 0 and '"ev":"reset"' not in ch[start]:
                start -= 1
            hist = [json.loads(y) for y in ch[start:upto]]
            chk.violation("conn-trace:" + str(rr["violated"]), "scenario %s violates %s: %s" % (hist[0].get("scenario"), rr["violated"],
                          json.dumps(hist[1:])[:700]), dict(kind="c20-trace", history=hist))
            okev += upto
            continue
        vlib.tlc_must_pass(rr, "Trace_ConnCache")
        okev += len(ch)
    chk.cov["traces_validated_against_impl"] = res["scenarios"]
    chk.cov["events_validated"] = okev
    chk.cov["evaluations"] = res["scenarios"]
    chk.cov["distinct_nontrivial"] = res["distinct"]
    chk.cov["rule"] = ("grid: 1-4 regions on one server x 1-6 concurrent first users x 4 discovery orders x {0,1,2 connection resets between waves, "
                       "connection killed during the second probe}; then a region discovered later; then Close. Seeded random: up to 12 callers, "
                       "jitter at the establisher's hook points. Dials (at the dialer), clientDown declarations (hook) and open connections "
                       "at quiescent points are validated by TLC: dials <= 1 + declared, <= 1 open per address, 0 after Close")
    chk.sample(dict(model_cfg="MC_ConnCache.cfg", states=r["distinct"]))
    for l in lines[1:4]:
        chk.sample(json.loads(l))


def replay(chk, rep):
    print(json.dumps(rep["replay"], indent=1)[:4000])
    run(chk)
    return chk.finish()
