"""C02 - each caller receives the response to its own request."""
import json, os
import vlib, rcshared

LEVEL = "model_checking"


def run(chk):
    thorough = chk.tier == "thorough"
    r = vlib.run_tlc("MC_RegionClient", "MC_RegionClient_c02.cfg", timeout=1500)
    vlib.tlc_must_pass(r, "MC_RegionClient_c02")
    chk.add_tlc(r)
    md = vlib.run_tlc("MultiDispatch", timeout=900)     # index / hole / cellblock-position correlation inside one multi response
    vlib.tlc_must_pass(md, "MultiDispatch")
    chk.add_tlc(md)
    wd, res, t = rcshared.run_driver(chk, "TestVerifC02", "c02_result.json", dict(VERIF_N="400" if thorough else "40"), timeout=1700)
    for v in res["violations"] or []:
        chk.violation(v["sig"], v["desc"], dict(kind="c02", detail=v))
    n = rcshared.validate_trace(chk, wd, "c02-trace")
    chk.cov["traces_validated_against_impl"] = res["scenarios"]
    chk.cov["events_validated"] = n
    chk.cov["evaluations"] = res["scenarios"]
    chk.cov["distinct_nontrivial"] = res["distinct"]
    chk.cov["rule"] = ("A: for 6 multi layouts (1-3 calls over 2 regions): every permutation of results x cells in protobuf/cellblock x 3 "
                       "cell-count patterns, a per-action exception at every position x 8 classes, a per-region exception on either region x 5 "
                       "classes; B: seeded runs of 2-48 concurrent callers, queue size 1-6, answers out of order with random permutations, "
                       "cell counts, placements and exceptions. distinct = scenarios")
    for s in res["samples"] or []:
        chk.sample(s)
    chk.sample(dict(model_cfg="MC_RegionClient_c02.cfg", states=r["distinct"]))
    chk.assumptions += ["the simulated server lays the cellblock out in the order it lists the results (as HBase does)",
                        "calls are told apart by unique row keys; the answer for row r carries cells (r, 'v-'+r)"]


def replay(chk, rep):
    print(json.dumps(rep["replay"], indent=1)[:4000])
    run(chk)
    return chk.finish()
