"""C04 - requests survive region and server faults; only real errors surface."""
import json, os
import vlib
from props import c09

LEVEL = "model_checking"


def run(chk):
    thorough = chk.tier == "thorough"
    r = vlib.run_tlc("RequestLoop", timeout=900)
    vlib.tlc_must_pass(r, "RequestLoop")
    chk.add_tlc(r)
    res, wd = c09.run_driver(chk, 600 if thorough else 80)
    for v in res["violations"] or []:
        if v["sig"] in ("request-stranded", "client-panic") or v["sig"].startswith("request"):
            chk.violation(v["sig"], v["desc"], dict(kind="c04", detail=v))
    if res["scenarios"]:
        okev, tv, lines = c09.validate(chk, wd)
        for sig, desc, hist in tv:
            chk.violation(sig, desc, dict(kind="rl-trace", history=hist[-60:]))
        chk.cov["events_validated"] = okev
        for l in [x for x in lines if '"ev":"attempt"' in x][:3]:
            chk.sample(json.loads(l))
    chk.cov["traces_validated_against_impl"] = res["scenarios"]
    chk.cov["evaluations"] = res["scenarios"]
    chk.cov["distinct_nontrivial"] = res["distinct"]
    chk.cov["rule"] = ("one scenario per Java exception class of the client's three tables, the IOException+'log is closed' rule and four "
                       "unknown / application classes x {get, put}: the first attempt is answered with it; seeded fault scripts (see C09) with "
                       "unbatched calls so that every attempt is visible at the servers; attempts per request and the final outcome are "
                       "validated by TLC against ErrorClasses (RetriesJustified, EndsAsLastAttempt) and StableQuiescence")
    for s in res["samples"] or []:
        chk.sample(s)
    chk.assumptions += ["hbase:meta stays consistent; administrative calls are not covered (see DESIGN.md)"]


def replay(chk, rep):
    print(json.dumps(rep["replay"], indent=1)[:4000])
    run(chk)
    return chk.finish()
