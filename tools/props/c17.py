"""C17 - retries back off and never become a hot loop."""
import json, os
import vlib

LEVEL = "model_checking"


def run(chk):
    r = vlib.run_tlc("Backoff", timeout=600)
    vlib.tlc_must_pass(r, "Backoff")
    chk.add_tlc(r)
    wd = vlib.scratch("verif-c17-")
    t = vlib.go_test("", "^TestVerifC17$", env=dict(VERIF_OUT=wd, VERIF_SEED=str(chk.seed), VERIF_TIER=chk.tier), timeout=1500, race=True)
    resf = os.path.join(wd, "c17_result.json")
    if not os.path.exists(resf) or t["rc"] != 0:
        v = vlib.classify_panic(t["out"])
        if v:
            chk.violation(v["sig"], v["desc"], dict(kind="panic"))
            return
        raise vlib.driver_failed("C17 driver failed", t["out"])
    res = json.load(open(resf))
    for v in res["violations"] or []:
        chk.violation(v["sig"], v["desc"], dict(kind="c17", detail=v))
    # the admin client polls a running procedure with the same schedule (Admin.tla / Trace_Admin)
    from props import admin
    ad = admin.run_admin(chk)
    for v in ad.get("violations") or []:
        chk.violation(v["sig"], v["desc"], dict(kind="admin", detail=v))
    for st in ad["stuck"]:
        at = st["at"] or {}
        if st.get("after_cancel"):
            continue    # (what happens after the context ended is C13's)
        if at.get("ev") == "procPoll" or st["violated"] in ("WaitsFollowSchedule", "OnePollPerWait", "NeverPollsAfterTheVerdict"):
            chk.violation("admin-poll-schedule", "admin scenario %s: the polls of the procedure do not follow the retry schedule (%s at %s); events %s"
                          % (st["scenario"], st["violated"], json.dumps(at), json.dumps(st["events"])[:900]), dict(kind="admin-trace", detail=st))
        elif not (at.get("ev") == "adminRet" and at.get("result") == "ctx") and at.get("ev") != "cancel":
            chk.notes.append("MODEL-DRIFT admin scenario %s: Admin.tla cannot follow %s (%s) - not a statement of C17" % (st["scenario"], json.dumps(at)[:200], st["violated"]))
    chk.cov["admin_scenarios_validated"] = ad["scenarios"]
    lines = [l for l in open(os.path.join(wd, "c17_trace.ndjson")).read().splitlines() if l.strip()]
    chunks = vlib.split_trace(lines, 1, reset_marker='"ev":"scenario"')
    results = vlib.validate_chunks("Trace_Backoff", "c17_trace.ndjson", chunks, parallel=10, timeout=600)
    okev = 0
    for x in results:
        rr, ch = x["res"], chunks[x["chunk"]]
        chk.add_tlc(rr)
        if rr["violated"]:
            sc = json.loads(ch[0])
            ts = [json.loads(l)["t"] for l in ch[1:]]
            g = [ts[i + 1] - ts[i] for i in range(len(ts) - 1)]
            chk.violation("backoff-schedule:" + sc["name"].split("/")[0], "scenario %s: the gaps between successive attempts (us) %s do not follow the "
                          "schedule (imm=%d cost=%dms tol=%dms first-pass-free=%s)" % (sc["name"], g[:24], sc["imm"], sc["cost"], sc["tol"], sc["zero"]),
                          dict(kind="c17-trace", scenario=sc, times=ts))
            continue
        vlib.tlc_must_pass(rr, "Trace_Backoff")
        okev += len(ch)
    chk.cov["traces_validated_against_impl"] = res["scenarios"]
    chk.cov["events_validated"] = okev
    chk.cov["evaluations"] = res["scenarios"]
    chk.cov["distinct_nontrivial"] = res["distinct"]
    chk.cov["rule"] = ("9 persistent-failure scenarios (retry-later and call-queue-too-big for ever, server that answers the probe but drops every "
                       "request, server that drops every connection, region never online, region opening for ever, dial refused, hbase:meta silent, "
                       "ZooKeeper errors) x {single call, batch}; each runs for the whole schedule in virtual time (330 s; 700 s thorough) with the "
                       "real sleep function, then the context is cancelled and the call must return in zero virtual time")
    for s in res["samples"] or []:
        chk.sample(s)
    chk.assumptions += ["virtual time of testing/synctest; an attempt is timed when it reaches the simulated cluster"]


def replay(chk, rep):
    print(json.dumps(rep["replay"], indent=1)[:4000])
    run(chk)
    return chk.finish()
