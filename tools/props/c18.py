"""C18 - silent servers are detected; idle connections are left alone."""
import json, os
import vlib, rcshared

LEVEL = "model_checking"


def run(chk):
    thorough = chk.tier == "thorough"
    r = vlib.run_tlc("MC_RegionClient", "MC_RegionClient_c18.cfg", timeout=1500)
    vlib.tlc_must_pass(r, "MC_RegionClient_c18")
    chk.add_tlc(r)
    # the design of the pinned tree (arm after write) must still show the counter-example the forced schedule replays
    p = vlib.run_tlc("MC_RegionClient", "MC_RegionClient_c18_pinned.cfg", timeout=600)
    chk.cov["model_counterexample_for_arm_after_write"] = str(p["violated"])
    na = vlib.run_tlc("MC_RegionClient", "MC_RegionClient_c18_nonatomicdown.cfg", timeout=600)
    if na["violated"] != "BusyArmed":
        raise vlib.MachineryError("MC_RegionClient_c18_nonatomicdown: expected the BusyArmed counter-example, got %r" % (na["violated"],))
    chk.cov["model_counterexample_for_clearing_outside_the_mutex"] = str(na["violated"])
    wd, res, t = rcshared.run_driver(chk, "TestVerifC18", "c18_result.json", dict(VERIF_N="400" if thorough else "60"))
    if res is None:
        chk.violation("client-panic", "the region client panicked during a C18 scenario:\n" + t["out"][-1500:], dict(kind="panic", out=t["out"][-4000:]))
        return
    for v in res["violations"] or []:
        chk.violation(v["sig"], v["desc"], dict(kind="c18", detail=v))
    # client level: the read timeout the user configures is the one in force (regionservers and the admin client's master)
    wd2 = vlib.scratch("verif-c18c-")
    t2 = vlib.go_test("", "^TestVerifC18Client$", env=dict(VERIF_OUT=wd2, VERIF_SEED=str(chk.seed)), timeout=1200, race=True)
    rf2 = os.path.join(wd2, "c18c_result.json")
    if not os.path.exists(rf2) or t2["rc"] != 0:
        v = vlib.classify_panic(t2["out"])
        if v:
            chk.violation(v["sig"], v["desc"], dict(kind="panic"))
            return
        raise vlib.driver_failed("C18 client-level driver failed", t2["out"])
    res2 = json.load(open(rf2))
    for v in res2["violations"] or []:
        chk.violation(v["sig"], v["desc"], dict(kind="c18-client", detail=v))
    chk.cov["client_level_scenarios"] = res2["scenarios"]
    n = rcshared.validate_trace(chk, wd, "c18-trace")
    chk.cov["traces_validated_against_impl"] = res["scenarios"]
    chk.cov["events_validated"] = n
    chk.cov["evaluations"] = res["scenarios"]
    chk.cov["distinct_nontrivial"] = res["distinct"]
    chk.cov["rule"] = ("6 forced schedules (response consumed between write and deadline arming; unbatched and multi; timeouts 1ms/1s/30s), "
                       "3 silent-server runs checked to the nanosecond of virtual time, and seeded random interleavings of submits, "
                       "out-of-order answers and cancellations with jitter at the send/receive hook points; each followed by 10 x timeout idle "
                       "and a final request; distinct = distinct scenario parameterisations")
    for s in res["samples"] or []:
        chk.sample(s)
    chk.sample(dict(model_cfg="MC_RegionClient_c18.cfg", states=r["distinct"]))
    chk.assumptions += ["in-memory net.Conn with timer-based read deadlines inside testing/synctest (virtual time)",
                        "simulated regionserver answers are well-formed"]


def replay(chk, rep):
    print(json.dumps(rep["replay"], indent=1)[:4000])
    run(chk)
    return chk.finish()
