"""C11 - malformed data from the network cannot crash the client."""
import json, os
import vlib

LEVEL = "fault_enumeration"


def run(chk):
    thorough = chk.tier == "thorough"
    wd = vlib.scratch("verif-c11-")
    g = vlib.run_tlc("Gen_Malform", workers=1, timeout=300, workdir=wd)
    vlib.tlc_must_pass(g, "Gen_Malform")
    t = vlib.go_test("region", "^TestVerifC11$", env=dict(VERIF_IN=wd, VERIF_OUT=wd, VERIF_SEED=str(chk.seed),
                     VERIF_N="200000" if thorough else "8000"), timeout=1700, race=False)
    resf = os.path.join(wd, "c11_result.json")
    if not os.path.exists(resf) or t["rc"] != 0:
        v = vlib.classify_panic(t["out"])
        if v:
            chk.violation(v["sig"], v["desc"], dict(kind="panic"))
            return
        raise vlib.MachineryError("C11 driver failed:\n" + t["out"][-3500:])
    res = json.load(open(resf))
    for v in res["violations"] or []:
        chk.violation(v["sig"], v["desc"], dict(kind="c11", detail=v))
    chk.cov["evaluations"] = res["scenarios"]
    chk.cov["distinct_nontrivial"] = res["distinct"]
    chk.cov["rule"] = ("structured: every (call kind, field, operator) case enumerated by TLC from Malform.tla (frame header, call id, "
                       "cellblock length, exception fields, response body, the five length fields of a cell, every prefix of the cellblock, "
                       "cell counts, scan partial flags, multi indices / missing / contradictory results / region results, region-info cell) "
                       "turned into concrete bytes and fed to the real reader; plus seeded byte-level mutations (flip, overwrite, truncate, "
                       "splice, extreme bytes) of valid get / mutate / scan / multi frames. distinct = structured cases; oracle = Orderly")
    chk.cov["samples"] = res["samples"] or [dict(note="no samples")]
    chk.cov["states"] = 1
    chk.assumptions += ["the reader is entered through client.receive with the call registered, as the reader goroutine does",
                        "this is an enumeration over the response grammar plus random mutations, not coverage-guided fuzzing of all byte strings"]


def replay(chk, rep):
    print(json.dumps(rep["replay"], indent=1)[:4000])
    run(chk)
    return chk.finish()
