"""C11 - malformed data from the network cannot crash the client."""
import json, os
import vlib

LEVEL = "fault_enumeration"


def run(chk):
    thorough = chk.tier == "thorough"
    wd = vlib.scratch("verif-c11-")
    g = vlib.run_tlc("Gen_Malform", workers=1, timeout=300, workdir=wd)
    vlib.tlc_must_pass(g, "Gen_Malform")
    t = vlib.go_test("region", "^TestVerifC11$", env=dict(VERIF_IN=wd, VERIF_OUT=wd, VERIF_SEED=str(chk.seed),
                     VERIF_N="200000" if thorough else "8000"), timeout=1700, race=False)
    resf = os.path.join(wd, "c11_result.json")
    if not os.path.exists(resf) or t["rc"] != 0:
        v = vlib.classify_panic(t["out"])
        if v:
            chk.violation(v["sig"], v["desc"], dict(kind="panic"))
            return
        raise vlib.driver_failed("C11 driver failed", t["out"])
    res = json.load(open(resf))
    for v in res["violations"] or []:
        chk.violation(v["sig"], v["desc"], dict(kind="c11", detail=v))
    # client level: the consumers of a decoded response (scanner.Next, the hbase:meta lookup, Increment, CheckAndPut, SendBatch)
    wd2 = vlib.scratch("verif-c11c-")
    t2 = vlib.go_test("", "^TestVerifC11Client$", env=dict(VERIF_IN=wd, VERIF_OUT=wd2, VERIF_SEED=str(chk.seed)), timeout=1700, race=False)
    resf2 = os.path.join(wd2, "c11c_result.json")
    if not os.path.exists(resf2) or t2["rc"] != 0:
        v = vlib.classify_panic(t2["out"])
        if v:
            chk.violation("client-level:" + v["sig"], v["desc"], dict(kind="panic"))
            return
        raise vlib.driver_failed("C11 client-level driver failed", t2["out"])
    res2 = json.load(open(resf2))
    for v in res2["violations"] or []:
        chk.violation(v["sig"], v["desc"], dict(kind="c11-client", detail=v))
    chk.cov["client_level_scenarios"] = res2["scenarios"]
    chk.cov["client_level_cases_not_reached"] = sorted(k for k in (res2.get("extra") or {}) if k.startswith("not-reached:"))[:20]
    chk.cov["evaluations"] = res["scenarios"] + res2["scenarios"]
    chk.cov["distinct_nontrivial"] = res["distinct"] + res2["distinct"]
    chk.cov["rule"] = ("structured: every (call kind, field, operator) case enumerated by TLC from Malform.tla (frame header, call id, "
                       "cellblock length, exception fields, response body, the five length fields of a cell, every prefix of the cellblock, "
                       "cell counts, scan partial flags, multi indices / missing / contradictory results / region results, region-info cell) "
                       "turned into concrete bytes and fed to the real reader; plus seeded byte-level mutations (flip, overwrite, truncate, "
                       "splice, extreme bytes) of valid get / mutate / scan / multi frames. distinct = structured cases; oracle = Orderly. Client level: "
                       "a healthy simulated cluster answers the 1st / 2nd request of a public API call (get, put, increment, check-and-put, scan "
                       "with and without partial results, batch) or of its hbase:meta lookup with a valid protobuf whose counts / flags / "
                       "columns are inconsistent; the call must end (result or error) without a panic and the client must work afterwards")
    chk.cov["samples"] = res["samples"] or [dict(note="no samples")]
    chk.cov["states"] = 1
    chk.assumptions += ["the reader is entered through client.receive with the call registered, as the reader goroutine does",
                        "this is an enumeration over the response grammar plus random mutations, not coverage-guided fuzzing of all byte strings"]


def replay(chk, rep):
    print(json.dumps(rep["replay"], indent=1)[:4000])
    run(chk)
    return chk.finish()
