"""C06 - a scan returns exactly the rows in range, in order, whole, once. (Shared scan machinery with C14.)"""
import json, os, re
import vlib

LEVEL = "model_checking"


def run_scan(chk, endings, model_cfg, nrand, maxscripts):
    r = vlib.run_tlc("MC_Scanner", model_cfg, timeout=1200)
    vlib.tlc_must_pass(r, model_cfg)
    chk.add_tlc(r)
    wd = vlib.scratch("verif-scan-")
    t = vlib.go_test("", "^TestVerifScan$", env=dict(VERIF_OUT=wd, VERIF_SEED=str(chk.seed), VERIF_N=str(nrand),
                     VERIF_ENDINGS="1" if endings else "0", VERIF_MAXSCRIPTS=str(maxscripts)), timeout=1700, race=True)
    resf = os.path.join(wd, "scan_result.json")
    if not os.path.exists(resf):
        v = vlib.classify_panic(t["out"])
        if v:
            chk.violation(v["sig"], v["desc"], dict(kind="panic"))
            return None, r
        raise vlib.driver_failed("scan driver produced no result", t["out"])
    res = json.load(open(resf))
    if t["rc"] != 0:
        raise vlib.driver_failed("scan driver failed", t["out"])
    for v in res["violations"] or []:
        chk.violation(v["sig"], v["desc"], dict(kind="scan", detail=v))
    lines = [l for l in open(os.path.join(wd, "scan_trace.ndjson")).read().splitlines() if l.strip()]
    chunks = vlib.split_trace(lines, 2500, reset_marker='"ev":"scanStart"')
    results = vlib.validate_chunks("Trace_Scanner", "scan_trace.ndjson", chunks, parallel=12, timeout=900)
    okev = 0
    drift = []
    for x in results:
        rr, ch = x["res"], chunks[x["chunk"]]
        chk.add_tlc(rr)
        stuck = re.search(r'"@@STUCK", (\d+)', rr["out"])
        if rr["violated"] and stuck and "Postcondition" not in str(rr["violated"]) or (rr["violated"] and not stuck):
            # an invariant of the scanner specification failed in a reached state
            fi = x["fail_index"] or 2
            upto = max(1, min(len(ch), fi - 1))
            start = upto - 1
            while start > 0 and '"ev":"scanStart"' not in ch[start]:
                start -= 1
            hist = [json.loads(y) for y in ch[start:upto]]
            chk.violation("scan-trace:" + str(rr["violated"]), "scenario %s: the real scanner's execution violates %s of the scanner specification; "
                          "last events %s" % (hist[0].get("scenario"), rr["violated"], json.dumps(hist[-3:])[:600]),
                          dict(kind="scan-trace", history=hist[-80:]))
            okev += upto
            continue
        if stuck:
            drift.append((x["chunk"], int(stuck.group(1))))
            continue
        vlib.tlc_must_pass(rr, "Trace_Scanner chunk %d" % x["chunk"])
        okev += len(ch)
    if drift:
        # the implementation-shaped model cannot follow these executions; the verdict is the contract's
        dchunks = [chunks[c] for c, _ in drift]
        for y, (c, k) in zip(vlib.validate_chunks("Trace_ScanContract", "scan_trace.ndjson", dchunks, parallel=12, timeout=900), drift):
            cr, ch = y["res"], chunks[c]
            chk.add_tlc(cr)
            at = ch[max(0, min(len(ch), k) - 1)]
            if cr["violated"]:
                fi = y["fail_index"] or 2
                upto = max(1, min(len(ch), fi - 1))
                start = upto - 1
                while start > 0 and '"ev":"scanStart"' not in ch[start]:
                    start -= 1
                hist = [json.loads(z) for z in ch[start:upto]]
                chk.violation("scan-contract:" + str(cr["violated"]), "scenario %s: what Next() returned violates %s (sorted, range-filtered "
                              "table / error-once-then-EOF / nothing left open); last events %s" % (
                                  hist[0].get("scenario"), cr["violated"], json.dumps(hist[-3:])[:600]), dict(kind="scan-trace", history=hist[-80:]))
                okev += upto
            else:
                vlib.tlc_must_pass(cr, "Trace_ScanContract")
                chk.notes.append("MODEL-DRIFT: the execution departs from Scanner.tla at %s but satisfies the contract (chunk of %d events "
                                 "validated against the contract only)" % (at[:160], len(ch)))
                okev += len(ch)
    chk.cov["traces_validated_against_impl"] = res["scenarios"]
    chk.cov["events_validated"] = okev
    chk.cov["evaluations"] = res["scenarios"]
    chk.cov["distinct_nontrivial"] = res["distinct"]
    for s in res["samples"] or []:
        chk.sample(s)
    for l in lines[:3]:
        chk.sample(json.loads(l))
    chk.cov["scripts_per_small_config"] = res.get("extra")
    return res, r


def run(chk):
    thorough = chk.tier == "thorough"
    res, r = run_scan(chk, False, "MC_Scanner_c06.cfg", 1500 if thorough else 150, 0 if thorough else 60)
    chk.cov["rule"] = ("8 small configurations (3 rows with 1-3 cells; 1-3 regions; ranges incl. bounds equal to region boundaries; forward and "
                       "reversed) x AllowPartialResults on/off: an odometer over EVERY decision the simulated server is asked for (results per "
                       "response 0..2, last row cut after 1 or 2 cells, heartbeats; quick tier: first 60 scripts per configuration) + seeded "
                       "random tables (1-12 rows over bytes {00,01,',','a',fe,ff}, 0-3 splits, random ranges/directions/cuts)")
    chk.assumptions += ["row keys without a run of eight 0xff bytes; reversed scans with an explicit start row",
                        "the location cache is warmed before the scan so that the scan's own requests are contiguous in the trace"]


def replay(chk, rep):
    print(json.dumps(rep["replay"], indent=1)[:4000])
    run(chk)
    return chk.finish()
