"""C15 - cellblock compression round-trips and follows Hadoop block framing."""
import json, os
import vlib

LEVEL = "model_checking"


def run(chk):
    thorough = chk.tier == "thorough"
    r = vlib.run_tlc("MC_BlockStream", timeout=600)
    vlib.tlc_must_pass(r, "MC_BlockStream")
    chk.add_tlc(r)
    wd = vlib.scratch("verif-c15-")
    g = vlib.run_tlc("Gen_BlockStream", workers=1, timeout=300, workdir=wd)
    vlib.tlc_must_pass(g, "Gen_BlockStream")
    t = vlib.go_test("region", "^TestVerifC15$", env=dict(VERIF_IN=wd, VERIF_OUT=wd, VERIF_SEED=str(chk.seed),
                     VERIF_N="200" if thorough else "12"), timeout=1500)
    resf = os.path.join(wd, "c15_result.json")
    if not os.path.exists(resf):
        raise vlib.driver_failed("C15 driver produced no result", t["out"])
    res = json.load(open(resf))
    for v in res["violations"] or []:
        chk.violation(v["sig"], v["desc"], dict(kind="c15", detail=v))
    chk.cov["traces_validated_against_impl"] = res["distinct"]
    chk.cov["evaluations"] = res["evaluations"]
    chk.cov["distinct_nontrivial"] = res["distinct"]
    chk.cov["rule"] = ("writer vectors: payloads of 0..10 bytes, chunk size K in {2,3}, 1-3 buffers, exact stream bytes from the "
                       "specification; reader vectors (%d): all conforming block/chunk re-cuttings of payloads up to 4 bytes, every "
                       "single-byte corruption (5 values per position), every truncation and some extensions of the writer streams, with "
                       "the specification reader's verdict; real snappy: structure (block length, chunk sizes) from the specification for "
                       "%d boundary sizes around multiples of 218421 + %d random sizes, independent Hadoop reader, multi-block server streams"
                       % (res["reader_vectors"], res["struct_vectors"], res["random_sizes"]))
    chk.cov["exhaustive"] = True
    for s in res["samples"] or []:
        chk.sample(s)
    chk.assumptions += ["mock codec (tag + increment) stands for the codec on the small scope; golang/snappy is trusted as the snappy chunk codec",
                        "damage inside a snappy chunk that still decodes is undetectable by the format and not demanded"]


def replay(chk, rep):
    print(json.dumps(rep["replay"], indent=1)[:3000])
    run(chk)
    return chk.finish()
