"""C13 - cancellation is honoured promptly in every state."""
import json, os
import vlib

LEVEL = "model_checking"


def run(chk):
    r = vlib.run_tlc("Cancellation", "Cancellation.cfg", timeout=600)
    vlib.tlc_must_pass(r, "Cancellation")
    chk.add_tlc(r)
    p = vlib.run_tlc("Cancellation", "Cancellation_pinned.cfg", timeout=600)
    chk.cov["model_counterexample_pinned_design"] = str(p["violated"])
    k = vlib.run_tlc("Cancellation", "Cancellation_callctx.cfg", timeout=600)
    chk.cov["model_counterexample_known_finding_call_context_while_locating"] = str(k["violated"])
    wd = vlib.scratch("verif-c13-")
    t = vlib.go_test("", "^TestVerifC13$", env=dict(VERIF_OUT=wd, VERIF_SEED=str(chk.seed)), timeout=1700, race=True)
    resf = os.path.join(wd, "c13_result.json")
    if not os.path.exists(resf) or t["rc"] != 0:
        v = vlib.classify_panic(t["out"]) or vlib.classify_race(t["out"])
        if v:
            chk.violation(v["sig"], v["desc"], dict(kind="panic"))
            return
        raise vlib.driver_failed("C13 driver failed", t["out"])
    res = json.load(open(resf))
    for v in res["violations"] or []:
        if v["sig"].startswith("harness:"):
            raise vlib.MachineryError("C13 scenario did not reach its wait state: " + v["desc"])
        chk.violation(v["sig"], v["desc"], dict(kind="c13", detail=v))
    # the fault scripts of C04 with one context for all calls, ended at a random instant in whatever state the script left
    wd3 = vlib.scratch("verif-c13s-")
    t3 = vlib.go_test("", "^TestVerifC13Scripts$", env=dict(VERIF_OUT=wd3, VERIF_SEED=str(chk.seed),
                      VERIF_N="1500" if chk.tier == "thorough" else "60"), timeout=1700, race=True)
    rf3 = os.path.join(wd3, "c13s_result.json")
    if not os.path.exists(rf3) or t3["rc"] != 0:
        v = vlib.classify_panic(t3["out"]) or vlib.classify_race(t3["out"])
        if v:
            chk.violation(v["sig"], v["desc"], dict(kind="panic"))
            return
        raise vlib.driver_failed("C13 script driver failed", t3["out"])
    res3 = json.load(open(rf3))
    for v in res3["violations"] or []:
        chk.violation(v["sig"], v["desc"], dict(kind="c13-script", detail=v))
    chk.cov["script_scenarios"] = res3["scenarios"]
    chk.cov["script_scenarios_with_a_blocked_call_at_cancellation"] = res3["distinct"]
    chk.cov["script_distinct_event_sequences"] = (res3.get("extra") or {}).get("distinct_event_sequences")
    # the admin client: an ended context ends a table operation at once - while a poll is unanswered, between two polls
    from props import admin
    ad = admin.run_admin(chk)
    for st in ad["stuck"]:
        at = st["at"] or {}
        if st.get("after_cancel"):
            chk.violation("cancel-slow-or-ignored:admin", "admin scenario %s: after its context ended the operation went on with %s "
                          "(Admin.tla: the context error at once, no further poll, no further sleep); events %s"
                          % (st["scenario"], json.dumps(at), json.dumps(st["events"])[:900]), dict(kind="admin-trace", detail=st))
    for v in ad.get("violations") or []:
        if "never-returns" in v["sig"]:
            chk.violation("cancel-ignored:admin", v["desc"], dict(kind="admin", detail=v))
    chk.cov["admin_scenarios_validated"] = ad["scenarios"]
    chk.cov["traces_validated_against_impl"] = res["scenarios"]
    chk.cov["evaluations"] = res["scenarios"]
    chk.cov["distinct_nontrivial"] = res["distinct"]
    chk.cov["rule"] = ("7 wait states (ZooKeeper blocked, hbase:meta silent, region never online, region probe unanswered, retry back-off, silent "
                       "server, batcher stuck in a held write) x 6 entry points (get, put, scan Next, batch with shared context, batch whose only "
                       "call carries the cancelled context, batch where one of two calls does) x {cancel, deadline}; each is confirmed blocked at a "
                       "quiescent point before the context ends and must have returned the context's error at the next quiescent point with zero "
                       "virtual time elapsed")
    chk.sample(dict(model="Cancellation.tla", states=r["distinct"]))
    chk.assumptions += ["a caller blocked inside conn.Write itself is not among the states the property lists and is not demanded"]


def replay(chk, rep):
    print(json.dumps(rep["replay"], indent=1)[:4000])
    run(chk)
    return chk.finish()
