#!/usr/bin/env python3
"""tools/mkprompts.py <dir> <suffix>: create scratch worktrees <dir>/<ID> of /repo and a prompt <dir>/<ID>.prompt.txt per property
for a sub-agent that is to seed one more breaking change. The prompt holds the property text and the places (file, function)
the earlier seeded changes for that property touched - nothing else from /verif."""
import json, os, re, subprocess, sys, glob
out = sys.argv[1]
os.makedirs(out, exist_ok=True)
props = [json.loads(l) for l in open("/verif/properties.jsonl")]
def places_of(d):
    out, cur, seen = [], None, set()
    for l in open(d + "/patch.diff", errors="replace"):
        if l.startswith("+++ b/"):
            cur = l[6:].strip()
        m = re.match(r"@@ .* @@ (.*)", l)
        if m and cur and (cur, m.group(1).strip()[:90]) not in seen:
            seen.add((cur, m.group(1).strip()[:90])); out.append("%s: %s" % (cur, m.group(1).strip()[:90]))
    return out
everywhere = sorted({x for d in glob.glob("/verif/seeded/C*") for x in places_of(d)})
for p in props:
    pid = p["id"]
    places = []
    for d in sorted(glob.glob("/verif/seeded/%s*" % pid)):
        if os.path.basename(d).split("-")[0] != pid:
            continue
        cur = None
        seen = set()
        for l in open(d + "/patch.diff", errors="replace"):
            if l.startswith("+++ b/"):
                cur = l[6:].strip()
            m = re.match(r"@@ .* @@ (.*)", l)
            if m and cur:
                fn = re.sub(r"\(.*", "", m.group(1).replace("func ", "")).strip()
                fn = m.group(1).strip()[:90]
                if (cur, fn) not in seen:
                    seen.add((cur, fn)); places.append("%s: %s" % (cur, fn))
    wt = os.path.join(out, pid)
    if not os.path.exists(wt):
        subprocess.run("git -C /repo worktree add -q --detach %s HEAD" % wt, shell=True, check=True)
    txt = """You are helping to evaluate a verification suite for the Go library tsuna/gohbase (a pure-Go HBase client). Your job: craft ONE realistic, subtle code change ("seeded defect") to the library that BREAKS the semantic property stated below, while the code still compiles and the repository's existing test suite still passes.

Work ONLY inside the git worktree {wt} (a checkout of the library). Do not touch /repo or /verif and do not read anything under /verif. Environment for every shell command: `export GOFLAGS=-mod=mod GOPROXY=off GOSUMDB=off GOTOOLCHAIN=local` (no network). The existing suite is run with: `cd {wt} && go test -vet=off -count=1 ./...` (it takes ~10 s and must still pass, every package "ok", after your change).

THE PROPERTY (this is all you get about what is being verified):
Property {pid}: {title}

{statement}

Quantified over: {quant}


Requirements for the change:
- It must be a plausible bug a developer could introduce (a refactoring slip, a wrong condition, a dropped step, a reordered pair of statements, a missing lock/check, an off-by-one, ...), confined to a few lines of non-test library code (packages: root, region/, hrpc/, compression/). Do not edit or delete existing tests. Do not touch files named verif_on.go / verif_off.go or calls to vhook(...).
- It must need something SPECIFIC to manifest: a particular interleaving of goroutines, a fault at a particular point, a multi-step sequence of operations, an unusual input or option, or two cooperating sites that each look fine alone. Ordinary happy-path use must still work, and the existing tests must not catch it.
- Other engineers have already seeded changes for this property at the places listed below (file: enclosing function as git shows it). Pick a DIFFERENT place or mechanism: another entry point of the public API, another option (compression, namespaces, reversed scans, lease renewal, priorities, timeouts, ...), another code path that enforces the same guarantee, shared state between two features. Do not re-introduce a bug that a previous commit whose message starts with "fix:" repaired (see `git log --oneline | grep fix:`).
{places}
  (Changes seeded for OTHER properties touched the following places; a change there is likely a repeat, prefer somewhere else:
{others})
- Write a demonstration: a NEW Go test file (name it zz_seeded_demo_test.go in the relevant package; you may use in-package access and the mocks under test/mock, fake net.Conn implementations, goroutines, etc.) containing one test `TestSeededDemo` that FAILS with your change applied and PASSES on the unchanged code. Verify both yourself: run it with the change; then save your change (`git diff > {wt}.my.patch`), undo it (`git checkout -- .`, the untracked demo file stays), run the demo again, then restore the change with `git apply {wt}.my.patch`. NEVER use `git stash` (the stash is shared between worktrees).
- Finally leave in {wt}: (1) the library change applied in the working tree (uncommitted), (2) the demo test file, (3) a file SEEDED.md explaining: which lines you changed and why it breaks the property, exactly what is needed for it to manifest, and the commands you ran with their observed results (existing suite passes with the change; demo fails with it and passes without it).

Think about where in the code the property is enforced (read the code), pick a spot whose breakage the existing tests do not exercise, and keep the change minimal. Report back a short summary (changed file/lines, what triggers it, verification results).
""".format(wt=wt, pid=pid, title=p["title"], statement=p["statement"], quant=p["quantifier"]["text"],
           places="\n".join("    - " + x for x in places),
           others="\n".join("      " + x for x in everywhere if x not in places))
    open(os.path.join(out, pid + ".prompt.txt"), "w").write(txt)
print("prepared", len(props), "worktrees under", out)
