"""The content half of the wire check (harness/region/c05c.go): TLC-enumerated operation shapes (Gen_Wire, Gen_KeyValue) through
the real encoder, single and grouped into multi requests over two regions, decoded independently at the server. Shared by
C05 (every finding), C10 (the batch path of the mutation encodings), C01 and C12 (an action filed under / delivered to a
region that does not own its row)."""
import json, os
import vlib


def run_content(chk, reps=1):
    gw = vlib.scratch("verif-c05c-")
    g = vlib.run_tlc("Gen_Wire", workers=1, timeout=300, workdir=gw)
    vlib.tlc_must_pass(g, "Gen_Wire")
    chk.add_tlc(g)
    g2 = vlib.run_tlc("Gen_KeyValue", workers=1, timeout=300, workdir=gw)
    vlib.tlc_must_pass(g2, "Gen_KeyValue")
    chk.add_tlc(g2)
    t2 = vlib.go_test("region", "^TestVerifC05Content$", env=dict(VERIF_IN=gw, VERIF_OUT=gw, VERIF_SEED=str(chk.seed), VERIF_REPS=str(reps)),
                      timeout=1700, race=False)
    resf = os.path.join(gw, "c05c_result.json")
    if not os.path.exists(resf) or t2["rc"] != 0:
        v = vlib.classify_panic(t2["out"])
        if v:
            return dict(scenarios=0, distinct=0, samples=[], violations=[v])
        raise vlib.driver_failed("wire content driver failed", t2["out"])
    return json.load(open(resf))


def misrouted(v):
    """an action of a multi filed under, or its cells delivered to, a region that does not own the action's row"""
    return v["sig"] == "multi-wrong-region" or (v["sig"] == "decoded-op-differs" and "of another row" in v["desc"])


def mutation_encoding(v):
    """what the server decodes for a mutation (its cells, their kinds / timestamps / values) is not the mutation built"""
    d = v["desc"]
    return v["sig"] in ("cellblock-count", "cellblock-undecodable") or (
        v["sig"] == "decoded-op-differs" and any(k in d for k in ("put ", "delete ", "append ", "increment ", "the server decodes cells", "a cell of another row")))
