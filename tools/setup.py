"""Offline setup: parse every spec with SANY, warm the Go build cache for the harness."""
import glob, os, subprocess, sys
sys.path.insert(0, os.path.dirname(os.path.abspath(__file__)))
import vlib
wd = vlib.scratch("verif-setup-")
import shutil
bad = 0
for f in glob.glob(os.path.join(vlib.SPEC, "*.tla")):
    shutil.copy(f, wd)
for f in sorted(glob.glob(os.path.join(wd, "*.tla"))):
    p = subprocess.run(["java", "-cp", "/opt/veriftools/tla/tla2tools.jar:/opt/veriftools/tla/CommunityModules-deps.jar",
                        "tla2sany.SANY", os.path.basename(f)], cwd=wd, stdout=subprocess.PIPE, stderr=subprocess.STDOUT, text=True)
    if p.returncode != 0 or "Semantic errors" in p.stdout or "Could not parse" in p.stdout or "*** Errors" in p.stdout:
        print("SANY FAILED", f); print(p.stdout[-2000:]); bad += 1
print("sany: %d modules, %d failed" % (len(glob.glob(os.path.join(wd, '*.tla'))), bad))
# warm build cache (compile the three overlaid test packages, run nothing)
try:
    for pkg in ["", "region", "hrpc"]:
        r = vlib.go_test(pkg, "^$", timeout=900, race=False)
        print("go build", pkg or ".", "rc", r["rc"])
        r = vlib.go_test(pkg, "^$", timeout=1200, race=True)
except vlib.MachineryError as e:
    print("setup: harness build failed:", e); bad += 1
sys.exit(1 if bad else 0)
